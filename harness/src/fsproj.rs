//! File-system projection: directory listings, content hashes, decoded segments.idx, WAL lines.

use serde_json::{json, Map, Value};
use sha2::{Digest, Sha256};
use std::path::Path;

fn hash_file(p: &Path) -> String {
    match std::fs::read(p) {
        Ok(b) => {
            let mut h = Sha256::new();
            h.update(&b);
            let d = h.finalize();
            format!("{}:{}", b.len(), hex::encode(&d[..8]))
        }
        Err(e) => format!("ERR:{e}"),
    }
}

fn dir_files(p: &Path, prefix: &str, out: &mut Map<String, Value>) {
    let mut names: Vec<_> = match std::fs::read_dir(p) {
        Ok(rd) => rd.flatten().collect(),
        Err(_) => return,
    };
    names.sort_by_key(|e| e.file_name());
    for e in names {
        let name = format!("{prefix}{}", e.file_name().to_string_lossy());
        let path = e.path();
        if path.is_dir() {
            dir_files(&path, &format!("{name}/"), out);
        } else {
            out.insert(name, Value::String(hash_file(&path)));
        }
    }
}

/// Projection of one shard's data dir: { segs: {label: {file: hash}}, idx: [[id, [uids]]] | null, other: [...] }
pub async fn shard_data(shard_dir: &Path) -> Value {
    let mut segs = Map::new();
    let mut other = Vec::new();
    if let Ok(rd) = std::fs::read_dir(shard_dir) {
        let mut es: Vec<_> = rd.flatten().collect();
        es.sort_by_key(|e| e.file_name());
        for e in es {
            let name = e.file_name().to_string_lossy().to_string();
            if e.path().is_dir() && name.chars().all(|c| c.is_ascii_digit()) {
                let mut files = Map::new();
                dir_files(&e.path(), "", &mut files);
                segs.insert(name, Value::Object(files));
            } else if e.path().is_dir() && name == ".reclaim" {
                let mut files = Map::new();
                dir_files(&e.path(), "", &mut files);
                other.push(json!({".reclaim": files}));
            } else {
                other.push(Value::String(name));
            }
        }
    }
    let idx = decode_index(shard_dir);
    let idx_path = shard_dir.join("segments.idx");
    let (idx_ino, idx_hash) = match std::fs::metadata(&idx_path) {
        Ok(m) => {
            use std::os::unix::fs::MetadataExt;
            (json!(m.ino()), json!(hash_file(&idx_path)))
        }
        Err(_) => (Value::Null, Value::Null),
    };
    json!({"segs": segs, "idx": idx, "other": other, "idx_ino": idx_ino, "idx_hash": idx_hash})
}

/// Decode segments.idx without the crate's loader (which deletes the tmp file and "recovers"):
/// 20-byte-ish BinaryHeader then bincode Vec<SegmentEntry>. We use the crate's header reader.
pub fn decode_index(shard_dir: &Path) -> Value {
    use snel_db::engine::core::SegmentEntry;
    use snel_db::shared::storage_header::BinaryHeader;
    let path = shard_dir.join("segments.idx");
    let mut f = match std::fs::File::open(&path) {
        Ok(f) => f,
        Err(_) => return Value::Null,
    };
    if BinaryHeader::read_from(&mut f).is_err() {
        return json!({"error": "bad header"});
    }
    let r = std::io::BufReader::new(f);
    match bincode_deser(r) {
        Ok(entries) => {
            let mut v: Vec<(u32, Vec<String>)> = entries
                .into_iter()
                .map(|e: SegmentEntry| {
                    let mut u = e.uids.clone();
                    u.sort();
                    (e.id, u)
                })
                .collect();
            v.sort();
            json!(v)
        }
        Err(e) => json!({"error": e}),
    }
}

fn bincode_deser<R: std::io::Read>(mut r: R) -> Result<Vec<snel_db::engine::core::SegmentEntry>, String> {
    // bincode 1.x default: u64 length prefixes, little endian, fixed ints.
    let mut buf = Vec::new();
    r.read_to_end(&mut buf).map_err(|e| e.to_string())?;
    let mut pos = 0usize;
    let rd_u64 = |buf: &[u8], pos: &mut usize| -> Result<u64, String> {
        if *pos + 8 > buf.len() {
            return Err("eof".into());
        }
        let v = u64::from_le_bytes(buf[*pos..*pos + 8].try_into().unwrap());
        *pos += 8;
        Ok(v)
    };
    let n = rd_u64(&buf, &mut pos)?;
    let mut out = Vec::new();
    for _ in 0..n {
        if pos + 4 > buf.len() {
            return Err("eof".into());
        }
        let id = u32::from_le_bytes(buf[pos..pos + 4].try_into().unwrap());
        pos += 4;
        let m = rd_u64(&buf, &mut pos)?;
        let mut uids = Vec::new();
        for _ in 0..m {
            let l = rd_u64(&buf, &mut pos)? as usize;
            if pos + l > buf.len() {
                return Err("eof".into());
            }
            uids.push(String::from_utf8_lossy(&buf[pos..pos + l]).to_string());
            pos += l;
        }
        out.push(snel_db::engine::core::SegmentEntry { id, uids });
    }
    Ok(out)
}

/// WAL dir projection: { "wal-00000.log": [k values or raw lines], ... }
pub fn wal_dir(dir: &Path) -> Value {
    let mut m = Map::new();
    if let Ok(rd) = std::fs::read_dir(dir) {
        let mut es: Vec<_> = rd.flatten().collect();
        es.sort_by_key(|e| e.file_name());
        for e in es {
            let name = e.file_name().to_string_lossy().to_string();
            if e.path().is_file() {
                let content = std::fs::read_to_string(e.path()).unwrap_or_default();
                let mut ks = Vec::new();
                for line in content.lines() {
                    match serde_json::from_str::<Value>(line) {
                        Ok(v) => ks.push(v.get("payload").and_then(|p| p.get("k")).cloned().unwrap_or(Value::Null)),
                        Err(_) => ks.push(Value::String(format!("TORN:{line}"))),
                    }
                }
                m.insert(name, Value::Array(ks));
            } else {
                m.insert(format!("{name}/"), Value::Null);
            }
        }
    }
    Value::Object(m)
}
