//! vparse <job.json>: parse (and optionally dispatch) a batch of input strings on the real code.
//!
//! job = { "config": {"root": DIR, ...}, "out": FILE, "start": N,
//!         "parse_timeout_ms": 10000, "dispatch_timeout_ms": 30000, "stack_kb": 2048,
//!         "dispatch": bool, "auth": bool, "user": "bypass" | null,
//!         "setup": ["DEFINE ...", "STORE ...", "FLUSH", ...],
//!         "inputs": [ {"id": X, "text": "...", "json": false}, ... ] }
//!
//! One NDJSON line per input (flushed), in input order, starting at index `start`:
//!   {"idx": i, "id": X, "outcome": "ok"|"err"|"panic"|"timeout", "command": <serde_json of Command>,
//!    "error": "...", "panic": "msg @ file:line", "us": parse micro-seconds,
//!    "dispatch": {"outcome": "response"|"empty"|"panic"|"timeout"|"io_error", "status": n, "bytes": n,
//!                 "task_panics": ["msg @ file:line", ...]}}
//!
//! Every parse runs on its own thread (stack = the size of a tokio worker stack, where the TCP / HTTP
//! front ends call parse_command) under catch_unwind, with a watchdog: on a time-out the line is written
//! and the process exits with code 3 (the thread cannot be cancelled); a stack overflow kills the process
//! (the runner sees no line for that input) - in both cases the runner restarts at idx+1.

use serde_json::{json, Value};
use snel_db::command::dispatcher::dispatch_command;
use snel_db::command::parser::command::parse_command;
use snel_db::command::types::Command;
use snel_db::frontend::http::json_command::JsonCommand;
use snel_db::shared::response::JsonRenderer;
use std::io::Write;
use std::path::PathBuf;
use std::sync::{mpsc, Arc, Mutex};
use std::time::{Duration, Instant};
use vharness::engine::Engine;
use vharness::resp::decode_json_stream;
use vharness::{install_config, read_json};

static PANICS: Mutex<Vec<String>> = Mutex::new(Vec::new());

fn drain_panics() -> Vec<String> {
    let mut g = PANICS.lock().unwrap_or_else(|e| e.into_inner());
    std::mem::take(&mut *g)
}

fn emit(out: &mut std::fs::File, v: Value) {
    let mut s = serde_json::to_string(&v).unwrap();
    s.push('\n');
    out.write_all(s.as_bytes()).unwrap();
    out.flush().unwrap();
}

fn variant_name(c: &Command) -> &'static str {
    match c {
        Command::Define { .. } => "Define",
        Command::Store { .. } => "Store",
        Command::Query { .. } => "Query",
        Command::RememberQuery { .. } => "RememberQuery",
        Command::ShowMaterialized { .. } => "ShowMaterialized",
        Command::Replay { .. } => "Replay",
        Command::Ping => "Ping",
        Command::Flush => "Flush",
        Command::Batch(_) => "Batch",
        Command::Compare { .. } => "Compare",
        Command::CreateUser { .. } => "CreateUser",
        Command::RevokeKey { .. } => "RevokeKey",
        Command::ListUsers => "ListUsers",
        Command::GrantPermission { .. } => "GrantPermission",
        Command::RevokePermission { .. } => "RevokePermission",
        Command::ShowPermissions { .. } => "ShowPermissions",
    }
}

enum Parsed {
    Ok(Command),
    Err(String),
    Panic,
}

fn parse_one(text: String, as_json: bool, stack_kb: usize, timeout: Duration) -> Option<(Parsed, u128)> {
    let (tx, rx) = mpsc::channel();
    let b = std::thread::Builder::new().stack_size(stack_kb * 1024).name("vparse-worker".into());
    let h = b
        .spawn(move || {
            let t0 = Instant::now();
            let r = std::panic::catch_unwind(move || {
                if as_json {
                    match serde_json::from_str::<JsonCommand>(&text) {
                        Ok(j) => Ok(Command::from(j)),
                        Err(e) => Err(format!("json: {e}")),
                    }
                } else {
                    parse_command(&text).map_err(|e| format!("{e:?}"))
                }
            });
            let us = t0.elapsed().as_micros();
            let p = match r {
                Ok(Ok(c)) => Parsed::Ok(c),
                Ok(Err(e)) => Parsed::Err(e),
                Err(_) => Parsed::Panic,
            };
            let _ = tx.send((p, us));
        })
        .expect("spawn parse thread");
    match rx.recv_timeout(timeout) {
        Ok(r) => {
            let _ = h.join();
            Some(r)
        }
        Err(_) => None,
    }
}

fn main() {
    let path = std::env::args().nth(1).expect("usage: vparse job.json");
    let job = read_json(&PathBuf::from(&path));
    let _root = install_config(&job["config"]);
    std::panic::set_hook(Box::new(|info| {
        let loc = info.location().map(|l| format!("{}:{}", l.file(), l.line())).unwrap_or_default();
        let msg = if let Some(s) = info.payload().downcast_ref::<&str>() {
            s.to_string()
        } else if let Some(s) = info.payload().downcast_ref::<String>() {
            s.clone()
        } else {
            "<non-string panic>".to_string()
        };
        let mut m: String = msg.chars().take(300).collect();
        m.push_str(" @ ");
        m.push_str(&loc);
        if let Ok(mut g) = PANICS.lock() {
            g.push(m);
        }
    }));
    let rt = tokio::runtime::Builder::new_multi_thread().worker_threads(4).enable_all().build().unwrap();
    let code = rt.block_on(run(job));
    std::process::exit(code);
}

async fn dispatch_one(eng: &Arc<Engine>, cmd: Command, user: Option<String>, timeout: Duration) -> Value {
    let e2 = Arc::clone(eng);
    let h = tokio::spawn(async move {
        let mut out: Vec<u8> = Vec::new();
        let r = dispatch_command(&cmd, &mut out, &e2.sm, &e2.registry, e2.auth.as_ref(), user.as_deref(), &JsonRenderer).await;
        (r.map_err(|e| e.to_string()), out)
    });
    let res = tokio::time::timeout(timeout, h).await;
    // let detached tasks of the dispatch (stream forwarders) finish and report their panics
    tokio::task::yield_now().await;
    match res {
        Err(_) => json!({"outcome": "timeout", "task_panics": drain_panics()}),
        Ok(Err(je)) => json!({"outcome": "panic", "detail": format!("{je}"), "task_panics": drain_panics()}),
        Ok(Ok((Err(e), out))) => json!({"outcome": "io_error", "detail": e, "bytes": out.len(), "task_panics": drain_panics()}),
        Ok(Ok((Ok(()), out))) => {
            let d = decode_json_stream(&out);
            let oc = if out.is_empty() { "empty" } else if !d.malformed.is_empty() { "malformed" } else { "response" };
            json!({"outcome": oc, "status": d.status, "bytes": out.len(), "rows": d.rows.len(),
                   "message": d.message.chars().take(160).collect::<String>(), "task_panics": drain_panics()})
        }
    }
}

async fn run(job: Value) -> i32 {
    let out_path = job["out"].as_str().expect("job.out").to_string();
    let mut out = std::fs::OpenOptions::new().create(true).append(true).open(&out_path).unwrap();
    let start = job.get("start").and_then(|s| s.as_u64()).unwrap_or(0) as usize;
    let ptimeout = Duration::from_millis(job.get("parse_timeout_ms").and_then(|s| s.as_u64()).unwrap_or(10000));
    let dtimeout = Duration::from_millis(job.get("dispatch_timeout_ms").and_then(|s| s.as_u64()).unwrap_or(30000));
    let stack_kb = job.get("stack_kb").and_then(|s| s.as_u64()).unwrap_or(2048) as usize;
    let do_dispatch = job.get("dispatch").and_then(|s| s.as_bool()).unwrap_or(false);
    let with_auth = job.get("auth").and_then(|s| s.as_bool()).unwrap_or(false);
    let user = job.get("user").and_then(|s| s.as_str()).map(|s| s.to_string());
    let eng = if do_dispatch { Some(Arc::new(Engine::open(with_auth).await)) } else { None };
    if let Some(e) = &eng {
        if start == 0 {
            for (i, s) in job["setup"].as_array().cloned().unwrap_or_default().iter().enumerate() {
                let text = s.as_str().unwrap_or("");
                match parse_command(text) {
                    Ok(cmd) => {
                        let d = dispatch_one(e, cmd, user.clone(), dtimeout).await;
                        emit(&mut out, json!({"setup": i, "text": text, "dispatch": d}));
                    }
                    Err(err) => emit(&mut out, json!({"setup": i, "text": text, "error": format!("{err:?}")})),
                }
            }
            let errs = e.sm.wait_for_flush_completion().await;
            emit(&mut out, json!({"setup": "flush_wait", "errors": errs.len()}));
        }
    }
    let inputs = job["inputs"].as_array().cloned().unwrap_or_default();
    for (i, inp) in inputs.iter().enumerate().skip(start) {
        let text = inp["text"].as_str().unwrap_or("").to_string();
        let as_json = inp.get("json").and_then(|j| j.as_bool()).unwrap_or(false);
        let _ = drain_panics();
        let mut o = json!({"idx": i, "id": inp["id"].clone()});
        match parse_one(text, as_json, stack_kb, ptimeout) {
            None => {
                o["outcome"] = json!("timeout");
                emit(&mut out, o);
                return 3;
            }
            Some((p, us)) => {
                o["us"] = json!(us as u64);
                match p {
                    Parsed::Panic => {
                        o["outcome"] = json!("panic");
                        o["panic"] = json!(drain_panics().join(" | "));
                    }
                    Parsed::Err(e) => {
                        o["outcome"] = json!("err");
                        o["error"] = json!(e.chars().take(300).collect::<String>());
                    }
                    Parsed::Ok(cmd) => {
                        o["outcome"] = json!("ok");
                        // "want_command": false => only the variant name (deeply nested trees, bulk totality runs)
                        if inp.get("want_command").and_then(|d| d.as_bool()).unwrap_or(true) {
                            o["command"] = serde_json::to_value(&cmd).unwrap_or(json!({"unserialisable": true}));
                        } else {
                            o["command_kind"] = json!(variant_name(&cmd));
                        }
                        if let Some(e) = &eng {
                            if inp.get("dispatch").and_then(|d| d.as_bool()).unwrap_or(true) {
                                o["dispatch"] = dispatch_one(e, cmd, user.clone(), dtimeout).await;
                            }
                        }
                    }
                }
                emit(&mut out, o);
            }
        }
    }
    emit(&mut out, json!({"done": inputs.len()}));
    0
}
