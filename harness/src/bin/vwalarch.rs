//! vwalarch <job.json>: WAL archive / cleaner driver for C19.
//!
//! job = {"config": {...install_config keys, wal_conservative: true, archive_dir: DIR}, "mode": "direct"|"engine",
//!        "in": NDJSON file with one behaviour per line, "out": NDJSON observations}
//!
//! direct mode: every behaviour starts from empty WAL / archive directories (same process, same CONFIG) and is a
//! list of steps
//!   {"op":"addlog","log":N,"lines":[{"s":text}|{"b64":bytes}],"final_newline":bool,"where":"cfg"|"other"}
//!   {"op":"addlog_writer","log":N,"entries":[WalEntry json],"where":...}       (real InnerWalWriter)
//!   {"op":"fault","dir":"ok|noShard|noRoot|rootFile|shardFile","block":[{"name":..,"kind":"dir|devfull|dangling"}],
//!    "unblock":[name],"pre":[{"name":..,"kind":"garbage|valid","log":N,"start":S,"end":E,"entries":[...]}]}
//!   {"op":"cleanup","keep_from":K,"via":"new"|"with_wal_dir"|"other_dir"}
//! engine mode: one behaviour = one engine lifetime; steps
//!   {"op":"define","text":"DEFINE ..."}
//!   {"op":"round","stores":[{"text":"STORE ...","clock":secs}],"log":R,"fault":{...as above...}|null}
//!     the flush worker is parked before the WAL cleaner runs (hook flush.passive_cleared), the closed log R is
//!     read, the fault is applied, the cleaner runs through the real flush path (cleanup_up_to(segment+1)).
//! One observation line per step: listing of the WAL directory, listing + per-file decode of the archive directory,
//! result of WalArchiveRecovery::recover_all.

use serde_json::{json, Value};
use snel_db::engine::core::{
    InnerWalWriter, WalArchive, WalArchiveBody, WalArchiveHeader, WalArchiveRecovery, WalCleaner, WalEntry,
};
use std::io::Write;
use std::path::{Path, PathBuf};
use std::sync::Arc;
use vharness::engine::{CmdOutcome, Engine};
use vharness::{install_config, read_json};

struct Dirs {
    shard: usize,      // shard id the cleaner / archiver / recovery are built for
    wal: PathBuf,      // CONFIG.wal.dir/shard-<id>
    other: PathBuf,    // a WAL directory that is NOT the configured one
    aroot: PathBuf,    // CONFIG.wal.archive_dir
    ashard: PathBuf,   // aroot/shard-0
    stash: PathBuf,    // where the real shard archive dir is parked while a file sits in its place
}

fn b64dec(s: &str) -> Vec<u8> {
    // minimal base64 decoder (standard alphabet, padding optional)
    let mut out = Vec::new();
    let mut buf = 0u32;
    let mut bits = 0;
    for c in s.bytes() {
        let v = match c {
            b'A'..=b'Z' => c - b'A',
            b'a'..=b'z' => c - b'a' + 26,
            b'0'..=b'9' => c - b'0' + 52,
            b'+' => 62,
            b'/' => 63,
            _ => continue,
        } as u32;
        buf = (buf << 6) | v;
        bits += 6;
        if bits >= 8 {
            bits -= 8;
            out.push(((buf >> bits) & 0xff) as u8);
        }
    }
    out
}

fn rm_any(p: &Path) {
    match std::fs::symlink_metadata(p) {
        Ok(m) if m.file_type().is_dir() => {
            let _ = std::fs::remove_dir_all(p);
        }
        Ok(_) => {
            let _ = std::fs::remove_file(p);
        }
        Err(_) => {}
    }
}

fn is_real_dir(p: &Path) -> bool {
    std::fs::symlink_metadata(p).map(|m| m.file_type().is_dir()).unwrap_or(false)
}

/// bring the archive location back to "a listable shard directory" (restoring a stashed one)
fn dir_to_ok(d: &Dirs) {
    if !is_real_dir(&d.aroot) {
        rm_any(&d.aroot);
    }
    std::fs::create_dir_all(&d.aroot).unwrap();
    if !is_real_dir(&d.ashard) {
        rm_any(&d.ashard);
        if is_real_dir(&d.stash) {
            std::fs::rename(&d.stash, &d.ashard).unwrap();
        } else {
            std::fs::create_dir_all(&d.ashard).unwrap();
        }
    }
}

fn set_dir(d: &Dirs, target: &str) {
    match target {
        "ok" => {}
        "shardFile" => {
            std::fs::rename(&d.ashard, &d.stash).unwrap();
            std::fs::write(&d.ashard, b"i am a regular file\n").unwrap();
        }
        "rootFile" => {
            std::fs::rename(&d.ashard, &d.stash).unwrap();
            std::fs::remove_dir(&d.aroot).unwrap();
            std::fs::write(&d.aroot, b"i am a regular file\n").unwrap();
        }
        "noShard" => {
            std::fs::remove_dir(&d.ashard).expect("noShard needs an empty archive directory");
        }
        "noRoot" => {
            std::fs::remove_dir(&d.ashard).expect("noRoot needs an empty archive directory");
            std::fs::remove_dir(&d.aroot).unwrap();
        }
        other => panic!("unknown dir state {other}"),
    }
}

fn entries_from(v: &Value) -> Vec<WalEntry> {
    v.as_array()
        .map(|a| a.iter().map(|e| serde_json::from_value::<WalEntry>(e.clone()).expect("entry json")).collect())
        .unwrap_or_default()
}

fn apply_fault(d: &Dirs, f: &Value) {
    dir_to_ok(d);
    for n in f["unblock"].as_array().cloned().unwrap_or_default() {
        rm_any(&d.ashard.join(n.as_str().unwrap()));
    }
    for b in f["block"].as_array().cloned().unwrap_or_default() {
        let p = d.ashard.join(b["name"].as_str().unwrap());
        rm_any(&p);
        match b["kind"].as_str().unwrap_or("dir") {
            "dir" => std::fs::create_dir_all(&p).unwrap(),
            "devfull" => std::os::unix::fs::symlink("/dev/full", &p).unwrap(),
            "dangling" => std::os::unix::fs::symlink(d.ashard.join("no-such-dir").join("x"), &p).unwrap(),
            k => panic!("unknown block kind {k}"),
        }
    }
    for pre in f["pre"].as_array().cloned().unwrap_or_default() {
        let p = d.ashard.join(pre["name"].as_str().unwrap());
        match pre["kind"].as_str().unwrap() {
            "garbage" => {
                // not a zstd stream, and longer than any archive this harness produces
                let mut g = Vec::new();
                for i in 0..6000u32 {
                    g.push((i.wrapping_mul(2654435761) >> 13) as u8);
                }
                std::fs::write(&p, g).unwrap();
            }
            "valid" => {
                let es = entries_from(&pre["entries"]);
                let a = WalArchive {
                    header: WalArchiveHeader::new(
                        d.shard,
                        pre["log"].as_u64().unwrap(),
                        es.len() as u64,
                        pre["start"].as_u64().unwrap(),
                        pre["end"].as_u64().unwrap(),
                        "zstd".to_string(),
                        3,
                    ),
                    body: WalArchiveBody::new(es),
                };
                std::fs::write(&p, a.to_compressed_bytes().unwrap()).unwrap();
            }
            k => panic!("unknown pre kind {k}"),
        }
    }
    set_dir(d, f["dir"].as_str().unwrap_or("ok"));
}

fn list_wal(dir: &Path) -> Value {
    match std::fs::read_dir(dir) {
        Ok(rd) => {
            let mut v: Vec<String> = rd.flatten().map(|e| e.file_name().to_string_lossy().to_string()).collect();
            v.sort();
            json!(v)
        }
        Err(_) => Value::Null,
    }
}

fn read_lines_lossy(p: &Path) -> Value {
    match std::fs::read(p) {
        Ok(b) => {
            let s = String::from_utf8_lossy(&b).to_string();
            let ends_nl = s.ends_with('\n');
            let v: Vec<&str> = s.split('\n').collect();
            let mut v: Vec<String> = v.into_iter().map(|x| x.to_string()).collect();
            if ends_nl {
                v.pop();
            }
            json!(v)
        }
        Err(_) => Value::Null,
    }
}

fn observe(d: &Dirs, use_other: bool) -> Value {
    let mut o = json!({"wal": list_wal(&d.wal)});
    if use_other {
        o["wal_other"] = list_wal(&d.other);
    }
    let rec = WalArchiveRecovery::new(d.shard, d.ashard.clone());
    let mut arch = Vec::new();
    let mut devfull = false;
    let _listed = match std::fs::read_dir(&d.ashard) {
        Ok(rd) => {
            let mut es: Vec<_> = rd.flatten().collect();
            es.sort_by_key(|e| e.file_name());
            for e in es {
                let name = e.file_name().to_string_lossy().to_string();
                let md = std::fs::symlink_metadata(e.path()).unwrap();
                let kind = if md.file_type().is_symlink() {
                    if std::fs::read_link(e.path()).map(|t| t == Path::new("/dev/full")).unwrap_or(false) {
                        devfull = true;
                    }
                    "symlink"
                } else if md.file_type().is_dir() {
                    "dir"
                } else {
                    "file"
                };
                let mut a = json!({"name": name, "kind": kind});
                if kind == "file" {
                    let p = e.path();
                    let r = std::panic::catch_unwind(std::panic::AssertUnwindSafe(|| {
                        (rec.recover_from_archive(&p), rec.get_archive_info(&p))
                    }));
                    match r {
                        Ok((Ok(es), Ok(info))) => {
                            a["decoded"] = json!({"log_id": info.log_id, "entry_count": info.entry_count,
                                "start": info.start_timestamp, "end": info.end_timestamp, "shard": info.shard_id,
                                "entries": es.iter().map(|x| serde_json::to_value(x).unwrap()).collect::<Vec<_>>()});
                        }
                        Ok((Err(e), _)) | Ok((_, Err(e))) => {
                            a["decoded"] = Value::Null;
                            a["err"] = json!(e.to_string());
                        }
                        Err(_) => {
                            a["decoded"] = Value::Null;
                            a["err"] = json!("panic");
                        }
                    }
                }
                arch.push(a);
            }
            true
        }
        Err(e) => e.kind() == std::io::ErrorKind::NotFound,
    };
    // "missing" is listable (no archives); a regular file in place of the directory (or of its parent) is not
    let nondir = |p: &Path| std::fs::symlink_metadata(p).map(|m| !m.file_type().is_dir()).unwrap_or(false);
    o["arch_vis"] = json!(!(nondir(&d.ashard) || nondir(&d.aroot)));
    o["arch"] = json!(arch);
    o["rec"] = if devfull {
        json!({"skipped": "a /dev/full symlink is in the archive directory"})
    } else {
        match std::panic::catch_unwind(std::panic::AssertUnwindSafe(|| rec.recover_all())) {
            Ok(Ok(es)) => json!({"ok": es.iter().map(|x| serde_json::to_value(x).unwrap()).collect::<Vec<_>>()}),
            Ok(Err(e)) => json!({"err": e.to_string()}),
            Err(_) => json!({"panic": true}),
        }
    };
    o
}

fn emit(out: &mut std::fs::File, v: Value) {
    let mut s = serde_json::to_string(&v).unwrap();
    s.push('\n');
    out.write_all(s.as_bytes()).unwrap();
}

fn wal_target<'a>(d: &'a Dirs, st: &Value) -> &'a Path {
    if st.get("where").and_then(|w| w.as_str()) == Some("other") {
        &d.other
    } else {
        &d.wal
    }
}

fn run_direct(d: &Dirs, beh: &Value, out: &mut std::fs::File) {
    let id = beh["beh"].clone();
    for p in [&d.wal, &d.other, &d.aroot, &d.stash] {
        rm_any(p);
    }
    std::fs::create_dir_all(&d.wal).unwrap();
    std::fs::create_dir_all(&d.ashard).unwrap();
    let use_other = beh.get("use_other").and_then(|b| b.as_bool()).unwrap_or(false);
    if use_other {
        std::fs::create_dir_all(&d.other).unwrap();
    }
    for (i, st) in beh["steps"].as_array().unwrap().iter().enumerate() {
        let op = st["op"].as_str().unwrap_or("");
        let mut extra = json!({});
        match op {
            "addlog" => {
                let p = wal_target(d, st).join(format!("wal-{:05}.log", st["log"].as_u64().unwrap()));
                let mut bytes = Vec::new();
                let lines = st["lines"].as_array().unwrap();
                for (j, l) in lines.iter().enumerate() {
                    if let Some(s) = l.get("s").and_then(|s| s.as_str()) {
                        bytes.extend_from_slice(s.as_bytes());
                    } else {
                        bytes.extend_from_slice(&b64dec(l["b64"].as_str().unwrap()));
                    }
                    if j + 1 < lines.len() || st["final_newline"].as_bool().unwrap_or(true) {
                        bytes.push(b'\n');
                    }
                }
                std::fs::write(&p, bytes).unwrap();
            }
            "addlog_writer" => {
                let dir = wal_target(d, st).to_path_buf();
                let mut w = InnerWalWriter::new(dir.clone()).unwrap();
                w.current_log_id = st["log"].as_u64().unwrap();
                w.start_next_log_file().unwrap();
                for e in entries_from(&st["entries"]) {
                    w.append_immediate(&e).unwrap();
                }
                w.flush_and_close().unwrap();
                extra["written_lines"] =
                    read_lines_lossy(&dir.join(format!("wal-{:05}.log", st["log"].as_u64().unwrap())));
            }
            "fault" => apply_fault(d, st),
            "cleanup" => {
                let kf = st["keep_from"].as_u64().unwrap();
                let via = st["via"].as_str().unwrap_or("new");
                let wal = d.wal.clone();
                let other = d.other.clone();
                let shard = d.shard;
                let r = std::panic::catch_unwind(std::panic::AssertUnwindSafe(|| {
                    let c = match via {
                        "new" => WalCleaner::new(shard),
                        "with_wal_dir" => WalCleaner::with_wal_dir(shard, wal),
                        "other_dir" => WalCleaner::with_wal_dir(shard, other),
                        v => panic!("unknown via {v}"),
                    };
                    c.cleanup_up_to(kf);
                }));
                if r.is_err() {
                    extra["panic"] = json!(true);
                }
            }
            _ => {
                extra["error"] = json!("unknown op");
            }
        }
        let mut o = observe(d, use_other);
        o["beh"] = id.clone();
        o["i"] = json!(i);
        o["op"] = json!(op);
        for (k, v) in extra.as_object().unwrap() {
            o[k] = v.clone();
        }
        emit(out, o);
    }
}

async fn run_engine(d: Arc<Dirs>, beh: Value, out: &mut std::fs::File) -> Result<(), String> {
    let id = beh["beh"].clone();
    let eng = Arc::new(Engine::open(false).await);
    // a fresh archive location in the "ok" state
    std::fs::create_dir_all(&d.ashard).unwrap();
    for (i, st) in beh["steps"].as_array().unwrap().iter().enumerate() {
        let op = st["op"].as_str().unwrap_or("");
        match op {
            "define" => {
                let r = eng.cmd(st["text"].as_str().unwrap()).await;
                let ok = matches!(&r, CmdOutcome::Response(dv) if dv.to_json()["status"].as_u64() == Some(200));
                let mut o = observe(&d, false);
                o["beh"] = id.clone();
                o["i"] = json!(i);
                o["op"] = json!("define");
                o["ok"] = json!(ok);
                emit(out, o);
                if !ok {
                    return Err(format!("DEFINE failed: {r:?}"));
                }
            }
            "round" => {
                let log = st["log"].as_u64().unwrap();
                snel_db::verif::park_at("flush.passive_cleared");
                let mut statuses = Vec::new();
                for s in st["stores"].as_array().unwrap() {
                    if let Some(c) = s.get("clock").and_then(|c| c.as_u64()) {
                        snel_db::verif::set_clock_secs(Some(c));
                    }
                    let r = eng.cmd(s["text"].as_str().unwrap()).await;
                    statuses.push(match r {
                        CmdOutcome::Response(dv) => dv.to_json()["status"].clone(),
                        other => json!(format!("{other:?}")),
                    });
                }
                let parked = tokio::task::spawn_blocking(|| snel_db::verif::wait_parked("flush.passive_cleared", 30000))
                    .await
                    .unwrap();
                if !parked {
                    snel_db::verif::release("flush.passive_cleared");
                    return Err(format!("flush of round {log} never reached flush.passive_cleared (statuses {statuses:?})"));
                }
                // the WAL task is asynchronous: wait until it has rotated away from log `log`
                let next = d.wal.join(format!("wal-{:05}.log", log + 1));
                let cur = d.wal.join(format!("wal-{:05}.log", log));
                let want = st["stores"].as_array().unwrap().len();
                let mut rotated = false;
                for _ in 0..2000 {
                    let n = read_lines_lossy(&cur).as_array().map(|a| a.len()).unwrap_or(0);
                    if next.exists() && n >= want {
                        rotated = true;
                        break;
                    }
                    tokio::time::sleep(std::time::Duration::from_millis(5)).await;
                }
                let mut o = observe(&d, false);
                o["beh"] = id.clone();
                o["i"] = json!(i);
                o["op"] = json!("round.addlog");
                o["log"] = json!(log);
                o["rotated"] = json!(rotated);
                o["statuses"] = json!(statuses);
                o["written_lines"] = read_lines_lossy(&cur);
                emit(out, o);
                if !rotated {
                    snel_db::verif::release("flush.passive_cleared");
                    return Err(format!("WAL log {log} was not closed while the flush was parked"));
                }
                if let Some(f) = st.get("fault").filter(|f| !f.is_null()) {
                    apply_fault(&d, f);
                }
                let mut o = observe(&d, false);
                o["beh"] = id.clone();
                o["i"] = json!(i);
                o["op"] = json!("round.fault");
                emit(out, o);
                snel_db::verif::park_at("flush.wal_cleaned");
                snel_db::verif::release("flush.passive_cleared");
                let cleaned = tokio::task::spawn_blocking(|| snel_db::verif::wait_parked("flush.wal_cleaned", 30000))
                    .await
                    .unwrap();
                let mut o = observe(&d, false);
                o["beh"] = id.clone();
                o["i"] = json!(i);
                o["op"] = json!("round.cleanup");
                o["keep_from"] = json!(log + 1);
                o["cleaned"] = json!(cleaned);
                emit(out, o);
                snel_db::verif::release("flush.wal_cleaned");
                if !cleaned {
                    return Err(format!("flush of round {log} never reached flush.wal_cleaned"));
                }
                let _ = eng.sm.wait_for_flush_completion().await;
            }
            _ => {}
        }
    }
    Ok(())
}

fn main() {
    let path = std::env::args().nth(1).expect("usage: vwalarch job.json");
    let job = read_json(&PathBuf::from(&path));
    let root = install_config(&job["config"]);
    let aroot = PathBuf::from(
        job["config"].get("archive_dir").and_then(|v| v.as_str()).map(|s| s.to_string())
            .unwrap_or_else(|| format!("{}/wal/archived/", root.display())),
    );
    let shard = job.get("shard").and_then(|s| s.as_u64()).unwrap_or(0) as usize;
    let d = Dirs {
        shard,
        wal: root.join("wal").join(format!("shard-{shard}")),
        other: root.join("wal-elsewhere").join(format!("shard-{shard}")),
        ashard: aroot.join(format!("shard-{shard}")),
        aroot,
        stash: root.join("stash-shard"),
    };
    if std::env::var("VERIF_SHOW_PANICS").is_err() {
        std::panic::set_hook(Box::new(|_| {}));
    }
    let mut out = std::fs::OpenOptions::new().create(true).append(true).open(job["out"].as_str().unwrap()).unwrap();
    let input = std::fs::read_to_string(job["in"].as_str().unwrap()).unwrap();
    let mode = job["mode"].as_str().unwrap_or("direct");
    let mut code = 0;
    if mode == "direct" {
        assert!(snel_db::shared::config::CONFIG.wal.conservative_mode, "conservative mode must be on");
        for line in input.lines() {
            if line.trim().is_empty() {
                continue;
            }
            let beh: Value = serde_json::from_str(line).unwrap();
            run_direct(&d, &beh, &mut out);
        }
    } else {
        let rt = tokio::runtime::Builder::new_multi_thread().worker_threads(4).enable_all().build().unwrap();
        let d = Arc::new(d);
        for line in input.lines() {
            if line.trim().is_empty() {
                continue;
            }
            let beh: Value = serde_json::from_str(line).unwrap();
            let id = beh["beh"].clone();
            if let Err(e) = rt.block_on(run_engine(Arc::clone(&d), beh, &mut out)) {
                emit(&mut out, json!({"beh": id, "i": -1, "op": "harness_error", "error": e}));
                code = 4;
            }
            break; // one engine lifetime per process
        }
    }
    out.flush().unwrap();
    std::process::exit(code);
}
