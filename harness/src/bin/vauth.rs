//! vauth <script.json>: one server lifetime with the real front ends (TCP, HTTP, WebSocket, Unix
//! socket) started in-process on loopback addresses taken from the generated config
//! (`bypass_auth = false`, bootstrap admin from the config). Speaks the real wire formats:
//! `AUTH u:sig`, `sig:cmd`, `u:sig:cmd`, `cmd TOKEN t`, `X-Auth-User` / `X-Auth-Signature`,
//! `/json-command`; HMAC-SHA256 is computed here. One JSON observation line per step in
//! script.out: status, decoded response head, response class
//! (Unauthenticated | Forbidden | Executed | OtherError | NoResponse), the event types whose
//! seed data occurs in the response (`seen`), and the side effect looked up in-process
//! (event visible to the admin, user / schema / permission / materialisation present).
//!
//! exit codes: 0 ok, 5 a listener could not be bound (caller retries with other ports), 6 the
//! servers did not come up.

use hmac::{Hmac, Mac};
use serde_json::{json, Value};
use sha2::Sha256;
use snel_db::command::dispatcher::dispatch_command;
use snel_db::command::parser::command::parse_command;
use snel_db::frontend::context::FrontendContext;
use snel_db::shared::response::JsonRenderer;
use std::collections::HashMap;
use std::io::Write;
use std::path::PathBuf;
use std::sync::Arc;
use std::time::{Duration, Instant};
use tokio::io::{AsyncBufReadExt, AsyncRead, AsyncReadExt, AsyncWrite, AsyncWriteExt, BufReader};
use tokio::net::{TcpStream, UnixStream};
use vharness::{install_config, read_json};

type HmacSha256 = Hmac<Sha256>;

fn sign(key: &str, msg: &str) -> String {
    let mut mac = HmacSha256::new_from_slice(key.as_bytes()).expect("hmac key");
    mac.update(msg.as_bytes());
    hex::encode(mac.finalize().into_bytes())
}

fn tweak_sig(sig: String, tweak: &str) -> String {
    match tweak {
        "truncate" => sig[..sig.len() - 1].to_string(),
        "extend" => format!("{sig}0"),
        "upper" => sig.to_uppercase(),
        "empty" => String::new(),
        "flip" => {
            // change the last hex digit
            let mut b = sig.into_bytes();
            let l = b.len() - 1;
            b[l] = if b[l] == b'0' { b'1' } else { b'0' };
            String::from_utf8(b).unwrap()
        }
        _ => sig,
    }
}

fn s<'a>(v: &'a Value, k: &str) -> &'a str {
    v.get(k).and_then(|x| x.as_str()).unwrap_or("")
}

fn emit(out: &mut std::fs::File, v: Value) {
    let mut t = serde_json::to_string(&v).unwrap();
    t.push('\n');
    out.write_all(t.as_bytes()).unwrap();
    out.flush().unwrap();
}

// ----------------------------------------------------------------------------- transports

trait Stream: AsyncRead + AsyncWrite + Unpin + Send {}
impl<T: AsyncRead + AsyncWrite + Unpin + Send> Stream for T {}

/// What came back for one request.
#[derive(Debug, Clone, Default)]
struct Raw {
    /// "response" | "closed" (EOF without a byte) | "timeout" | "noresponse" (WebSocket: nothing
    /// arrived although a later sentinel was answered) | "connect_error"
    outcome: String,
    http_status: Option<u16>,
    body: Vec<u8>,
    /// response of the AUTH line that preceded the request on the same fresh connection
    auth_line: Option<String>,
    late: bool,
}

const IO_TIMEOUT: Duration = Duration::from_secs(20);

async fn read_to_eof<S: AsyncRead + Unpin>(st: &mut S) -> (Vec<u8>, bool) {
    let mut buf = Vec::new();
    match tokio::time::timeout(IO_TIMEOUT, st.read_to_end(&mut buf)).await {
        Ok(_) => (buf, false),
        Err(_) => (buf, true),
    }
}

/// Fresh line-protocol connection: write all lines, half-close, read to EOF.
async fn line_oneshot(mut st: Box<dyn Stream>, lines: &[String]) -> (Vec<u8>, bool) {
    let mut payload = String::new();
    for l in lines {
        payload.push_str(l);
        payload.push('\n');
    }
    if st.write_all(payload.as_bytes()).await.is_err() {
        return (Vec::new(), false);
    }
    let _ = st.flush().await;
    let _ = st.shutdown().await;
    read_to_eof(&mut st).await
}

async fn http_post(addr: &str, path: &str, headers: &[(String, String)], body: &str) -> Raw {
    let mut st = match TcpStream::connect(addr).await {
        Ok(s) => s,
        Err(_) => return Raw { outcome: "connect_error".into(), ..Default::default() },
    };
    let mut req = format!("POST {path} HTTP/1.1\r\nHost: verif.invalid\r\nConnection: close\r\nContent-Length: {}\r\n", body.len());
    for (k, v) in headers {
        req.push_str(&format!("{k}: {v}\r\n"));
    }
    req.push_str("\r\n");
    req.push_str(body);
    if st.write_all(req.as_bytes()).await.is_err() {
        return Raw { outcome: "closed".into(), ..Default::default() };
    }
    let (buf, timed_out) = read_to_eof(&mut st).await;
    if timed_out {
        return Raw { outcome: "timeout".into(), body: buf, ..Default::default() };
    }
    if buf.is_empty() {
        return Raw { outcome: "closed".into(), ..Default::default() };
    }
    // status line + headers + body (hyper sends Content-Length bodies; tolerate chunked)
    let split = buf.windows(4).position(|w| w == b"\r\n\r\n");
    let (head, mut body) = match split {
        Some(p) => (String::from_utf8_lossy(&buf[..p]).to_string(), buf[p + 4..].to_vec()),
        None => (String::from_utf8_lossy(&buf).to_string(), Vec::new()),
    };
    let status = head.split_whitespace().nth(1).and_then(|c| c.parse::<u16>().ok());
    if head.to_ascii_lowercase().contains("transfer-encoding: chunked") {
        body = dechunk(&body);
    }
    Raw { outcome: "response".into(), http_status: status, body, ..Default::default() }
}

fn dechunk(b: &[u8]) -> Vec<u8> {
    let mut out = Vec::new();
    let mut i = 0;
    while i < b.len() {
        let Some(e) = b[i..].windows(2).position(|w| w == b"\r\n") else { break };
        let n = usize::from_str_radix(String::from_utf8_lossy(&b[i..i + e]).trim(), 16).unwrap_or(0);
        i += e + 2;
        if n == 0 || i + n > b.len() {
            break;
        }
        out.extend_from_slice(&b[i..i + n]);
        i += n + 2;
    }
    out
}

// minimal WebSocket client (text frames only)
struct Ws {
    st: BufReader<TcpStream>,
    buf: Vec<u8>,
    msg: Vec<u8>,
}

impl Ws {
    async fn connect(addr: &str) -> Option<Ws> {
        let mut st = TcpStream::connect(addr).await.ok()?;
        let req = format!(
            "GET /ws HTTP/1.1\r\nHost: {addr}\r\nUpgrade: websocket\r\nConnection: Upgrade\r\nSec-WebSocket-Key: dGhlIHNhbXBsZSBub25jZQ==\r\nSec-WebSocket-Version: 13\r\n\r\n"
        );
        st.write_all(req.as_bytes()).await.ok()?;
        let mut rd = BufReader::new(st);
        let mut first = String::new();
        tokio::time::timeout(IO_TIMEOUT, rd.read_line(&mut first)).await.ok()?.ok()?;
        if !first.contains("101") {
            return None;
        }
        loop {
            let mut l = String::new();
            let n = tokio::time::timeout(IO_TIMEOUT, rd.read_line(&mut l)).await.ok()?.ok()?;
            if n == 0 || l == "\r\n" {
                break;
            }
        }
        Some(Ws { st: rd, buf: Vec::new(), msg: Vec::new() })
    }

    async fn send_text(&mut self, text: &str) -> bool {
        let p = text.as_bytes();
        let mut f = vec![0x81u8];
        let mask = [0x11u8, 0x22, 0x33, 0x44];
        if p.len() < 126 {
            f.push(0x80 | p.len() as u8);
        } else if p.len() < 65536 {
            f.push(0x80 | 126);
            f.extend_from_slice(&(p.len() as u16).to_be_bytes());
        } else {
            f.push(0x80 | 127);
            f.extend_from_slice(&(p.len() as u64).to_be_bytes());
        }
        f.extend_from_slice(&mask);
        f.extend(p.iter().enumerate().map(|(i, b)| b ^ mask[i % 4]));
        self.st.get_mut().write_all(&f).await.is_ok()
    }

    /// Next text message, None on close / error / timeout.  Cancellation-safe: bytes are
    /// collected in `self.buf` with `read` and frames are cut from the buffer.
    async fn recv_text(&mut self, wait: Duration) -> Option<String> {
        let deadline = tokio::time::Instant::now() + wait;
        loop {
            while let Some((fin, op, payload)) = self.cut_frame() {
                match op {
                    0x1 | 0x0 | 0x2 => {
                        self.msg.extend_from_slice(&payload);
                        if fin {
                            let m = String::from_utf8_lossy(&self.msg).to_string();
                            self.msg.clear();
                            return Some(m);
                        }
                    }
                    0x8 => return None,
                    _ => {} // ping / pong
                }
            }
            let mut chunk = [0u8; 16384];
            match tokio::time::timeout_at(deadline, self.st.read(&mut chunk)).await {
                Ok(Ok(n)) if n > 0 => self.buf.extend_from_slice(&chunk[..n]),
                _ => return None,
            }
        }
    }

    fn cut_frame(&mut self) -> Option<(bool, u8, Vec<u8>)> {
        let b = &self.buf;
        if b.len() < 2 {
            return None;
        }
        let fin = b[0] & 0x80 != 0;
        let op = b[0] & 0x0f;
        let masked = b[1] & 0x80 != 0;
        let mut len = (b[1] & 0x7f) as usize;
        let mut off = 2;
        if len == 126 {
            if b.len() < 4 {
                return None;
            }
            len = u16::from_be_bytes([b[2], b[3]]) as usize;
            off = 4;
        } else if len == 127 {
            if b.len() < 10 {
                return None;
            }
            let mut x = [0u8; 8];
            x.copy_from_slice(&b[2..10]);
            len = u64::from_be_bytes(x) as usize;
            off = 10;
        }
        let mut mask = [0u8; 4];
        if masked {
            if b.len() < off + 4 {
                return None;
            }
            mask.copy_from_slice(&b[off..off + 4]);
            off += 4;
        }
        if b.len() < off + len {
            return None;
        }
        let mut p = b[off..off + len].to_vec();
        if masked {
            for (i, x) in p.iter_mut().enumerate() {
                *x ^= mask[i % 4];
            }
        }
        self.buf.drain(..off + len);
        Some((fin, op, p))
    }
}

enum Conn {
    Line(BufReader<Box<dyn Stream>>),
    Ws(Ws),
}

// ----------------------------------------------------------------------------- the lifetime

struct Life {
    fc: Arc<FrontendContext>,
    tcp: String,
    http: String,
    ws: String,
    unix: String,
    bearer: String,
    admin: String,
    admin_key: String,
    expiry: u64,
    data_dir: PathBuf,
    tokens: HashMap<String, String>,
    conns: HashMap<String, Conn>,
    seq: u64,
    sentinel_token: Option<(String, Instant)>,
    seeds: Vec<(String, Vec<String>)>,
    ws_grace: Duration,
}

impl Life {
    async fn open_line(&self, fe: &str) -> Option<Box<dyn Stream>> {
        if fe == "unix" {
            UnixStream::connect(&self.unix).await.ok().map(|s| Box::new(s) as Box<dyn Stream>)
        } else {
            let st = TcpStream::connect(&self.tcp).await.ok()?;
            let _ = st.set_nodelay(true);
            Some(Box::new(st) as Box<dyn Stream>)
        }
    }

    /// AUTH on a fresh TCP connection; returns the token.
    async fn mint(&self, user: &str, key: &str) -> Option<String> {
        let st = self.open_line("tcp").await?;
        let (buf, _) = line_oneshot(st, &[format!("AUTH {user}:{}", sign(key, user))]).await;
        let t = String::from_utf8_lossy(&buf).to_string();
        t.trim().strip_prefix("OK TOKEN ").map(|x| x.trim().to_string())
    }

    /// A live admin token for sentinels (re-minted when it may be close to expiry).
    async fn sentinel_tok(&mut self) -> Option<String> {
        let fresh_for = Duration::from_millis((self.expiry * 1000 / 3).max(100));
        if let Some((t, at)) = &self.sentinel_token {
            if at.elapsed() < fresh_for {
                return Some(t.clone());
            }
        }
        let t = self.mint(&self.admin.clone(), &self.admin_key.clone()).await?;
        self.sentinel_token = Some((t.clone(), Instant::now()));
        Some(t)
    }

    /// Command issued as the bootstrap admin, in-process (no wire): used for look-ups only.
    async fn admin_inproc(&self, text: &str) -> Vec<u8> {
        let mut out = Vec::new();
        if let Ok(cmd) = parse_command(text) {
            let _ = dispatch_command(
                &cmd,
                &mut out,
                &self.fc.shard_manager,
                &self.fc.registry,
                self.fc.auth_manager.as_ref(),
                Some(self.admin.as_str()),
                &JsonRenderer,
            )
            .await;
        }
        out
    }

    /// Command issued as the admin over the wire (TCP, inline signature).
    async fn admin_wire(&self, text: &str) -> Raw {
        let line = format!("{}:{}:{}", self.admin, sign(&self.admin_key, text), text);
        match self.open_line("tcp").await {
            None => Raw { outcome: "connect_error".into(), ..Default::default() },
            Some(st) => {
                let (buf, to) = line_oneshot(st, &[line]).await;
                Raw {
                    outcome: if to { "timeout" } else if buf.is_empty() { "closed" } else { "response" }.into(),
                    body: buf,
                    ..Default::default()
                }
            }
        }
    }

    async fn users_snapshot(&self) -> Value {
        let mut m = serde_json::Map::new();
        if let Some(am) = &self.fc.auth_manager {
            for u in am.list_users().await {
                let mut perms = serde_json::Map::new();
                let mut keys: Vec<_> = u.permissions.keys().cloned().collect();
                keys.sort();
                for k in keys {
                    let p = &u.permissions[&k];
                    perms.insert(k, json!({"r": p.read, "w": p.write}));
                }
                let mut roles = u.roles.clone();
                roles.sort();
                m.insert(u.user_id.clone(), json!({"active": u.active, "roles": roles, "perms": perms}));
            }
        }
        Value::Object(m)
    }

    async fn effect(&self, e: &Value) -> Value {
        let kind = s(e, "kind");
        match kind {
            "marker" => {
                let raw = self.admin_inproc(&format!("QUERY {}", s(e, "type"))).await;
                let t = String::from_utf8_lossy(&raw);
                json!(t.contains(s(e, "marker")))
            }
            "user_exists" => {
                let snap = self.users_snapshot().await;
                json!(snap.get(s(e, "id")).is_some())
            }
            "user_inactive" => {
                let snap = self.users_snapshot().await;
                json!(snap.get(s(e, "id")).map(|u| u["active"] == json!(false)).unwrap_or(false))
            }
            "perm" => {
                let snap = self.users_snapshot().await;
                let p = &snap[s(e, "id")]["perms"][s(e, "type")];
                let field = s(e, "field");
                json!(p.get(field).and_then(|b| b.as_bool()).unwrap_or(false) == e["value"].as_bool().unwrap_or(true))
            }
            "type_defined" => {
                let reg = self.fc.registry.read().await;
                json!(reg.has_schema(s(e, "type")))
            }
            "mat_exists" => {
                let p = self.data_dir.join("materializations").join(s(e, "name"));
                json!(p.exists())
            }
            _ => Value::Null,
        }
    }

    fn seen(&self, body: &[u8]) -> Vec<String> {
        let t = String::from_utf8_lossy(body);
        let mut v = Vec::new();
        for (ty, pats) in &self.seeds {
            if pats.iter().any(|p| occurs(&t, p)) {
                v.push(ty.clone());
            }
        }
        v
    }

    fn build_line(&self, r: &Value) -> String {
        let cmd = s(r, "cmd");
        let user = s(r, "user");
        let key = s(r, "key");
        let sign_text = r.get("sign_text").and_then(|x| x.as_str()).unwrap_or(cmd);
        let sig = tweak_sig(sign(key, sign_text), s(r, "tweak"));
        if s(r, "tweak") == "nosig" {
            return cmd.to_string();
        }
        match s(r, "form") {
            "inline" => format!("{user}:{sig}:{cmd}"),
            "conn" | "authconn" => format!("{sig}:{cmd}"),
            "token" => {
                let tok = match r.get("token_literal").and_then(|x| x.as_str()) {
                    Some(l) => l.to_string(),
                    None => self.tokens.get(s(r, "token")).cloned().unwrap_or_else(|| "0".repeat(64)),
                };
                let tok = match s(r, "tweak") {
                    "truncate" => tok[..tok.len().saturating_sub(1)].to_string(),
                    "flip" => {
                        let mut b = tok.into_bytes();
                        if let Some(l) = b.last_mut() {
                            *l = if *l == b'0' { b'1' } else { b'0' };
                        }
                        String::from_utf8(b).unwrap()
                    }
                    _ => tok,
                };
                format!("{cmd} TOKEN {tok}")
            }
            _ => cmd.to_string(),
        }
    }

    async fn request(&mut self, r: &Value) -> Raw {
        // {{tok:NAME}} in the command text stands for a token minted earlier (credential-like payloads)
        let mut r2 = r.clone();
        if s(r, "cmd").contains("{{tok:") {
            let mut text = s(r, "cmd").to_string();
            for (name, tok) in &self.tokens {
                text = text.replace(&format!("{{{{tok:{name}}}}}"), tok);
            }
            r2["cmd"] = json!(text);
        }
        let r = &r2;
        let fe = s(r, "fe").to_string();
        let form = s(r, "form").to_string();
        match fe.as_str() {
            "http" | "httpjson" => {
                let cmd = s(r, "cmd");
                let path = if fe == "http" { "/command" } else { "/json-command" };
                let mut headers = vec![("Content-Type".to_string(), "text/plain".to_string())];
                if r.get("no_bearer").and_then(|b| b.as_bool()) != Some(true) {
                    headers.push(("Authorization".into(), format!("Bearer {}", self.bearer)));
                }
                let body = match form.as_str() {
                    "header" => {
                        let sign_text = r.get("sign_text").and_then(|x| x.as_str()).unwrap_or(cmd);
                        let sig = tweak_sig(sign(s(r, "key"), sign_text), s(r, "tweak"));
                        headers.push(("X-Auth-User".into(), s(r, "user").to_string()));
                        if !sig.is_empty() {
                            headers.push(("X-Auth-Signature".into(), sig));
                        }
                        cmd.to_string()
                    }
                    _ => self.build_line(r),
                };
                http_post(&self.http, path, &headers, &body).await
            }
            "ws" => self.ws_request(r).await,
            _ => {
                let line = self.build_line(r);
                if let Some(name) = r.get("conn").and_then(|c| c.as_str()) {
                    return self.persistent_line_request(name, &line).await;
                }
                let Some(st) = self.open_line(&fe).await else {
                    return Raw { outcome: "connect_error".into(), ..Default::default() };
                };
                let mut lines = Vec::new();
                if form == "authconn" {
                    // AUTH with the real key of `auth_user`, then the request on the same connection
                    let au = r.get("auth_user").and_then(|x| x.as_str()).unwrap_or(s(r, "user"));
                    let ak = r.get("auth_key").and_then(|x| x.as_str()).unwrap_or(s(r, "key"));
                    lines.push(format!("AUTH {au}:{}", sign(ak, au)));
                }
                lines.push(line);
                let (buf, to) = line_oneshot(st, &lines).await;
                let mut raw = Raw {
                    outcome: if to { "timeout" } else if buf.is_empty() { "closed" } else { "response" }.into(),
                    body: buf,
                    ..Default::default()
                };
                if form == "authconn" && !raw.body.is_empty() {
                    let p = raw.body.iter().position(|b| *b == b'\n').map(|p| p + 1).unwrap_or(raw.body.len());
                    raw.auth_line = Some(String::from_utf8_lossy(&raw.body[..p]).trim().to_string());
                    raw.body = raw.body[p..].to_vec();
                    if raw.body.is_empty() {
                        raw.outcome = "closed".into();
                    }
                }
                raw
            }
        }
    }

    /// Request on a connection that was opened (and AUTHed) earlier: the end of the response is
    /// found with a sentinel line whose answer echoes a unique word.
    async fn persistent_line_request(&mut self, name: &str, line: &str) -> Raw {
        self.seq += 1;
        let word = format!("ZZSENTINEL{}", self.seq);
        let Some(tok) = self.sentinel_tok().await else {
            return Raw { outcome: "sentinel_unavailable".into(), ..Default::default() };
        };
        let Some(Conn::Line(rd)) = self.conns.get_mut(name) else {
            return Raw { outcome: "connect_error".into(), ..Default::default() };
        };
        let payload = format!("{line}\n{word} TOKEN {tok}\n");
        if rd.get_mut().write_all(payload.as_bytes()).await.is_err() {
            return Raw { outcome: "closed".into(), ..Default::default() };
        }
        let mut body: Vec<u8> = Vec::new();
        let fut = async {
            loop {
                let mut l = Vec::new();
                match rd.read_until(b'\n', &mut l).await {
                    Ok(0) | Err(_) => return "closed",
                    Ok(_) => {
                        if String::from_utf8_lossy(&l).contains(&word) {
                            return "response";
                        }
                        body.extend_from_slice(&l);
                    }
                }
            }
        };
        let oc = match tokio::time::timeout(IO_TIMEOUT, fut).await {
            Ok(o) => o,
            Err(_) => "framing_timeout",
        };
        let outcome = if oc == "response" && body.is_empty() { "closed" } else { oc };
        Raw { outcome: outcome.into(), body, ..Default::default() }
    }

    async fn ws_request(&mut self, r: &Value) -> Raw {
        self.seq += 1;
        let word = format!("ZZSENTINEL{}", self.seq);
        let Some(tok) = self.sentinel_tok().await else {
            return Raw { outcome: "sentinel_unavailable".into(), ..Default::default() };
        };
        let line = self.build_line(r);
        let form = s(r, "form").to_string();
        let grace = self.ws_grace;
        let fresh = r.get("conn").and_then(|c| c.as_str()).is_none();
        let mut owned: Option<Ws> = None;
        let ws: &mut Ws = if let Some(name) = r.get("conn").and_then(|c| c.as_str()) {
            match self.conns.get_mut(name) {
                Some(Conn::Ws(w)) => w,
                _ => return Raw { outcome: "connect_error".into(), ..Default::default() },
            }
        } else {
            match Ws::connect(&self.ws).await {
                Some(w) => {
                    owned = Some(w);
                    owned.as_mut().unwrap()
                }
                None => return Raw { outcome: "connect_error".into(), ..Default::default() },
            }
        };
        let mut raw = Raw::default();
        if !fresh {
            // anything still queued belongs to an earlier request
            while ws.recv_text(Duration::from_millis(2)).await.is_some() {
                raw.late = true;
            }
        }
        if form == "authconn" {
            let au = r.get("auth_user").and_then(|x| x.as_str()).unwrap_or(s(r, "user"));
            let ak = r.get("auth_key").and_then(|x| x.as_str()).unwrap_or(s(r, "key"));
            ws.send_text(&format!("AUTH {au}:{}", sign(ak, au))).await;
            // messages are handled concurrently by the server: wait for the AUTH answer first
            // (a failed AUTH is not answered at all on this front end: the caller passes a short wait
            // when the AUTH is meant to fail)
            let wait = Duration::from_millis(r.get("auth_wait_ms").and_then(|x| x.as_u64()).unwrap_or(5000));
            match ws.recv_text(wait).await {
                Some(a) => raw.auth_line = Some(a.trim().to_string()),
                None => raw.auth_line = Some(String::new()),
            }
        }
        ws.send_text(&line).await;
        ws.send_text(&format!("{word} TOKEN {tok}")).await;
        let mut got: Option<String> = None;
        let mut sentinel_seen = false;
        let deadline = Instant::now() + IO_TIMEOUT;
        while Instant::now() < deadline {
            let wait = if sentinel_seen { grace } else { IO_TIMEOUT };
            match ws.recv_text(wait).await {
                Some(m) => {
                    if m.contains(&word) {
                        sentinel_seen = true;
                        if got.is_some() {
                            break;
                        }
                    } else {
                        raw.late = sentinel_seen;
                        got = Some(m);
                        if sentinel_seen {
                            break;
                        }
                    }
                }
                None => break,
            }
        }
        match got {
            Some(m) => {
                raw.outcome = "response".into();
                raw.body = m.into_bytes();
            }
            None => raw.outcome = if sentinel_seen { "noresponse" } else { "timeout" }.into(),
        }
        raw
    }
}

/// A seed value occurs in an answer: a string anywhere, a number only as a whole number
/// (event ids and timestamps are long digit strings that may contain it by chance).
fn occurs(text: &str, pat: &str) -> bool {
    if !pat.bytes().all(|b| b.is_ascii_digit()) {
        return text.contains(pat);
    }
    let tb = text.as_bytes();
    let mut from = 0;
    while let Some(p) = text[from..].find(pat) {
        let a = from + p;
        let b = a + pat.len();
        let before = a > 0 && (tb[a - 1].is_ascii_digit() || tb[a - 1] == b'.');
        let after = b < tb.len() && (tb[b].is_ascii_digit() || tb[b] == b'.');
        if !before && !after {
            return true;
        }
        from = a + 1;
    }
    false
}

fn classify(fe: &str, raw: &Raw) -> (&'static str, Option<u16>, String) {
    let text = String::from_utf8_lossy(&raw.body).to_string();
    let first = text.lines().next().unwrap_or("").to_string();
    if raw.outcome == "noresponse" {
        return ("NoResponse", None, first);
    }
    if raw.outcome != "response" {
        return ("OtherError", None, raw.outcome.clone());
    }
    // status: HTTP status code, "NNN text" header line, or a JSON object with a status field
    let mut status: Option<u16> = raw.http_status;
    if fe != "http" && fe != "httpjson" {
        if first.starts_with("ERROR: Authentication failed") {
            return ("Unauthenticated", None, first);
        }
        if first.starts_with("ERROR:") {
            return ("OtherError", None, first);
        }
        if let Some(c) = first.split_whitespace().next().and_then(|c| c.parse::<u16>().ok()) {
            status = Some(c);
        } else if let Ok(v) = serde_json::from_str::<Value>(&first) {
            if v.get("type").and_then(|t| t.as_str()) == Some("schema") {
                status = Some(200);
            } else if let Some(c) = v.get("status").and_then(|c| c.as_u64()) {
                status = Some(c as u16);
                if c == 400 && v.get("message").and_then(|m| m.as_str()) == Some("Authentication failed") {
                    return ("Unauthenticated", status, first);
                }
            }
        }
    }
    let cls = match status {
        Some(200) => "Executed",
        Some(401) => "Unauthenticated",
        Some(403) => "Forbidden",
        _ => "OtherError",
    };
    (cls, status, first)
}

async fn wait_port(addr: &str) -> bool {
    for _ in 0..400 {
        if TcpStream::connect(addr).await.is_ok() {
            return true;
        }
        tokio::time::sleep(Duration::from_millis(25)).await;
    }
    false
}

fn main() {
    let path = std::env::args().nth(1).expect("usage: vauth script.json");
    let script = read_json(&PathBuf::from(&path));
    let _root = install_config(&script["config"]);
    if std::env::var("VERIF_SHOW_PANICS").is_err() {
        std::panic::set_hook(Box::new(|_| {}));
    }
    let rt = tokio::runtime::Builder::new_multi_thread()
        .worker_threads(4)
        .enable_all()
        .build()
        .unwrap();
    let code = rt.block_on(run(script));
    std::process::exit(code);
}

async fn run(script: Value) -> i32 {
    let cfg = &script["config"];
    let out_path = s(&script, "out").to_string();
    let mut out = std::fs::OpenOptions::new().create(true).append(true).open(&out_path).unwrap();
    let tcp = s(cfg, "tcp_addr").to_string();
    let http = s(cfg, "http_addr").to_string();
    let ws = s(cfg, "ws_addr").to_string();
    // bind test first: a taken port is the caller's problem, not the server's
    for a in [&tcp, &http, &ws] {
        match std::net::TcpListener::bind(a.as_str()) {
            Ok(l) => drop(l),
            Err(e) => {
                emit(&mut out, json!({"op": "bind_error", "addr": a, "error": e.to_string()}));
                return 5;
            }
        }
    }
    let fc = FrontendContext::from_config().await;
    {
        let c = Arc::clone(&fc);
        tokio::spawn(async move { snel_db::frontend::tcp::listener::run_tcp_server(c).await });
        let c = Arc::clone(&fc);
        tokio::spawn(async move { snel_db::frontend::http::listener::run_http_server(c).await });
        let c = Arc::clone(&fc);
        tokio::spawn(async move { snel_db::frontend::ws::listener::run_ws_server(c).await });
        let c = Arc::clone(&fc);
        tokio::spawn(async move { snel_db::frontend::unix::listener::run_server(c).await });
    }
    let unix = snel_db::shared::config::CONFIG.server.socket_path.clone();
    let mut up = wait_port(&tcp).await && wait_port(&http).await && wait_port(&ws).await;
    for _ in 0..400 {
        if std::path::Path::new(&unix).exists() {
            break;
        }
        tokio::time::sleep(Duration::from_millis(25)).await;
    }
    up = up && std::path::Path::new(&unix).exists();
    if !up {
        emit(&mut out, json!({"op": "startup_error"}));
        return 6;
    }
    let data_dir = std::path::absolute(PathBuf::from(&snel_db::shared::config::CONFIG.engine.data_dir)).unwrap();
    let mut seeds = Vec::new();
    if let Some(o) = script.get("seeds").and_then(|x| x.as_object()) {
        for (k, v) in o {
            seeds.push((k.clone(), v.as_array().map(|a| a.iter().filter_map(|x| x.as_str().map(String::from)).collect()).unwrap_or_default()));
        }
    }
    let mut life = Life {
        fc,
        tcp,
        http,
        ws,
        unix,
        bearer: snel_db::shared::config::CONFIG.server.auth_token.clone(),
        admin: s(cfg, "admin_user").to_string(),
        admin_key: s(cfg, "admin_key").to_string(),
        expiry: cfg.get("session_token_expiry_seconds").and_then(|x| x.as_u64()).unwrap_or(300),
        data_dir,
        tokens: HashMap::new(),
        conns: HashMap::new(),
        seq: 0,
        sentinel_token: None,
        seeds,
        ws_grace: Duration::from_millis(script.get("ws_grace_ms").and_then(|x| x.as_u64()).unwrap_or(300)),
    };
    // tokens minted in an earlier process on the same directories (they are dead after a restart, but
    // the client still holds them)
    let tokens_file = script.get("tokens_file").and_then(|x| x.as_str()).map(PathBuf::from);
    if let Some(tf) = &tokens_file {
        if let Ok(txt) = std::fs::read_to_string(tf) {
            if let Ok(Value::Object(m)) = serde_json::from_str::<Value>(&txt) {
                for (k, v) in m {
                    if let Some(t) = v.as_str() {
                        life.tokens.insert(k, t.to_string());
                    }
                }
            }
        }
    }
    let first_i = script.get("first_i").and_then(|x| x.as_i64()).unwrap_or(0);
    emit(&mut out, json!({"i": first_i - 1, "op": "opened", "users": life.users_snapshot().await}));

    let steps = script["steps"].as_array().cloned().unwrap_or_default();
    for (i, st) in steps.iter().enumerate() {
        let i = i as i64 + first_i;
        if let Some(tf) = &tokens_file {
            let _ = std::fs::write(tf, serde_json::to_string(&life.tokens).unwrap());
        }
        let op = s(st, "op");
        let tag = st.get("tag").cloned().unwrap_or(Value::Null);
        let t_step = Instant::now();
        match op {
            "admin" => {
                let raw = life.admin_wire(s(st, "cmd")).await;
                let (cls, status, first) = classify("tcp", &raw);
                emit(&mut out, json!({"i": i, "op": "admin", "tag": tag, "cmd": s(st, "cmd"), "class": cls, "status": status, "first": first,
                    "body": String::from_utf8_lossy(&raw.body[..raw.body.len().min(600)])}));
            }
            "snapshot" => {
                let types: Vec<String> = {
                    let reg = life.fc.registry.read().await;
                    let mut t: Vec<String> = reg.get_all().keys().cloned().collect();
                    t.sort();
                    t
                };
                emit(&mut out, json!({"i": i, "op": "snapshot", "tag": tag, "users": life.users_snapshot().await, "types": types}));
            }
            "mint" => {
                let t = life.mint(s(st, "user"), s(st, "key")).await;
                if let Some(t) = &t {
                    life.tokens.insert(s(st, "token").to_string(), t.clone());
                }
                emit(&mut out, json!({"i": i, "op": "mint", "tag": tag, "ok": t.is_some(), "len": t.map(|x| x.len())}));
            }
            "auth" => {
                // persistent connection + AUTH (one answer line / message)
                let fe = s(st, "fe");
                let user = s(st, "user");
                let line = format!("AUTH {user}:{}", tweak_sig(sign(s(st, "key"), user), s(st, "tweak")));
                let mut answer = String::new();
                if fe == "ws" {
                    if let Some(mut w) = Ws::connect(&life.ws).await {
                        w.send_text(&line).await;
                        answer = w.recv_text(Duration::from_secs(2)).await.unwrap_or_default();
                        life.conns.insert(s(st, "conn").to_string(), Conn::Ws(w));
                    }
                } else if let Some(stream) = life.open_line(fe).await {
                    let mut rd = BufReader::new(stream);
                    let _ = rd.get_mut().write_all(format!("{line}\n").as_bytes()).await;
                    let _ = tokio::time::timeout(IO_TIMEOUT, rd.read_line(&mut answer)).await;
                    life.conns.insert(s(st, "conn").to_string(), Conn::Line(rd));
                }
                let tok = answer.trim().strip_prefix("OK TOKEN ").map(|x| x.trim().to_string());
                if let (Some(t), Some(name)) = (&tok, st.get("token").and_then(|x| x.as_str())) {
                    life.tokens.insert(name.to_string(), t.clone());
                }
                emit(&mut out, json!({"i": i, "op": "auth", "tag": tag, "ok": tok.is_some(),
                    "answer": if tok.is_some() { "OK TOKEN <token>".to_string() } else { answer.trim().to_string() }}));
            }
            "sleep" => {
                tokio::time::sleep(Duration::from_millis(st["ms"].as_u64().unwrap_or(100))).await;
                emit(&mut out, json!({"i": i, "op": "sleep"}));
            }
            "req" => {
                let mut pre_ok = true;
                if let Some(pre) = st.get("pre").and_then(|p| p.as_array()) {
                    for c in pre {
                        let raw = life.admin_wire(c.as_str().unwrap_or("")).await;
                        pre_ok &= classify("tcp", &raw).0 == "Executed";
                    }
                }
                let before = match st.get("effect") {
                    Some(e) if !e.is_null() => life.effect(e).await,
                    _ => Value::Null,
                };
                let raw = life.request(st).await;
                let (cls, status, first) = classify(s(st, "fe"), &raw);
                let after = match st.get("effect") {
                    Some(e) if !e.is_null() => life.effect(e).await,
                    _ => Value::Null,
                };
                let mut undo_ok = Value::Null;
                if after == json!(true) {
                    if let Some(undo) = st.get("undo").and_then(|p| p.as_array()) {
                        let mut ok = true;
                        for c in undo {
                            let r = life.admin_wire(c.as_str().unwrap_or("")).await;
                            ok &= classify("tcp", &r).0 == "Executed";
                        }
                        undo_ok = json!(ok);
                    }
                }
                let seen = life.seen(&raw.body);
                let head = String::from_utf8_lossy(&raw.body[..raw.body.len().min(300)]).to_string();
                emit(&mut out, json!({"i": i, "op": "req", "tag": tag, "id": st.get("id"), "outcome": raw.outcome, "class": cls,
                    "status": status, "first": first, "seen": seen, "effect_before": before, "effect": after, "pre_ok": pre_ok,
                    "undo_ok": undo_ok, "auth_line": raw.auth_line.map(|a| if a.starts_with("OK TOKEN") { "OK TOKEN <token>".to_string() } else { a }),
                    "late": raw.late, "bytes": raw.body.len(), "head": head, "ms": t_step.elapsed().as_millis() as u64}));
            }
            other => emit(&mut out, json!({"i": i, "op": other, "error": "unknown op"})),
        }
    }
    if let Some(tf) = &tokens_file {
        let _ = std::fs::write(tf, serde_json::to_string(&life.tokens).unwrap());
    }
    emit(&mut out, json!({"i": steps.len() as i64 + first_i, "op": "done"}));
    0
}
