//! vrender <job.json>: response-encoding harness for C20.
//!
//! job = {"config": {...install_config keys..., "streaming_batch_size": N}, "mode": "cases"|"render"|"e2e",
//!        "in": NDJSON file, "out": NDJSON file}
//!
//! * mode "cases":  every input line describes a result stream (schema, batches of typed cells,
//!   LIMIT/OFFSET, which writer). The stream is pushed through the real `QueryResponseWriter` /
//!   `ShowResponseWriter` once per renderer (JsonRenderer, ArrowRenderer, UnixRenderer); the bytes
//!   are decoded with independent readers (serde_json, arrow-ipc StreamReader, line splitter) and
//!   the decoded tables are printed in a canonical cell form.
//! * mode "render": non-streaming `Response` values (errors, tables, scalar arrays, lines) through
//!   `Renderer::render` of the three renderers.
//! * mode "e2e":    a small real engine; every query is dispatched once per renderer.
//! * mode "http":   the real HTTP front end of this process (config.output_format = json | arrow | unix)
//!   answers every command over a TCP connection; HTTP status, content type and decoded body are printed.
//!
//! The two response writers are *private to the crate* as far as their input is concerned
//! (`QueryBatchStream::new` is pub(crate)), so the real source files are compiled into this
//! binary by path; everything they use (`Renderer`s, `ArrowStreamEncoder`, `ColumnBatch`,
//! `CONFIG`) is the crate's own. Any edit of those files in /repo is therefore what runs here.

#![allow(dead_code)]

mod command {
    pub mod handlers {
        #[path = "/repo/src/command/handlers/query_batch_stream.rs"]
        pub mod query_batch_stream;
        pub mod query {
            pub mod streaming {
                #[path = "/repo/src/command/handlers/query/streaming/response_writer.rs"]
                pub mod response_writer;
            }
        }
        pub mod show {
            #[path = "/repo/src/command/handlers/show/errors.rs"]
            pub mod errors;
            pub mod streaming {
                #[path = "/repo/src/command/handlers/show/streaming/response_writer.rs"]
                pub mod response_writer;
            }
        }
    }
}
mod engine {
    pub mod core {
        pub mod read {
            pub mod flow {
                pub use snel_db::engine::core::read::flow::*;
            }
        }
    }
    pub mod types {
        pub use snel_db::engine::types::*;
    }
}
mod shared {
    pub mod config {
        pub use snel_db::shared::config::*;
    }
    pub mod response {
        pub use snel_db::shared::response::*;
    }
}

use crate::command::handlers::query::streaming::response_writer::QueryResponseWriter;
use crate::command::handlers::query_batch_stream::QueryBatchStream;
use crate::command::handlers::show::streaming::response_writer::ShowResponseWriter;

use arrow_array::{
    Array, BooleanArray, Float64Array, Int64Array, LargeStringArray, StringArray,
    TimestampMillisecondArray,
};
use arrow_ipc::reader::StreamReader;
use arrow_schema::{DataType, TimeUnit};
use serde_json::{json, Value};
use snel_db::command::dispatcher::dispatch_command;
use snel_db::command::parser::command::parse_command;
use snel_db::engine::core::read::flow::{BatchPool, BatchSchema, FlowChannel, FlowMetrics};
use snel_db::engine::core::read::result::ColumnSpec;
use snel_db::engine::types::ScalarValue;
use snel_db::shared::response::render::Renderer;
use snel_db::shared::response::types::ResponseBody;
use snel_db::shared::response::{ArrowRenderer, JsonRenderer, Response, StatusCode, UnixRenderer};
use std::io::{BufRead, Write};
use std::path::PathBuf;
use std::sync::Arc;
use vharness::engine::Engine;
use vharness::{install_config, read_json};

// ------------------------------------------------------------------ canonical cells
fn canon_f64(f: f64) -> String {
    if f.is_nan() {
        "NaN".into()
    } else if f.is_infinite() {
        if f > 0.0 { "inf".into() } else { "-inf".into() }
    } else if f.fract() == 0.0 && f.abs() < 1e38 {
        (f as i128).to_string()
    } else {
        format!("{f:?}")
    }
}

fn cell_null() -> Value {
    json!({"k": "null"})
}
fn cell_num(s: String) -> Value {
    json!({"k": "num", "v": s})
}
fn cell_str(s: &str) -> Value {
    json!({"k": "str", "v": s})
}

/// canonical form of a decoded JSON value
fn canon_json(v: &Value) -> Value {
    match v {
        Value::Null => cell_null(),
        Value::Bool(b) => json!({"k": "bool", "v": b}),
        Value::Number(n) => {
            if let Some(i) = n.as_i64() {
                cell_num(i.to_string())
            } else if let Some(u) = n.as_u64() {
                cell_num(u.to_string())
            } else {
                cell_num(canon_f64(n.as_f64().unwrap_or(f64::NAN)))
            }
        }
        Value::String(s) => cell_str(s),
        Value::Array(_) => json!({"k": "arr", "v": v.to_string()}),
        Value::Object(_) => json!({"k": "obj", "v": v.to_string()}),
    }
}

// ------------------------------------------------------------------ concrete cells of a case
fn scalar_of(c: &Value) -> ScalarValue {
    let t = c["t"].as_str().unwrap_or("null");
    let v = c.get("v");
    let s = || v.and_then(|x| x.as_str()).unwrap_or("").to_string();
    match t {
        "null" => ScalarValue::Null,
        "bool" => ScalarValue::Boolean(v.and_then(|x| x.as_bool()).unwrap_or(false)),
        "int" => ScalarValue::Int64(s().parse::<i64>().expect("int cell")),
        "ts" => ScalarValue::Timestamp(s().parse::<i64>().expect("ts cell")),
        "float" => ScalarValue::Float64(match s().as_str() {
            "NaN" => f64::NAN,
            "inf" => f64::INFINITY,
            "-inf" => f64::NEG_INFINITY,
            "-0" => -0.0,
            o => o.parse::<f64>().expect("float cell"),
        }),
        "str" => ScalarValue::Utf8(s()),
        "bin" => ScalarValue::Binary(
            v.and_then(|x| x.as_array())
                .map(|a| a.iter().map(|b| b.as_u64().unwrap_or(0) as u8).collect())
                .unwrap_or_default(),
        ),
        other => panic!("unknown cell tag {other}"),
    }
}

// ------------------------------------------------------------------ decoders
#[derive(Default)]
struct Dec {
    kind: String, // "stream" | "plain" | "garbled"
    status: Option<u64>,
    message: Option<String>,
    columns: Vec<String>,
    types: Vec<String>,
    rows: Vec<Vec<Value>>,
    announced: Option<u64>,
    n_schema: usize,
    n_batch: usize,
    n_row: usize,
    n_end: usize,
    problems: Vec<String>,
}

impl Dec {
    fn to_json(&self) -> Value {
        json!({"kind": self.kind, "status": self.status, "message": self.message, "columns": self.columns,
               "types": self.types, "rows": self.rows, "announced": self.announced,
               "frames": {"schema": self.n_schema, "batch": self.n_batch, "row": self.n_row, "end": self.n_end},
               "problems": self.problems})
    }
}

/// JSON-lines stream (JsonRenderer and UnixRenderer streaming output): schema / batch / row / end frames.
/// A line without "type" is a plain response object.
fn decode_frames(bytes: &[u8]) -> Dec {
    let mut d = Dec::default();
    d.kind = "stream".into();
    let text = match std::str::from_utf8(bytes) {
        Ok(t) => t,
        Err(e) => {
            d.kind = "garbled".into();
            d.problems.push(format!("not utf-8: {e}"));
            return d;
        }
    };
    let mut ended = false;
    for line in text.split('\n') {
        if line.is_empty() {
            continue;
        }
        let v: Value = match serde_json::from_str(line) {
            Ok(v) => v,
            Err(e) => {
                d.problems.push(format!("unparsable line: {e}"));
                continue;
            }
        };
        if ended {
            d.problems.push("frame after end".into());
        }
        match v.get("type").and_then(|t| t.as_str()) {
            Some("schema") => {
                d.n_schema += 1;
                if d.n_schema > 1 || d.n_batch + d.n_row > 0 {
                    d.problems.push("schema frame not first / repeated".into());
                }
                for c in v["columns"].as_array().cloned().unwrap_or_default() {
                    d.columns.push(c["name"].as_str().unwrap_or("?").to_string());
                    d.types.push(c["logical_type"].as_str().unwrap_or("?").to_string());
                }
            }
            Some("batch") => {
                d.n_batch += 1;
                match v["rows"].as_array() {
                    Some(rows) => {
                        for r in rows {
                            match r.as_array() {
                                Some(cells) => {
                                    if cells.len() != d.columns.len() {
                                        d.problems.push("row width differs from schema".into());
                                    }
                                    d.rows.push(cells.iter().map(canon_json).collect());
                                }
                                None => d.problems.push("batch row is not an array".into()),
                            }
                        }
                    }
                    None => d.problems.push("batch frame without rows".into()),
                }
            }
            Some("row") => {
                d.n_row += 1;
                match v["values"].as_object() {
                    Some(obj) => {
                        if obj.len() != d.columns.len() {
                            d.problems.push("row object width differs from schema".into());
                        }
                        d.rows.push(
                            d.columns
                                .iter()
                                .map(|c| obj.get(c).map(canon_json).unwrap_or(json!({"k": "missing"})))
                                .collect(),
                        );
                    }
                    None => d.problems.push("row frame without values".into()),
                }
            }
            Some("end") => {
                d.n_end += 1;
                ended = true;
                d.announced = v["row_count"].as_u64();
                if d.announced.is_none() {
                    d.problems.push("end frame without row_count".into());
                }
            }
            Some(other) => d.problems.push(format!("unknown frame type {other}")),
            None => {
                // plain response object
                d.kind = "plain".into();
                d.status = v["status"].as_u64();
                d.message = v["message"].as_str().map(|s| s.to_string());
                decode_plain_results(&mut d, v.get("results"));
            }
        }
    }
    if d.kind == "stream" {
        if d.n_schema != 1 {
            d.problems.push(format!("{} schema frames", d.n_schema));
        }
        if d.n_end != 1 {
            d.problems.push(format!("{} end frames", d.n_end));
        }
        d.status = Some(200);
    }
    d
}

/// "results" of a plain JSON response: JsonRenderer wraps a table as [ {columns, rows} ],
/// ArrowRenderer's fallback as {columns, rows}; scalars / lines as an array.
fn decode_plain_results(d: &mut Dec, res: Option<&Value>) {
    let table = |d: &mut Dec, t: &Value| {
        for c in t["columns"].as_array().cloned().unwrap_or_default() {
            d.columns.push(c["name"].as_str().unwrap_or("?").to_string());
            d.types.push(c["type"].as_str().unwrap_or("?").to_string());
        }
        for r in t["rows"].as_array().cloned().unwrap_or_default() {
            d.rows.push(r.as_array().map(|a| a.iter().map(canon_json).collect()).unwrap_or_default());
        }
    };
    match res {
        Some(Value::Object(_)) => table(d, res.unwrap()),
        Some(Value::Array(items)) => {
            if items.len() == 1 && items[0].get("columns").is_some() && items[0].get("rows").is_some() {
                table(d, &items[0]);
            } else {
                // scalar array / lines: one single-cell row per item
                for it in items {
                    d.rows.push(vec![canon_json(it)]);
                }
            }
        }
        _ => {}
    }
}

/// Arrow IPC stream; a buffer that does not start with the continuation marker is the
/// renderer's JSON fallback.
fn decode_arrow(bytes: &[u8]) -> Dec {
    if bytes.len() < 4 || bytes[0..4] != [0xFF, 0xFF, 0xFF, 0xFF] {
        return decode_frames(bytes);
    }
    let mut d = Dec::default();
    d.kind = "stream".into();
    d.status = Some(200);
    let mut reader = match StreamReader::try_new(std::io::Cursor::new(bytes.to_vec()), None) {
        Ok(r) => r,
        Err(e) => {
            d.kind = "garbled".into();
            d.problems.push(format!("arrow reader: {e}"));
            return d;
        }
    };
    d.n_schema = 1;
    let schema = reader.schema();
    for f in schema.fields() {
        d.columns.push(f.name().clone());
        d.types.push(format!("{}", f.data_type()));
    }
    loop {
        match reader.next() {
            None => break,
            Some(Err(e)) => {
                d.problems.push(format!("arrow batch: {e}"));
                break;
            }
            Some(Ok(rb)) => {
                d.n_batch += 1;
                let n = rb.num_rows();
                let mut cols: Vec<Vec<Value>> = Vec::new();
                for (ci, f) in schema.fields().iter().enumerate() {
                    let a = rb.column(ci);
                    let mut out = Vec::with_capacity(n);
                    for i in 0..n {
                        if a.is_null(i) {
                            out.push(cell_null());
                            continue;
                        }
                        let any = a.as_any();
                        let c = match f.data_type() {
                            DataType::Int64 => cell_num(any.downcast_ref::<Int64Array>().unwrap().value(i).to_string()),
                            DataType::Float64 => cell_num(canon_f64(any.downcast_ref::<Float64Array>().unwrap().value(i))),
                            DataType::Boolean => json!({"k": "bool", "v": any.downcast_ref::<BooleanArray>().unwrap().value(i)}),
                            DataType::Timestamp(TimeUnit::Millisecond, _) => {
                                cell_num(any.downcast_ref::<TimestampMillisecondArray>().unwrap().value(i).to_string())
                            }
                            DataType::LargeUtf8 => cell_str(any.downcast_ref::<LargeStringArray>().unwrap().value(i)),
                            DataType::Utf8 => cell_str(any.downcast_ref::<StringArray>().unwrap().value(i)),
                            other => json!({"k": "unsupported", "v": format!("{other}")}),
                        };
                        out.push(c);
                    }
                    cols.push(out);
                }
                for i in 0..n {
                    d.rows.push(cols.iter().map(|c| c[i].clone()).collect());
                }
            }
        }
    }
    // the stream must be terminated by the end-of-stream marker (continuation + zero length)
    if bytes.len() < 8 || bytes[bytes.len() - 8..] != [0xFF, 0xFF, 0xFF, 0xFF, 0, 0, 0, 0] {
        d.problems.push("no end-of-stream marker".into());
    } else {
        d.n_end = 1;
    }
    d
}

/// UnixRenderer::render (non-streaming): "<code> <message>\n" then body lines.
/// Streaming output of the unix renderer is JSON frames (first byte '{').
fn decode_unix(bytes: &[u8]) -> Dec {
    if bytes.first() == Some(&b'{') {
        return decode_frames(bytes);
    }
    let mut d = Dec::default();
    d.kind = "plain".into();
    let text = String::from_utf8_lossy(bytes).to_string();
    let mut lines = text.split('\n');
    let head = lines.next().unwrap_or("");
    let mut it = head.splitn(2, ' ');
    d.status = it.next().and_then(|c| c.parse::<u64>().ok());
    d.message = it.next().map(|s| s.to_string());
    if d.status.is_none() {
        d.kind = "garbled".into();
        d.problems.push("no status line".into());
    }
    for l in lines {
        if l.is_empty() {
            continue;
        }
        if l.starts_with('{') {
            // table body: {"columns":[[name,type],..],"rows":[[..]]}
            if let Ok(v) = serde_json::from_str::<Value>(l) {
                if v.get("columns").is_some() && v.get("rows").is_some() {
                    for c in v["columns"].as_array().cloned().unwrap_or_default() {
                        d.columns.push(c[0].as_str().unwrap_or("?").to_string());
                        d.types.push(c[1].as_str().unwrap_or("?").to_string());
                    }
                    for r in v["rows"].as_array().cloned().unwrap_or_default() {
                        d.rows.push(r.as_array().map(|a| a.iter().map(canon_json).collect()).unwrap_or_default());
                    }
                    continue;
                }
            }
        }
        if l.starts_with('[') {
            // scalar array item: "[i] <json>"
            if let Some(p) = l.find("] ") {
                if let Ok(v) = serde_json::from_str::<Value>(&l[p + 2..]) {
                    d.rows.push(vec![canon_json(&v)]);
                    continue;
                }
            }
        }
        d.rows.push(vec![cell_str(l)]);
    }
    d
}

// ------------------------------------------------------------------ cases mode
fn renderers() -> Vec<(&'static str, Arc<dyn Renderer + Send + Sync>)> {
    vec![
        ("json", Arc::new(JsonRenderer) as Arc<dyn Renderer + Send + Sync>),
        ("arrow", Arc::new(ArrowRenderer)),
        ("unix", Arc::new(UnixRenderer)),
    ]
}

fn decode_for(name: &str, bytes: &[u8]) -> Dec {
    match name {
        "arrow" => decode_arrow(bytes),
        "unix" => decode_unix(bytes),
        _ => decode_frames(bytes),
    }
}

async fn build_stream(case: &Value) -> Result<(Arc<BatchSchema>, QueryBatchStream), String> {
    let cols: Vec<ColumnSpec> = case["columns"]
        .as_array()
        .ok_or("columns")?
        .iter()
        .map(|c| ColumnSpec {
            name: c["name"].as_str().unwrap_or("").to_string(),
            logical_type: c["type"].as_str().unwrap_or("").to_string(),
        })
        .collect();
    let schema = Arc::new(BatchSchema::new(cols).map_err(|e| format!("schema: {e}"))?);
    let batches = case["batches"].as_array().cloned().unwrap_or_default();
    let (tx, rx) = FlowChannel::bounded(batches.len() + 1, FlowMetrics::new());
    for b in &batches {
        let rows = b.as_array().cloned().unwrap_or_default();
        let pool = BatchPool::new(rows.len().max(1)).map_err(|e| format!("pool: {e}"))?;
        let mut builder = pool.acquire(Arc::clone(&schema));
        for r in &rows {
            let vals: Vec<ScalarValue> = r.as_array().ok_or("row")?.iter().map(scalar_of).collect();
            builder.push_row(&vals).map_err(|e| format!("push_row: {e}"))?;
        }
        let batch = builder.finish().map_err(|e| format!("finish: {e}"))?;
        tx.send(Arc::new(batch)).await.map_err(|_| "send".to_string())?;
    }
    drop(tx);
    Ok((Arc::clone(&schema), QueryBatchStream::new(schema, rx, Vec::new())))
}

async fn run_case_once(case: Value, rname: &'static str, renderer: Arc<dyn Renderer + Send + Sync>) -> Value {
    let c2 = case.clone();
    let h = tokio::spawn(async move {
        let (schema, stream) = build_stream(&c2).await?;
        let limit = c2["limit"].as_u64().map(|v| v as u32);
        let offset = c2["offset"].as_u64().map(|v| v as u32);
        let mut out: Vec<u8> = Vec::new();
        let res: Result<(), String> = if c2["writer"].as_str() == Some("show") {
            let mat = c2["mat_frames"].as_u64().unwrap_or(0) as usize;
            let wm = c2["watermark"].as_bool().unwrap_or(false);
            ShowResponseWriter::new(&mut out, renderer.as_ref(), schema, mat, wm, limit, offset)
                .write(stream)
                .await
                .map_err(|e| e.to_string())
        } else {
            QueryResponseWriter::new(&mut out, renderer.as_ref(), schema, limit, offset)
                .write(stream)
                .await
                .map_err(|e| e.to_string())
        };
        Ok::<(Vec<u8>, Result<(), String>), String>((out, res))
    });
    match h.await {
        Err(je) => json!({"outcome": "panic", "detail": format!("{je}")}),
        Ok(Err(e)) => json!({"outcome": "harness_error", "detail": e}),
        Ok(Ok((bytes, res))) => {
            let d = decode_for(rname, &bytes);
            let mut v = d.to_json();
            v["outcome"] = json!(if res.is_ok() { "written" } else { "write_error" });
            if let Err(e) = res {
                v["detail"] = json!(e);
            }
            v["nbytes"] = json!(bytes.len());
            v
        }
    }
}

async fn mode_cases(inp: &PathBuf, out: &mut std::fs::File) -> i32 {
    let f = std::io::BufReader::new(std::fs::File::open(inp).expect("open in"));
    for line in f.lines() {
        let line = line.unwrap();
        if line.trim().is_empty() {
            continue;
        }
        let case: Value = serde_json::from_str(&line).expect("case json");
        let mut o = json!({"id": case["id"].clone()});
        for (name, r) in renderers() {
            o[name] = run_case_once(case.clone(), name, r).await;
        }
        emit(out, o);
    }
    0
}

// ------------------------------------------------------------------ render mode
fn status_of(s: &str) -> StatusCode {
    match s {
        "Ok" => StatusCode::Ok,
        "BadRequest" => StatusCode::BadRequest,
        "Unauthorized" => StatusCode::Unauthorized,
        "Forbidden" => StatusCode::Forbidden,
        "NotFound" => StatusCode::NotFound,
        "InternalError" => StatusCode::InternalError,
        "ServiceUnavailable" => StatusCode::ServiceUnavailable,
        o => panic!("unknown status {o}"),
    }
}

fn mode_render(inp: &PathBuf, out: &mut std::fs::File) -> i32 {
    let f = std::io::BufReader::new(std::fs::File::open(inp).expect("open in"));
    for line in f.lines() {
        let line = line.unwrap();
        if line.trim().is_empty() {
            continue;
        }
        let case: Value = serde_json::from_str(&line).expect("case json");
        let resp = match case["kind"].as_str().unwrap_or("") {
            "error" => Response::error(status_of(case["status"].as_str().unwrap_or("")), case["message"].as_str().unwrap_or("")),
            "lines" => Response::ok_lines(
                case["lines"].as_array().cloned().unwrap_or_default().iter().map(|l| l.as_str().unwrap_or("").to_string()),
            ),
            "scalars" => {
                let vals: Vec<ScalarValue> = case["values"].as_array().cloned().unwrap_or_default().iter().map(scalar_of).collect();
                let n = vals.len();
                Response::ok_scalar_array(vals, n)
            }
            "table" => {
                let cols: Vec<(String, String)> = case["columns"]
                    .as_array()
                    .cloned()
                    .unwrap_or_default()
                    .iter()
                    .map(|c| (c["name"].as_str().unwrap_or("").to_string(), c["type"].as_str().unwrap_or("").to_string()))
                    .collect();
                let rows: Vec<Vec<ScalarValue>> = case["rows"]
                    .as_array()
                    .cloned()
                    .unwrap_or_default()
                    .iter()
                    .map(|r| r.as_array().cloned().unwrap_or_default().iter().map(scalar_of).collect())
                    .collect();
                let n = rows.len();
                Response {
                    status: status_of(case["status"].as_str().unwrap_or("Ok")),
                    message: case["message"].as_str().unwrap_or("OK").to_string(),
                    body: ResponseBody::Table { columns: cols, rows },
                    count: n,
                }
            }
            o => panic!("unknown render kind {o}"),
        };
        let mut o = json!({"id": case["id"].clone()});
        for (name, r) in renderers() {
            let r2 = Arc::clone(&r);
            let resp2 = resp.clone();
            let res = std::panic::catch_unwind(std::panic::AssertUnwindSafe(move || r2.render(&resp2)));
            o[name] = match res {
                Err(_) => json!({"outcome": "panic"}),
                Ok(bytes) => {
                    let mut v = decode_for(name, &bytes).to_json();
                    v["outcome"] = json!("written");
                    v
                }
            };
        }
        emit(out, o);
    }
    0
}

// ------------------------------------------------------------------ e2e mode
async fn dispatch_with(eng: &Arc<Engine>, text: &str, name: &'static str, r: Arc<dyn Renderer + Send + Sync>) -> Value {
    let cmd = match parse_command(text) {
        Ok(c) => c,
        Err(e) => return json!({"outcome": "parse_error", "detail": format!("{e:?}")}),
    };
    let e2 = Arc::clone(eng);
    let h = tokio::spawn(async move {
        let mut out: Vec<u8> = Vec::new();
        let res = dispatch_command(&cmd, &mut out, &e2.sm, &e2.registry, e2.auth.as_ref(), None, r.as_ref()).await;
        (out, res.map_err(|e| e.to_string()))
    });
    match tokio::time::timeout(std::time::Duration::from_secs(60), h).await {
        Err(_) => json!({"outcome": "timeout"}),
        Ok(Err(je)) => json!({"outcome": "panic", "detail": format!("{je}")}),
        Ok(Ok((bytes, res))) => {
            let mut v = decode_for(name, &bytes).to_json();
            v["outcome"] = json!(if res.is_ok() { "written" } else { "write_error" });
            if let Err(e) = res {
                v["detail"] = json!(e);
            }
            v["nbytes"] = json!(bytes.len());
            v
        }
    }
}

async fn mode_e2e(job: &Value, inp: &PathBuf, out: &mut std::fs::File) -> i32 {
    let eng = Arc::new(Engine::open(false).await);
    for st in job["setup"].as_array().cloned().unwrap_or_default() {
        let text = st.as_str().unwrap_or("");
        if text == "@flush_wait" {
            let _ = eng.sm.wait_for_flush_completion().await;
            continue;
        }
        let v = dispatch_with(&eng, text, "json", Arc::new(JsonRenderer)).await;
        let ok = v["status"].as_u64() == Some(200);
        if !ok {
            emit(out, json!({"id": "setup", "text": text, "json": v}));
        }
    }
    let f = std::io::BufReader::new(std::fs::File::open(inp).expect("open in"));
    for line in f.lines() {
        let line = line.unwrap();
        if line.trim().is_empty() {
            continue;
        }
        let q: Value = serde_json::from_str(&line).expect("query json");
        let text = q["text"].as_str().unwrap_or("");
        let mut o = json!({"id": q["id"].clone(), "text": text});
        o["json"] = dispatch_with(&eng, text, "json", Arc::new(JsonRenderer)).await;
        o["arrow"] = dispatch_with(&eng, text, "arrow", Arc::new(ArrowRenderer)).await;
        o["unix"] = dispatch_with(&eng, text, "unix", Arc::new(UnixRenderer)).await;
        o["json2"] = dispatch_with(&eng, text, "json", Arc::new(JsonRenderer)).await;
        emit(out, o);
    }
    0
}

// ------------------------------------------------------------------ http mode
/// One raw HTTP/1.1 POST /command against the real HTTP front end of this process.
async fn http_post(addr: &str, body: &str) -> Result<(u16, String, Vec<u8>), String> {
    use tokio::io::{AsyncReadExt, AsyncWriteExt};
    let mut s = tokio::net::TcpStream::connect(addr).await.map_err(|e| format!("connect: {e}"))?;
    let req = format!(
        "POST /command HTTP/1.1\r\nHost: {addr}\r\nAuthorization: Bearer verif-token\r\nContent-Type: text/plain\r\nContent-Length: {}\r\nConnection: close\r\n\r\n",
        body.as_bytes().len()
    );
    s.write_all(req.as_bytes()).await.map_err(|e| format!("write: {e}"))?;
    s.write_all(body.as_bytes()).await.map_err(|e| format!("write: {e}"))?;
    let mut buf = Vec::new();
    s.read_to_end(&mut buf).await.map_err(|e| format!("read: {e}"))?;
    let pos = buf.windows(4).position(|w| w == b"\r\n\r\n").ok_or("no header end")?;
    let head = String::from_utf8_lossy(&buf[..pos]).to_string();
    let mut lines = head.split("\r\n");
    let status = lines
        .next()
        .and_then(|l| l.split(' ').nth(1))
        .and_then(|c| c.parse::<u16>().ok())
        .ok_or("no status line")?;
    let mut ctype = String::new();
    let mut chunked = false;
    for l in lines {
        let ll = l.to_ascii_lowercase();
        if let Some(v) = ll.strip_prefix("content-type:") {
            ctype = v.trim().to_string();
        }
        if ll.starts_with("transfer-encoding:") && ll.contains("chunked") {
            chunked = true;
        }
    }
    let mut body = buf[pos + 4..].to_vec();
    if chunked {
        let mut out = Vec::new();
        let mut i = 0usize;
        loop {
            let Some(e) = body[i..].windows(2).position(|w| w == b"\r\n") else { break };
            let n = usize::from_str_radix(String::from_utf8_lossy(&body[i..i + e]).trim(), 16).unwrap_or(0);
            i += e + 2;
            if n == 0 || i + n > body.len() {
                break;
            }
            out.extend_from_slice(&body[i..i + n]);
            i += n + 2;
        }
        body = out;
    }
    Ok((status, ctype, body))
}

async fn mode_http(job: &Value, inp: &PathBuf, out: &mut std::fs::File) -> i32 {
    use snel_db::frontend::context::FrontendContext;
    use snel_db::frontend::http::listener::run_http_server;
    use snel_db::frontend::server_state::ServerState;
    use snel_db::shared::config::CONFIG;
    let eng = Arc::new(Engine::open(false).await);
    for st in job["setup"].as_array().cloned().unwrap_or_default() {
        let text = st.as_str().unwrap_or("");
        if text == "@flush_wait" {
            let _ = eng.sm.wait_for_flush_completion().await;
            continue;
        }
        let v = dispatch_with(&eng, text, "json", Arc::new(JsonRenderer)).await;
        if v["status"].as_u64() != Some(200) {
            emit(out, json!({"id": "setup", "text": text, "json": v}));
        }
    }
    let ctx = Arc::new(FrontendContext {
        registry: Arc::clone(&eng.registry),
        shard_manager: Arc::clone(&eng.sm),
        server_state: Arc::new(ServerState::new(Arc::clone(&eng.sm), CONFIG.server.backpressure_threshold)),
        auth_manager: None,
    });
    let ctx2 = Arc::clone(&ctx);
    let server = tokio::spawn(async move { run_http_server(ctx2).await.map_err(|e| e.to_string()) });
    let addr = CONFIG.server.http_addr.clone();
    let mut up = false;
    for _ in 0..200 {
        if tokio::net::TcpStream::connect(&addr).await.is_ok() {
            up = true;
            break;
        }
        if server.is_finished() {
            break;
        }
        tokio::time::sleep(std::time::Duration::from_millis(25)).await;
    }
    if !up {
        eprintln!("http server did not come up on {addr}");
        return 2;
    }
    let fmt = CONFIG.server.output_format.clone();
    let dec_name = match fmt.as_str() {
        "json" => "json",
        "arrow" => "arrow",
        _ => "unix",
    };
    let f = std::io::BufReader::new(std::fs::File::open(inp).expect("open in"));
    for line in f.lines() {
        let line = line.unwrap();
        if line.trim().is_empty() {
            continue;
        }
        let q: Value = serde_json::from_str(&line).expect("query json");
        let text = q["text"].as_str().unwrap_or("");
        let mut o = json!({"id": q["id"].clone(), "text": text, "format": fmt});
        match tokio::time::timeout(std::time::Duration::from_secs(60), http_post(&addr, text)).await {
            Err(_) => o["outcome"] = json!("timeout"),
            Ok(Err(e)) => {
                o["outcome"] = json!("http_error");
                o["detail"] = json!(e);
            }
            Ok(Ok((status, ctype, body))) => {
                o["outcome"] = json!("answered");
                o["http_status"] = json!(status);
                o["content_type"] = json!(ctype);
                let mut v = decode_for(dec_name, &body).to_json();
                v["outcome"] = json!("written");
                v["nbytes"] = json!(body.len());
                o["body"] = v;
            }
        }
        emit(out, o);
    }
    ctx.server_state.signal_shutdown();
    0
}

fn emit(out: &mut std::fs::File, v: Value) {
    let mut s = serde_json::to_string(&v).unwrap();
    s.push('\n');
    out.write_all(s.as_bytes()).unwrap();
}

fn main() {
    let path = std::env::args().nth(1).expect("usage: vrender job.json");
    let job = read_json(&PathBuf::from(&path));
    let root = install_config(&job["config"]);
    if job["config"].get("row_frames").and_then(|b| b.as_bool()).unwrap_or(false) {
        // install_config cannot express streaming_batch_size = 0 (one "row" frame per row)
        let p = root.join("config.toml");
        let toml = std::fs::read_to_string(&p).unwrap();
        let anchor = "zone_surf_cache_max_bytes = \"10MB\"\n";
        assert!(toml.contains(anchor), "config anchor");
        std::fs::write(&p, toml.replace(anchor, &format!("{anchor}streaming_batch_size = 0\n"))).unwrap();
    }
    if let Some(fmt) = job["config"].get("output_format").and_then(|f| f.as_str()) {
        // install_config always writes output_format = "json"
        let p = root.join("config.toml");
        let toml = std::fs::read_to_string(&p).unwrap();
        let anchor = "output_format = \"json\"\n";
        assert!(toml.contains(anchor), "config anchor");
        std::fs::write(&p, toml.replace(anchor, &format!("output_format = \"{fmt}\"\n"))).unwrap();
    }
    let out_path = job["out"].as_str().expect("job.out").to_string();
    let inp = PathBuf::from(job["in"].as_str().expect("job.in"));
    let mut out = std::fs::OpenOptions::new().create(true).write(true).truncate(true).open(&out_path).unwrap();
    if std::env::var("VERIF_SHOW_PANICS").is_err() {
        std::panic::set_hook(Box::new(|_| {}));
    }
    let rt = tokio::runtime::Builder::new_multi_thread().worker_threads(2).enable_all().build().unwrap();
    let code = match job["mode"].as_str().unwrap_or("cases") {
        "cases" => rt.block_on(mode_cases(&inp, &mut out)),
        "render" => mode_render(&inp, &mut out),
        "e2e" => rt.block_on(mode_e2e(&job, &inp, &mut out)),
        "http" => rt.block_on(mode_http(&job, &inp, &mut out)),
        o => {
            eprintln!("unknown mode {o}");
            2
        }
    };
    out.flush().unwrap();
    std::process::exit(code);
}
