//! veventid <script.json>: binds spec/EventId.tla to the real id generator (C18).
//!
//! The scripted millisecond clock (`snel_db::verif::set_clock_millis`) replaces the system
//! clock of `EventIdGenerator`.  Protocol around every generator call (one `next()` in mode
//! "gen", one STORE + mailbox barrier in mode "engine"):
//!     arm:    clock := base + t, auto step 1      (every read of the clock moves it by 1 ms)
//!     call
//!     settle: reads := clock - (base + t);  t := t + reads - 1   (undo the step of the last read)
//! A call that does not wait reads the clock once (t unchanged); a call that spins in
//! `wait_next_millis` reads it until it has passed `last` - that is "time passing while the
//! caller is blocked", and t ends at the millisecond at which the wait ended.  Nothing here
//! depends on the wall clock; no id is interpreted (ids are reported as raw u64, run-length
//! encoded as [first, n] for n consecutive values - a lossless transport encoding).
//!
//! mode "gen"   : {"mode":"gen","base":MS,"out":F,"case_timeout_ms":..,"cases":[{"id":..,"t0":..,"shards":[real ids],
//!                 "acts":[{"op":"tick","d":D}|{"op":"burst","s":IDX,"n":N}|{"op":"restart"}]}]}
//!                one output line per case: {"id":..,"obs":[{"t":..,"ids":[[first,n]..],"reads":..,"waits":..}..]}
//! mode "engine": {"mode":"engine","config":{..},"base":MS,"t":T,"out":F,"steps":[..]}  one engine lifetime,
//!                one output line per step (see `run_engine`).

use serde_json::{json, Value};
use snel_db::engine::core::EventIdGenerator;
use std::io::Write;
use std::path::PathBuf;
use std::sync::Arc;
use vharness::engine::{CmdOutcome, Engine};
use vharness::{fsproj, install_config, read_json};

struct Clock {
    base: u64,
    t: i64,
}

impl Clock {
    fn arm(&self) {
        snel_db::verif::set_clock_millis(Some((self.base as i64 + self.t) as u64), 1);
    }
    /// number of clock reads since `arm`; moves t to the value the last read returned
    fn settle(&mut self) -> u64 {
        let now = snel_db::verif::clock_millis().expect("scripted clock");
        let reads = now - (self.base as i64 + self.t) as u64;
        if reads >= 1 {
            self.t += reads as i64 - 1;
        }
        snel_db::verif::set_clock_millis(Some((self.base as i64 + self.t) as u64), 0);
        reads
    }
    fn hold(&self) {
        snel_db::verif::set_clock_millis(Some((self.base as i64 + self.t) as u64), 0);
    }
}

fn rle(ids: &[u64]) -> Vec<Value> {
    let mut out: Vec<(u64, u64)> = Vec::new();
    for &id in ids {
        match out.last_mut() {
            Some((first, n)) if first.checked_add(*n) == Some(id) => *n += 1,
            _ => out.push((id, 1)),
        }
    }
    out.into_iter().map(|(f, n)| json!([f, n])).collect()
}

fn emit(out: &mut std::fs::File, v: Value) {
    let mut s = serde_json::to_string(&v).unwrap();
    s.push('\n');
    out.write_all(s.as_bytes()).unwrap();
    out.flush().unwrap();
}

fn main() {
    let path = std::env::args().nth(1).expect("usage: veventid script.json");
    let script = read_json(&PathBuf::from(&path));
    let out_path = script["out"].as_str().expect("script.out").to_string();
    match script["mode"].as_str().unwrap_or("") {
        "gen" => std::process::exit(run_gen(script, out_path)),
        "engine" => {
            let _root = install_config(&script["config"]);
            // the clock is scripted from before the shards open (recovery may issue ids)
            let base = script["base"].as_u64().expect("base");
            let t = script["t"].as_i64().unwrap_or(0);
            Clock { base, t }.hold();
            let rt = tokio::runtime::Builder::new_multi_thread()
                .worker_threads(4)
                .enable_all()
                .build()
                .unwrap();
            if std::env::var("VERIF_SHOW_PANICS").is_err() {
                std::panic::set_hook(Box::new(|_| {}));
            }
            let code = rt.block_on(run_engine(script, out_path));
            std::process::exit(code);
        }
        m => {
            eprintln!("unknown mode {m}");
            std::process::exit(2);
        }
    }
}

// ------------------------------------------------------------------------------------------- gen
fn run_gen(script: Value, out_path: String) -> i32 {
    let mut out = std::fs::OpenOptions::new().create(true).append(true).open(&out_path).unwrap();
    let base = script["base"].as_u64().expect("base");
    let timeout = script.get("case_timeout_ms").and_then(|t| t.as_u64()).unwrap_or(60000);
    let cases = script["cases"].as_array().cloned().unwrap_or_default();
    for case in cases {
        let (tx, rx) = std::sync::mpsc::channel::<Value>();
        let progress = Arc::new(std::sync::atomic::AtomicUsize::new(0));
        let p2 = Arc::clone(&progress);
        let c2 = case.clone();
        std::thread::spawn(move || {
            let v = gen_case(&c2, base, &p2);
            let _ = tx.send(v);
        });
        match rx.recv_timeout(std::time::Duration::from_millis(timeout)) {
            Ok(v) => emit(&mut out, v),
            Err(_) => {
                // the generator did not return under a clock that moves at every read: that is data
                emit(&mut out, json!({"id": case["id"], "stalled_at": progress.load(std::sync::atomic::Ordering::SeqCst)}));
                return 4;
            }
        }
    }
    emit(&mut out, json!({"done": true}));
    0
}

fn gen_case(case: &Value, base: u64, progress: &std::sync::atomic::AtomicUsize) -> Value {
    let shards: Vec<u16> = case["shards"].as_array().unwrap().iter().map(|s| s.as_u64().unwrap() as u16).collect();
    let mut gens: Vec<EventIdGenerator> = shards.iter().map(|_| EventIdGenerator::new()).collect();
    let mut clk = Clock { base, t: case["t0"].as_i64().unwrap_or(0) };
    let mut obs = Vec::new();
    for (i, a) in case["acts"].as_array().unwrap().iter().enumerate() {
        progress.store(i, std::sync::atomic::Ordering::SeqCst);
        match a["op"].as_str().unwrap_or("") {
            "tick" => {
                clk.t += a["d"].as_i64().unwrap();
                obs.push(json!({"t": clk.t}));
            }
            "burst" => {
                let s = a["s"].as_u64().unwrap() as usize;
                let n = a["n"].as_u64().unwrap();
                let mut ids = Vec::with_capacity(n as usize);
                let (mut reads, mut waits) = (0u64, 0u64);
                for _ in 0..n {
                    clk.arm();
                    let id = gens[s].next(shards[s]);
                    let r = clk.settle();
                    reads += r;
                    if r > 1 {
                        waits += 1;
                    }
                    ids.push(id.raw());
                }
                obs.push(json!({"t": clk.t, "ids": rle(&ids), "reads": reads, "waits": waits}));
            }
            "restart" => {
                // a new process: every shard's generator is created afresh
                gens = shards.iter().map(|_| EventIdGenerator::new()).collect();
                obs.push(json!({"t": clk.t}));
            }
            other => obs.push(json!({"error": format!("unknown op {other}")})),
        }
    }
    json!({"id": case["id"], "obs": obs})
}

// ---------------------------------------------------------------------------------------- engine
async fn cmd(eng: &Arc<Engine>, text: &str, timeout_ms: u64) -> Value {
    let e2 = Arc::clone(eng);
    let t2 = text.to_string();
    let h = tokio::spawn(async move { e2.cmd(&t2).await });
    match tokio::time::timeout(std::time::Duration::from_millis(timeout_ms), h).await {
        Err(_) => json!({"outcome": "timeout"}),
        Ok(Err(je)) => json!({"outcome": "panic", "detail": format!("{je}")}),
        Ok(Ok(CmdOutcome::ParseError(e))) => json!({"outcome": "parse_error", "detail": e}),
        Ok(Ok(CmdOutcome::Panic(e))) => json!({"outcome": "panic", "detail": e}),
        Ok(Ok(CmdOutcome::Response(d))) => {
            let mut v = d.to_json();
            v["outcome"] = json!("response");
            v
        }
    }
}

/// (k, event_id) pairs of a streamed response, sorted, run-length encoded as [k, id, n]
/// (k .. k+n-1 carry id .. id+n-1).  `bad` = rows without an integer k or event_id.
fn kid_rows(resp: &Value) -> Value {
    if resp["outcome"] != "response" {
        return json!({"error": resp});
    }
    let cols: Vec<String> = resp["columns"].as_array().map(|c| c.iter().map(|x| x.as_str().unwrap_or("").to_string()).collect()).unwrap_or_default();
    let ik = cols.iter().position(|c| c == "k");
    let ie = cols.iter().position(|c| c == "event_id");
    let rows = resp["rows"].as_array().cloned().unwrap_or_default();
    let mut pairs: Vec<(u64, u64)> = Vec::new();
    let mut bad = 0u64;
    for r in &rows {
        let k = ik.and_then(|i| r.get(i)).and_then(|v| v.as_u64());
        let e = ie.and_then(|i| r.get(i)).and_then(|v| v.as_u64());
        match (k, e) {
            (Some(k), Some(e)) => pairs.push((k, e)),
            _ => bad += 1,
        }
    }
    pairs.sort();
    let mut runs: Vec<(u64, u64, u64)> = Vec::new();
    for (k, e) in pairs {
        match runs.last_mut() {
            Some((k0, e0, n)) if *k0 + *n == k && e0.checked_add(*n) == Some(e) => *n += 1,
            _ => runs.push((k, e, 1)),
        }
    }
    json!({"nrows": rows.len(), "bad": bad, "status": resp["status"], "has_id_column": ie.is_some(),
           "runs": runs.into_iter().map(|(k, e, n)| json!([k, e, n])).collect::<Vec<_>>()})
}

async fn run_engine(script: Value, out_path: String) -> i32 {
    let mut out = std::fs::OpenOptions::new().create(true).append(true).open(&out_path).unwrap();
    let base = script["base"].as_u64().expect("base");
    let mut clk = Clock { base, t: script["t"].as_i64().unwrap_or(0) };
    let eng = Arc::new(Engine::open(false).await);
    let nshards = eng.shared.len();
    emit(&mut out, json!({"i": -1, "op": "opened", "t": clk.t, "live": (0..nshards).map(|s| eng.live(s)).collect::<Vec<_>>()}));
    let steps = script["steps"].as_array().cloned().unwrap_or_default();
    let mut stored_total = 0u64; // STOREs acknowledged in this lifetime
    for (i, st) in steps.iter().enumerate() {
        let op = st["op"].as_str().unwrap_or("");
        let tag = st.get("tag").cloned().unwrap_or(Value::Null);
        match op {
            "tick" => {
                clk.t += st["d"].as_i64().unwrap_or(0);
                clk.hold();
                emit(&mut out, json!({"i": i, "op": "tick", "tag": tag, "t": clk.t}));
            }
            "cmd" => {
                let text = st["text"].as_str().unwrap_or("");
                let mut o = cmd(&eng, text, 60000).await;
                if st.get("brief").and_then(|b| b.as_bool()).unwrap_or(true) {
                    o.as_object_mut().map(|m| {
                        m.remove("rows");
                    });
                }
                o["i"] = json!(i);
                o["op"] = json!("cmd");
                o["tag"] = tag;
                o["text"] = json!(text);
                emit(&mut out, o);
            }
            "burst" => {
                // n STOREs of one context; payload k = k0 .. k0+n-1; each STORE is applied (mailbox
                // barrier) before the clock is touched again
                let ctx = st["ctx"].as_str().unwrap_or("c");
                let ty = st["type"].as_str().unwrap_or("ev");
                let k0 = st["k0"].as_u64().unwrap_or(1);
                let n = st["n"].as_u64().unwrap_or(1);
                let shard = eng.sm.get_shard(ctx).id;
                let (mut reads, mut waits, mut acked) = (0u64, 0u64, 0u64);
                let mut problem = Value::Null;
                for j in 0..n {
                    clk.arm();
                    let text = format!("STORE {ty} FOR {ctx} PAYLOAD {{\"k\": {}}}", k0 + j);
                    let o = cmd(&eng, &text, 60000).await;
                    let errs = match tokio::time::timeout(std::time::Duration::from_millis(120000), eng.sm.wait_for_flush_completion()).await {
                        Ok(e) => e,
                        Err(_) => {
                            // the shard does not answer although the clock moves at every read
                            emit(&mut out, json!({"i": i, "op": "burst", "tag": tag, "stalled_at": j, "shard": shard}));
                            std::process::exit(4);
                        }
                    };
                    let r = clk.settle();
                    reads += r;
                    if r > 1 {
                        waits += 1;
                    }
                    if o["outcome"] == "response" && o["status"] == 200 && errs.is_empty() {
                        acked += 1;
                    } else if problem.is_null() {
                        problem = json!({"k": k0 + j, "resp": o, "flush_errors": errs.iter().map(|(s, e)| json!([s, e])).collect::<Vec<_>>()});
                    }
                }
                // the WAL task is fed through a channel: wait until it has appended every acknowledged STORE of this
                // lifetime (hook "wal.appended" counts them), so that a crash step loses nothing that was applied
                stored_total += acked;
                let deadline = std::time::Instant::now() + std::time::Duration::from_secs(120);
                while snel_db::verif::count("wal.appended") < stored_total && std::time::Instant::now() < deadline {
                    tokio::time::sleep(std::time::Duration::from_millis(1)).await;
                }
                let wal_synced = snel_db::verif::count("wal.appended") >= stored_total;
                emit(&mut out, json!({"i": i, "op": "burst", "tag": tag, "t": clk.t, "shard": shard, "k0": k0, "n": n,
                                      "reads": reads, "waits": waits, "acked": acked, "problem": problem, "wal_synced": wal_synced}));
            }
            "observe" => {
                // whole-store read-back of (k, event_id): plain QUERY, QUERY RETURN [k], REPLAY per context,
                // and a point query for every k in 1..total that the plain QUERY did not return
                let ty = st["type"].as_str().unwrap_or("ev");
                let total = st["total"].as_u64().unwrap_or(0);
                let q = cmd(&eng, &format!("QUERY {ty}"), 120000).await;
                let qk = kid_rows(&q);
                let r = cmd(&eng, &format!("QUERY {ty} RETURN [k]"), 120000).await;
                let rk = kid_rows(&r);
                let mut replay = serde_json::Map::new();
                for c in st["ctxs"].as_array().cloned().unwrap_or_default() {
                    let c = c.as_str().unwrap_or("").to_string();
                    let rp = cmd(&eng, &format!("REPLAY {ty} FOR {c}"), 120000).await;
                    replay.insert(c, kid_rows(&rp));
                }
                let mut seen = std::collections::HashSet::new();
                if let Some(runs) = qk["runs"].as_array() {
                    for run in runs {
                        let (k, n) = (run[0].as_u64().unwrap(), run[2].as_u64().unwrap());
                        for x in k..k + n {
                            seen.insert(x);
                        }
                    }
                }
                let mut probes = Vec::new();
                let cap = st.get("probe_cap").and_then(|c| c.as_u64()).unwrap_or(64) as usize;
                for k in 1..=total {
                    if !seen.contains(&k) {
                        if probes.len() >= cap {
                            break;
                        }
                        let p = cmd(&eng, &format!("QUERY {ty} WHERE k = {k}"), 60000).await;
                        probes.push(json!({"k": k, "rows": kid_rows(&p)}));
                    }
                }
                emit(&mut out, json!({"i": i, "op": "observe", "tag": tag, "t": clk.t, "total": total, "query": qk, "return_k": rk,
                                      "replay": replay, "probes": probes,
                                      "live": (0..nshards).map(|s| eng.live(s)).collect::<Vec<_>>()}));
            }
            "compact" => {
                let mut results = Vec::new();
                for s in 0..nshards {
                    let e2 = Arc::clone(&eng);
                    let r = tokio::spawn(async move { e2.compact(s).await }).await;
                    results.push(match r {
                        Ok(Ok(())) => json!("ok"),
                        Ok(Err(e)) => json!({"err": e}),
                        Err(je) => json!({"panic": format!("{je}")}),
                    });
                }
                let deadline = std::time::Instant::now() + std::time::Duration::from_millis(1500);
                loop {
                    let mut pending = false;
                    for s in 0..nshards {
                        let rc = eng.data_dir.join(format!("shard-{s}")).join(".reclaim");
                        if let Ok(rd) = std::fs::read_dir(&rc) {
                            if rd.flatten().next().is_some() {
                                pending = true;
                            }
                        }
                    }
                    if !pending || std::time::Instant::now() > deadline {
                        break;
                    }
                    tokio::time::sleep(std::time::Duration::from_millis(10)).await;
                }
                emit(&mut out, json!({"i": i, "op": "compact", "tag": tag, "results": results,
                    "live": (0..nshards).map(|s| eng.live(s)).collect::<Vec<_>>()}));
            }
            "wal_drain" => {
                let mut last = usize::MAX;
                let mut stable = 0;
                for _ in 0..400 {
                    let mut n = 0usize;
                    for s in 0..nshards {
                        let w = fsproj::wal_dir(&eng.wal_dir.join(format!("shard-{s}")));
                        for (_k, v) in w.as_object().unwrap() {
                            n += v.as_array().map(|a| a.len()).unwrap_or(0);
                        }
                    }
                    if n == last {
                        stable += 1;
                        if stable >= 3 {
                            break;
                        }
                    } else {
                        stable = 0;
                        last = n;
                    }
                    tokio::time::sleep(std::time::Duration::from_millis(15)).await;
                }
                emit(&mut out, json!({"i": i, "op": "wal_drain", "lines": last}));
            }
            "flush_wait" => {
                let errs = eng.sm.wait_for_flush_completion().await;
                emit(&mut out, json!({"i": i, "op": "flush_wait", "errors": errs.len()}));
            }
            "crash" => {
                emit(&mut out, json!({"i": i, "op": "crash", "t": clk.t}));
                std::process::abort();
            }
            "shutdown" => {
                let errs = eng.shutdown().await;
                tokio::time::sleep(std::time::Duration::from_millis(50)).await;
                emit(&mut out, json!({"i": i, "op": "shutdown", "t": clk.t, "errors": errs.iter().map(|(s, e)| json!([s, e])).collect::<Vec<_>>()}));
                return 0;
            }
            other => emit(&mut out, json!({"i": i, "op": other, "error": "unknown op"})),
        }
    }
    emit(&mut out, json!({"i": steps.len(), "op": "done", "t": clk.t}));
    0
}
