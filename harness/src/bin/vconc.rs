//! vconc <cfg.json>: free-running concurrency run for C03. Several client tasks STORE events
//! (each waits for its acknowledgement) and issue reads concurrently; every read records the set
//! of events acknowledged before it was issued and the set acknowledged when it returned.

use rand::{Rng, SeedableRng};
use serde_json::{json, Value};
use std::io::Write;
use std::path::PathBuf;
use std::sync::{Arc, Mutex};
use vharness::engine::{CmdOutcome, Engine};
use vharness::{install_config, read_json};

fn main() {
    let path = std::env::args().nth(1).expect("usage: vconc cfg.json");
    let cfg = read_json(&PathBuf::from(&path));
    install_config(&cfg["config"]);
    std::panic::set_hook(Box::new(|_| {}));
    let rt = tokio::runtime::Builder::new_multi_thread()
        .worker_threads(cfg["config"].get("threads").and_then(|t| t.as_u64()).unwrap_or(8) as usize)
        .enable_all()
        .build()
        .unwrap();
    let code = rt.block_on(run(cfg));
    std::process::exit(code);
}

async fn run(cfg: Value) -> i32 {
    let out_path = cfg["out"].as_str().unwrap().to_string();
    let out = Arc::new(Mutex::new(std::fs::File::create(&out_path).unwrap()));
    let eng = Arc::new(Engine::open(false).await);
    if let CmdOutcome::Response(d) = eng.cmd("DEFINE ev FIELDS { k: \"int\", ty: \"string\" }").await {
        if d.status != 200 {
            return 2;
        }
    }
    let clients = cfg["clients"].as_u64().unwrap_or(3) as usize;
    let per = cfg["stores_per_client"].as_u64().unwrap_or(40) as usize;
    let seed = cfg["seed"].as_u64().unwrap_or(1);
    let acked: Arc<Mutex<Vec<i64>>> = Arc::new(Mutex::new(Vec::new()));
    // events whose STORE has been sent (they may already be visible although not yet acknowledged)
    let issued: Arc<Mutex<Vec<i64>>> = Arc::new(Mutex::new(Vec::new()));
    let mut hs = Vec::new();
    for c in 0..clients {
        let eng = Arc::clone(&eng);
        let acked = Arc::clone(&acked);
        let issued = Arc::clone(&issued);
        let out = Arc::clone(&out);
        hs.push(tokio::spawn(async move {
            let mut rng = rand::rngs::StdRng::seed_from_u64(seed * 31 + c as u64);
            for j in 0..per {
                let k = (c * 100000 + j + 1) as i64;
                let text = format!("STORE ev FOR c{c} PAYLOAD {{\"k\": {k}, \"ty\": \"ev\"}}");
                issued.lock().unwrap().push(k);
                match eng.cmd(&text).await {
                    CmdOutcome::Response(d) if d.status == 200 => acked.lock().unwrap().push(k),
                    other => {
                        let mut f = out.lock().unwrap();
                        let _ = writeln!(f, "{}", json!({"op": "store_failed", "k": k, "detail": format!("{other:?}").chars().take(200).collect::<String>()}));
                    }
                }
                if rng.gen_range(0..3) == 0 {
                    let kind = ["query", "count", "replay"][rng.gen_range(0..3)];
                    let before: Vec<i64> = acked.lock().unwrap().clone();
                    let text = match kind {
                        "query" => "QUERY ev".to_string(),
                        "count" => "QUERY ev WHERE ty = \"ev\" COUNT".to_string(),
                        _ => format!("REPLAY ev FOR c{c}"),
                    };
                    // number of passive buffers released before / after the read (hook counter): a read that
                    // loses rows although no buffer was released while it ran cannot be the late-passive-read finding
                    let cleared0 = snel_db::verif::count("flush.passive_cleared");
                    let written0 = snel_db::verif::count("flush.written");
                    snel_db::verif::step("client.read_begin", &format!("\"c\":{c},\"kind\":\"{kind}\",\"acked\":{}", before.len()));
                    let res = eng.cmd(&text).await;
                    snel_db::verif::step("client.read_end", &format!("\"c\":{c}"));
                    let cleared1 = snel_db::verif::count("flush.passive_cleared");
                    // a segment directory was being written at some moment of the read: a flush had started by its end
                    // that had not finished when it began
                    let started1 = snel_db::verif::count("flush.start");
                    let after: Vec<i64> = issued.lock().unwrap().clone();
                    let mut rec = json!({"op": "read", "kind": kind, "client": c, "before": before, "after": after,
                                         "released_during": cleared1 - cleared0, "writing_during": started1 > written0});
                    match res {
                        CmdOutcome::Response(d) if d.status == 200 => {
                            if kind == "count" {
                                rec["count"] = d.rows.get(0).and_then(|r| r.get(0)).cloned().unwrap_or(json!(0));
                                rec["ks"] = json!([]);
                            } else {
                                let ik = d.col("k");
                                let ks: Vec<Value> = d.rows.iter().filter_map(|r| ik.and_then(|i| r.get(i).cloned())).collect();
                                rec["ks"] = json!(ks);
                                rec["count"] = json!(-1);
                                if kind == "replay" {
                                    // REPLAY is scoped to the client's own context
                                    let own = |v: &Vec<i64>| -> Vec<i64> { v.iter().cloned().filter(|k| (*k / 100000) as usize == c).collect() };
                                    rec["before"] = json!(own(&rec["before"].as_array().unwrap().iter().map(|x| x.as_i64().unwrap()).collect()));
                                    rec["after"] = json!(own(&rec["after"].as_array().unwrap().iter().map(|x| x.as_i64().unwrap()).collect()));
                                }
                            }
                        }
                        other => {
                            rec["op"] = json!("read_failed");
                            rec["detail"] = json!(format!("{other:?}").chars().take(300).collect::<String>());
                        }
                    }
                    let mut f = out.lock().unwrap();
                    let _ = writeln!(f, "{}", rec);
                }
            }
        }));
    }
    for h in hs {
        let _ = h.await;
    }
    let mut f = out.lock().unwrap();
    let _ = writeln!(f, "{}", json!({"op": "done", "acked": acked.lock().unwrap().len()}));
    let _ = f.flush();
    0
}
