//! vdrive <script.json>: one engine lifetime. Executes the script's steps and appends one
//! observation (JSON line) per step to script.out (flushed per step, so it survives a crash).

use serde_json::{json, Value};
use std::io::Write;
use std::path::PathBuf;
use std::sync::Arc;
use vharness::engine::{CmdOutcome, Engine};
use vharness::{fsproj, install_config, read_json};

fn main() {
    let path = std::env::args().nth(1).expect("usage: vdrive script.json");
    let script = read_json(&PathBuf::from(&path));
    let _root = install_config(&script["config"]);
    if let Some(envs) = script.get("env").and_then(|e| e.as_object()) {
        for (k, v) in envs {
            unsafe { std::env::set_var(k, v.as_str().unwrap_or("")) };
        }
    }
    let out_path = script["out"].as_str().expect("script.out").to_string();
    if std::env::var("VERIF_LOG").is_ok() {
        let _ = snel_db::logging::init();
    }
    let rt = tokio::runtime::Builder::new_multi_thread()
        .worker_threads(script["config"].get("threads").and_then(|t| t.as_u64()).unwrap_or(4) as usize)
        .enable_all()
        .build()
        .unwrap();
    // silence panic messages of engine tasks unless asked
    if std::env::var("VERIF_SHOW_PANICS").is_err() {
        std::panic::set_hook(Box::new(|info| {
            if let Ok(p) = std::env::var("VERIF_PANIC_LOG") {
                if let Ok(mut f) = std::fs::OpenOptions::new().create(true).append(true).open(p) {
                    let _ = writeln!(f, "{info}");
                }
            }
        }));
    }
    let code = rt.block_on(run(script, out_path));
    std::process::exit(code);
}

fn emit(out: &mut std::fs::File, v: Value) {
    let mut s = serde_json::to_string(&v).unwrap();
    s.push('\n');
    out.write_all(s.as_bytes()).unwrap();
    out.flush().unwrap();
}

async fn run(script: Value, out_path: String) -> i32 {
    let mut out = std::fs::OpenOptions::new()
        .create(true)
        .append(true)
        .open(&out_path)
        .unwrap();
    let with_auth = script.get("auth").and_then(|a| a.as_bool()).unwrap_or(false);
    let eng = Arc::new(Engine::open(with_auth).await);
    let nshards = eng.shared.len();
    emit(&mut out, json!({"i": -1, "op": "opened", "live": (0..nshards).map(|s| eng.live(s)).collect::<Vec<_>>()}));
    let steps = script["steps"].as_array().cloned().unwrap_or_default();
    let mut bg: std::collections::HashMap<String, (String, tokio::task::JoinHandle<CmdOutcome>)> = std::collections::HashMap::new();
    for (i, st) in steps.iter().enumerate() {
        let op = st["op"].as_str().unwrap_or("");
        let tag = st.get("tag").cloned().unwrap_or(Value::Null);
        match op {
            "cmd" => {
                let text = st["text"].as_str().unwrap_or("").to_string();
                let e2 = Arc::clone(&eng);
                let t2 = text.clone();
                let h = tokio::spawn(async move { e2.cmd(&t2).await });
                let timeout = st.get("timeout_ms").and_then(|t| t.as_u64()).unwrap_or(30000);
                let res = tokio::time::timeout(std::time::Duration::from_millis(timeout), h).await;
                let obs = match res {
                    Err(_) => json!({"outcome": "timeout"}),
                    Ok(Err(je)) => json!({"outcome": "panic", "detail": format!("{je}")}),
                    Ok(Ok(CmdOutcome::ParseError(e))) => json!({"outcome": "parse_error", "detail": e}),
                    Ok(Ok(CmdOutcome::Panic(e))) => json!({"outcome": "panic", "detail": e}),
                    Ok(Ok(CmdOutcome::Response(d))) => {
                        let mut v = d.to_json();
                        v["outcome"] = json!("response");
                        v
                    }
                };
                let mut o = json!({"i": i, "op": "cmd", "tag": tag, "text": text});
                for (k, v) in obs.as_object().unwrap() {
                    o[k] = v.clone();
                }
                emit(&mut out, o);
            }
            "cmd_bg" => {
                // issue a command without waiting for its response (joined later by id)
                let text = st["text"].as_str().unwrap_or("").to_string();
                let id = st["id"].as_str().unwrap_or("bg").to_string();
                let e2 = Arc::clone(&eng);
                let t2 = text.clone();
                bg.insert(id, (text, tokio::spawn(async move { e2.cmd(&t2).await })));
            }
            "join_bg" => {
                let id = st["id"].as_str().unwrap_or("bg").to_string();
                let timeout = st.get("timeout_ms").and_then(|t| t.as_u64()).unwrap_or(30000);
                if let Some((text, h)) = bg.remove(&id) {
                    let res = tokio::time::timeout(std::time::Duration::from_millis(timeout), h).await;
                    let obs = match res {
                        Err(_) => json!({"outcome": "timeout"}),
                        Ok(Err(je)) => json!({"outcome": "panic", "detail": format!("{je}")}),
                        Ok(Ok(CmdOutcome::ParseError(e))) => json!({"outcome": "parse_error", "detail": e}),
                        Ok(Ok(CmdOutcome::Panic(e))) => json!({"outcome": "panic", "detail": e}),
                        Ok(Ok(CmdOutcome::Response(d))) => {
                            let mut v = d.to_json();
                            v["outcome"] = json!("response");
                            v
                        }
                    };
                    let mut o = json!({"i": i, "op": "join_bg", "tag": tag, "text": text});
                    for (k, v) in obs.as_object().unwrap() {
                        o[k] = v.clone();
                    }
                    emit(&mut out, o);
                } else {
                    emit(&mut out, json!({"i": i, "op": "join_bg", "tag": tag, "outcome": "unknown id"}));
                }
            }
            "drive_until" => {
                // release (and re-arm) the park point `name` whenever a task is parked there, until the hook
                // `until` has been passed n times: lets one multi-call step of the code run to its end
                let name = st["name"].as_str().unwrap_or("").to_string();
                let until = st["until"].as_str().unwrap_or("").to_string();
                let n = st.get("n").and_then(|a| a.as_u64()).unwrap_or(1);
                let ms = st.get("ms").and_then(|a| a.as_u64()).unwrap_or(5000);
                let t0 = std::time::Instant::now();
                let mut releases = 0u64;
                while snel_db::verif::count(&until) < n && (t0.elapsed().as_millis() as u64) < ms {
                    let n2 = name.clone();
                    let parked = tokio::task::spawn_blocking(move || snel_db::verif::wait_parked(&n2, 5)).await.unwrap_or(false);
                    if parked {
                        snel_db::verif::release_rearm(&name);
                        releases += 1;
                    }
                }
                let got = snel_db::verif::count(&until);
                emit(&mut out, json!({"i": i, "op": "drive_until", "name": name, "until": until, "count": got, "reached": got >= n, "releases": releases, "tag": tag}));
            }
            "wait_count" => {
                // wait until the named hook has been passed at least n times in this lifetime
                let name = st["name"].as_str().unwrap_or("").to_string();
                let n = st.get("n").and_then(|a| a.as_u64()).unwrap_or(1);
                let ms = st.get("ms").and_then(|a| a.as_u64()).unwrap_or(5000);
                let t0 = std::time::Instant::now();
                let mut got = snel_db::verif::count(&name);
                while got < n && (t0.elapsed().as_millis() as u64) < ms {
                    tokio::time::sleep(std::time::Duration::from_millis(2)).await;
                    got = snel_db::verif::count(&name);
                }
                emit(&mut out, json!({"i": i, "op": "wait_count", "name": name, "count": got, "reached": got >= n, "tag": tag}));
            }
            "compact" => {
                let shards: Vec<usize> = match st.get("shard").and_then(|s| s.as_u64()) {
                    Some(s) => vec![s as usize],
                    None => (0..nshards).collect(),
                };
                let mut results = Vec::new();
                for s in shards {
                    let e2 = Arc::clone(&eng);
                    let r = tokio::spawn(async move { e2.compact(s).await }).await;
                    results.push(match r {
                        Ok(Ok(())) => json!("ok"),
                        Ok(Err(e)) => json!({"err": e}),
                        Err(je) => json!({"panic": format!("{je}")}),
                    });
                }
                // reclaim is asynchronous: give it a moment (bounded wait for .reclaim to drain)
                let wait = st.get("reclaim_wait_ms").and_then(|t| t.as_u64()).unwrap_or(300);
                let deadline = std::time::Instant::now() + std::time::Duration::from_millis(wait);
                loop {
                    let mut pending = false;
                    for s in 0..nshards {
                        let sd = eng.data_dir.join(format!("shard-{s}"));
                        let rc = sd.join(".reclaim");
                        if let Ok(rd) = std::fs::read_dir(&rc) {
                            if rd.flatten().next().is_some() {
                                pending = true;
                            }
                        }
                        // a numeric directory that is not in the live list is a drained input
                        // whose reclaim task has not run yet
                        let live = eng.live(s);
                        if let Ok(rd) = std::fs::read_dir(&sd) {
                            for e in rd.flatten() {
                                let n = e.file_name().to_string_lossy().to_string();
                                if n.chars().all(|c| c.is_ascii_digit()) && !live.contains(&n) {
                                    pending = true;
                                }
                            }
                        }
                    }
                    if !pending || std::time::Instant::now() > deadline {
                        break;
                    }
                    tokio::time::sleep(std::time::Duration::from_millis(10)).await;
                }
                emit(&mut out, json!({"i": i, "op": "compact", "tag": tag, "results": results,
                    "live": (0..nshards).map(|s| eng.live(s)).collect::<Vec<_>>()}));
            }
            "fs" => {
                let mut shards = Vec::new();
                for s in 0..nshards {
                    let d = fsproj::shard_data(&eng.data_dir.join(format!("shard-{s}"))).await;
                    let w = fsproj::wal_dir(&eng.wal_dir.join(format!("shard-{s}")));
                    shards.push(json!({"data": d, "wal": w, "live": eng.live(s)}));
                }
                let mut uids = serde_json::Map::new();
                {
                    let reg = eng.registry.read().await;
                    for (t, _) in reg.get_all().iter() {
                        if let Some(u) = reg.get_uid(t) {
                            uids.insert(t.clone(), json!(u));
                        }
                    }
                }
                emit(&mut out, json!({"i": i, "op": "fs", "tag": tag, "shards": shards, "uids": uids}));
            }
            "sleep" => {
                let ms = st["ms"].as_u64().unwrap_or(100);
                tokio::time::sleep(std::time::Duration::from_millis(ms)).await;
                emit(&mut out, json!({"i": i, "op": "sleep"}));
            }
            "wal_drain" => {
                // wait until the number of parsable lines in all WAL files stops changing
                // (the WAL task is fed by a channel); bounded.
                let mut last = usize::MAX;
                let mut stable = 0;
                for _ in 0..200 {
                    let mut n = 0usize;
                    for s in 0..nshards {
                        let w = fsproj::wal_dir(&eng.wal_dir.join(format!("shard-{s}")));
                        for (_k, v) in w.as_object().unwrap() {
                            n += v.as_array().map(|a| a.len()).unwrap_or(0);
                        }
                    }
                    if n == last {
                        stable += 1;
                        if stable >= 3 {
                            break;
                        }
                    } else {
                        stable = 0;
                        last = n;
                    }
                    tokio::time::sleep(std::time::Duration::from_millis(15)).await;
                }
                emit(&mut out, json!({"i": i, "op": "wal_drain", "lines": last}));
            }
            "arm_crash" => {
                // crash at the (count so far + after)-th occurrence of the named step
                let at = st["at"].as_str().unwrap_or("");
                let after = st.get("after").and_then(|a| a.as_u64()).unwrap_or(1);
                let nth = snel_db::verif::count(at) + after;
                snel_db::verif::arm_crash(at, nth);
                emit(&mut out, json!({"i": i, "op": "arm_crash", "at": at, "nth": nth}));
            }
            "await_crash" => {
                let ms = st.get("ms").and_then(|a| a.as_u64()).unwrap_or(5000);
                tokio::time::sleep(std::time::Duration::from_millis(ms)).await;
                emit(&mut out, json!({"i": i, "op": "await_crash", "reached": false}));
                std::process::exit(3);
            }
            "flush_wait" => {
                let errs = eng.sm.wait_for_flush_completion().await;
                emit(&mut out, json!({"i": i, "op": "flush_wait", "errors": errs.len()}));
            }
            "park_at" => {
                for n in st["names"].as_array().cloned().unwrap_or_default() {
                    snel_db::verif::park_at(n.as_str().unwrap_or(""));
                }
            }
            "wait_parked" => {
                let name = st["name"].as_str().unwrap_or("").to_string();
                let ms = st.get("ms").and_then(|a| a.as_u64()).unwrap_or(5000);
                let n2 = name.clone();
                let ok = tokio::task::spawn_blocking(move || snel_db::verif::wait_parked(&n2, ms)).await.unwrap_or(false);
                emit(&mut out, json!({"i": i, "op": "wait_parked", "name": name, "parked": ok, "tag": tag}));
            }
            "release" => {
                let name = st["name"].as_str().unwrap_or("");
                if st.get("rearm").and_then(|a| a.as_bool()).unwrap_or(false) {
                    snel_db::verif::release_rearm(name);
                } else {
                    snel_db::verif::release(name);
                }
            }
            "clock_secs" => {
                snel_db::verif::set_clock_secs(st.get("t").and_then(|t| t.as_u64()));
            }
            "clock_millis" => {
                snel_db::verif::set_clock_millis(
                    st.get("t").and_then(|t| t.as_u64()),
                    st.get("auto_step").and_then(|t| t.as_u64()).unwrap_or(0),
                );
            }
            "crash" => {
                emit(&mut out, json!({"i": i, "op": "crash"}));
                std::process::abort();
            }
            "shutdown" => {
                let errs = eng.shutdown().await;
                // let the WAL task finish its flush_and_close
                tokio::time::sleep(std::time::Duration::from_millis(50)).await;
                emit(&mut out, json!({"i": i, "op": "shutdown", "errors": errs.iter().map(|(s, e)| json!([s, e])).collect::<Vec<_>>()}));
                return 0;
            }
            other => {
                emit(&mut out, json!({"i": i, "op": other, "error": "unknown op"}));
            }
        }
    }
    emit(&mut out, json!({"i": steps.len(), "op": "done"}));
    0
}
