//! Shared pieces of the verification harness: config generation, an in-process
//! engine ("one lifetime"), response decoding and file-system projection.

pub mod engine;
pub mod fsproj;
pub mod resp;

use serde_json::Value;
use std::path::{Path, PathBuf};

/// Write the TOML configuration for one engine lifetime and point SNELDB_CONFIG at it.
/// MUST be called before anything touches `snel_db::shared::config::CONFIG`.
pub fn install_config(cfg: &Value) -> PathBuf {
    let root = PathBuf::from(cfg["root"].as_str().expect("config.root"));
    std::fs::create_dir_all(&root).unwrap();
    let g = |k: &str, d: Value| -> Value { cfg.get(k).cloned().unwrap_or(d) };
    let fill = g("fill_factor", Value::from(2)).as_u64().unwrap();
    let epz = g("event_per_zone", Value::from(2)).as_u64().unwrap();
    let shards = g("shards", Value::from(1)).as_u64().unwrap();
    let k = g("k", Value::from(2)).as_u64().unwrap();
    let buffered = g("wal_buffered", Value::from(false)).as_bool().unwrap();
    let flush_each = g("wal_flush_each_write", Value::from(true)).as_bool().unwrap();
    let conservative = g("wal_conservative", Value::from(false)).as_bool().unwrap();
    let bypass = g("bypass_auth", Value::from(true)).as_bool().unwrap();
    let batch = g("streaming_batch_size", Value::from(0)).as_u64().unwrap();
    let tz = g("timezone", Value::from("UTC"));
    let week = g("week_start", Value::from("Mon"));
    let max_pass = g("max_inflight_passives", Value::from(8)).as_u64().unwrap();
    let tcp = g("tcp_addr", Value::from("127.0.0.1:17171"));
    let http = g("http_addr", Value::from("127.0.0.1:18085"));
    let ws = g("ws_addr", Value::from("127.0.0.1:18086"));
    let tok_exp = g("session_token_expiry_seconds", Value::from(300)).as_u64().unwrap();
    let archive_dir = cfg
        .get("archive_dir")
        .and_then(|v| v.as_str())
        .map(|s| s.to_string())
        .unwrap_or_else(|| format!("{}/wal/archived/", root.display()));
    let r = root.display();
    let mut toml = format!(
        r#"[wal]
enabled = true
fsync = false
buffered = {buffered}
buffer_size = "100KB"
dir = "{r}/wal/"
flush_each_write = {flush_each}
fsync_every_n = 1024
conservative_mode = {conservative}
archive_dir = "{archive_dir}"
compression_level = 3
compression_algorithm = "zstd"

[engine]
fill_factor = {fill}
data_dir = "{r}/cols"
index_dir = "{r}/index/"
shard_count = {shards}
event_per_zone = {epz}
compaction_interval = 100000000
sys_io_threshold = 100
sys_memory_threshold_mb = "1MB"
max_inflight_passives = {max_pass}
segments_per_merge = {k}
compaction_max_shard_concurrency = 1

[schema]
def_dir = "{r}/schema/"

[server]
socket_path = "{r}/sneldb.sock"
log_level = "error"
output_format = "json"
tcp_addr = {tcp}
http_addr = {http}
ws_addr = {ws}
auth_token = "verif-token"
backpressure_threshold = 100

[playground]
enabled = false
allow_unauthenticated = false

[auth]
bypass_auth = {bypass}
rate_limit_enabled = false
session_token_expiry_seconds = {tok_exp}
"#
    );
    if let Some(u) = cfg.get("admin_user").and_then(|v| v.as_str()) {
        toml.push_str(&format!("initial_admin_user = \"{u}\"\n"));
    }
    if let Some(u) = cfg.get("admin_key").and_then(|v| v.as_str()) {
        toml.push_str(&format!("initial_admin_key = \"{u}\"\n"));
    }
    let file_level = cfg.get("file_level").and_then(|v| v.as_str()).unwrap_or("error").to_string();
    toml.push_str(&format!(
        r#"
[logging]
log_dir = "{r}/logs"
stdout_level = "error"
file_level = "{file_level}"

[query]
zone_index_cache_max_entries = 256
column_block_cache_max_bytes = "64MB"
zone_surf_cache_max_bytes = "10MB"
"#
    ));
    if batch > 0 {
        toml.push_str(&format!("streaming_batch_size = {batch}\n"));
    }
    toml.push_str(&format!(
        r#"
[time]
timezone = {tz}
week_start = {week}
use_calendar_bucketing = true
"#
    ));
    let path = root.join("config.toml");
    std::fs::write(&path, toml).unwrap();
    // SAFETY: called at the very start of main, before any thread is spawned.
    unsafe {
        std::env::set_var("SNELDB_CONFIG", path.to_str().unwrap());
    }
    root
}

pub fn read_json(path: &Path) -> Value {
    let s = std::fs::read_to_string(path).unwrap_or_else(|e| panic!("read {path:?}: {e}"));
    serde_json::from_str(&s).unwrap_or_else(|e| panic!("parse {path:?}: {e}"))
}
