//! One in-process engine lifetime built from the crate's public pieces.

use crate::resp::{decode_json_stream, Decoded};
use snel_db::command::dispatcher::dispatch_command;
use snel_db::command::parser::command::parse_command;
use snel_db::engine::auth::AuthManager;
use snel_db::engine::core::compaction::compaction_worker::CompactionWorker;
use snel_db::engine::core::compaction::handover::CompactionHandover;
use snel_db::engine::schema::SchemaRegistry;
use snel_db::engine::shard::manager::ShardManager;
use snel_db::engine::shard::types::{Shard, ShardSharedState};
use snel_db::shared::config::CONFIG;
use snel_db::shared::response::JsonRenderer;
use std::path::PathBuf;
use std::sync::Arc;
use tokio::sync::RwLock;

pub struct Engine {
    pub sm: Arc<ShardManager>,
    pub shared: Vec<ShardSharedState>,
    pub registry: Arc<RwLock<SchemaRegistry>>,
    pub auth: Option<Arc<AuthManager>>,
    pub data_dir: PathBuf,
    pub wal_dir: PathBuf,
}

#[derive(Debug)]
pub enum CmdOutcome {
    ParseError(String),
    Response(Decoded),
    Panic(String),
}

impl Engine {
    pub async fn open(with_auth: bool) -> Self {
        let n = CONFIG.engine.shard_count;
        let data_dir = std::path::absolute(PathBuf::from(&CONFIG.engine.data_dir)).unwrap();
        let wal_dir = std::path::absolute(PathBuf::from(&CONFIG.wal.dir)).unwrap();
        let registry = Arc::new(RwLock::new(
            SchemaRegistry::new().expect("schema registry"),
        ));
        let mut shards = Vec::new();
        let mut shared = Vec::new();
        for id in 0..n {
            let (s, st) = Shard::spawn(
                id,
                data_dir.join(format!("shard-{id}")),
                wal_dir.join(format!("shard-{id}")),
            )
            .await;
            shards.push(s);
            shared.push(st);
        }
        let sm = Arc::new(ShardManager { shards });
        let auth = if with_auth {
            let a = Arc::new(AuthManager::new(Arc::clone(&sm)));
            let _ = a.load_from_db().await;
            let _ = a.bootstrap_admin_user().await;
            let _ = a.load_from_db().await;
            Some(a)
        } else {
            None
        };
        Engine {
            sm,
            shared,
            registry,
            auth,
            data_dir,
            wal_dir,
        }
    }

    /// Parse + dispatch one text command; returns the raw bytes written.
    pub async fn cmd_raw(&self, text: &str, user: Option<&str>) -> Result<Vec<u8>, String> {
        let cmd = parse_command(text).map_err(|e| format!("{e:?}"))?;
        let mut out: Vec<u8> = Vec::new();
        dispatch_command(
            &cmd,
            &mut out,
            &self.sm,
            &self.registry,
            self.auth.as_ref(),
            user,
            &JsonRenderer,
        )
        .await
        .map_err(|e| format!("io: {e}"))?;
        Ok(out)
    }

    pub async fn cmd(&self, text: &str) -> CmdOutcome {
        match self.cmd_raw(text, None).await {
            Err(e) => CmdOutcome::ParseError(e),
            Ok(bytes) => CmdOutcome::Response(decode_json_stream(&bytes)),
        }
    }

    /// Run one compaction round on a shard, synchronously, with the shard's own list and lock.
    pub async fn compact(&self, shard: usize) -> Result<(), String> {
        let dir = self.data_dir.join(format!("shard-{shard}"));
        let st = &self.shared[shard];
        let handover = Arc::new(CompactionHandover::new(
            shard as u32,
            dir.clone(),
            Arc::clone(&st.segment_ids),
            Arc::clone(&st.flush_lock),
        ));
        let w = CompactionWorker::new(shard as u32, dir, Arc::clone(&self.registry), handover);
        w.run().await.map_err(|e| format!("{e:?}"))
    }

    pub fn live(&self, shard: usize) -> Vec<String> {
        self.shared[shard].segment_ids.read().unwrap().clone()
    }

    /// Graceful shutdown as `frontend::start_all` does it.
    pub async fn shutdown(&self) -> Vec<(usize, String)> {
        let mut errs = self.sm.flush_all(Arc::clone(&self.registry)).await;
        errs.extend(self.sm.shutdown_all().await);
        errs
    }
}
