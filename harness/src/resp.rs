//! Decoding of what `dispatch_command` writes with the JSON renderer:
//! either one JSON object line (status/message/results) or a stream of
//! schema / batch|row / end frames.

use serde_json::{json, Value};

#[derive(Debug, Clone, Default)]
pub struct Decoded {
    pub status: u16,
    pub message: String,
    /// column names (streamed or table responses)
    pub columns: Vec<String>,
    pub types: Vec<String>,
    /// rows as arrays aligned with `columns`
    pub rows: Vec<Vec<Value>>,
    /// non-table results (lines / scalars)
    pub results: Vec<Value>,
    pub announced: Option<u64>,
    pub frames: usize,
    pub malformed: Vec<String>,
}

impl Decoded {
    pub fn col(&self, name: &str) -> Option<usize> {
        self.columns.iter().position(|c| c == name)
    }
    pub fn column_values(&self, name: &str) -> Option<Vec<Value>> {
        let i = self.col(name)?;
        Some(self.rows.iter().map(|r| r.get(i).cloned().unwrap_or(Value::Null)).collect())
    }
    pub fn to_json(&self) -> Value {
        json!({
            "status": self.status, "message": self.message, "columns": self.columns,
            "types": self.types, "rows": self.rows, "results": self.results,
            "announced": self.announced, "malformed": self.malformed,
        })
    }
}

pub fn decode_json_stream(bytes: &[u8]) -> Decoded {
    let mut d = Decoded::default();
    let text = String::from_utf8_lossy(bytes);
    let mut saw_frame = false;
    for line in text.lines() {
        if line.trim().is_empty() {
            continue;
        }
        let v: Value = match serde_json::from_str(line) {
            Ok(v) => v,
            Err(e) => {
                d.malformed.push(format!("{e}: {line}"));
                continue;
            }
        };
        d.frames += 1;
        match v.get("type").and_then(|t| t.as_str()) {
            Some("schema") => {
                saw_frame = true;
                d.status = 200;
                if let Some(cols) = v.get("columns").and_then(|c| c.as_array()) {
                    for c in cols {
                        d.columns.push(c["name"].as_str().unwrap_or("").to_string());
                        d.types.push(
                            c.get("logical_type")
                                .or_else(|| c.get("type"))
                                .and_then(|t| t.as_str())
                                .unwrap_or("")
                                .to_string(),
                        );
                    }
                }
            }
            Some("batch") => {
                saw_frame = true;
                if let Some(rows) = v.get("rows").and_then(|r| r.as_array()) {
                    for r in rows {
                        d.rows.push(r.as_array().cloned().unwrap_or_default());
                    }
                }
            }
            Some("row") => {
                saw_frame = true;
                if let Some(obj) = v.get("values").and_then(|r| r.as_object()) {
                    let row: Vec<Value> = d
                        .columns
                        .iter()
                        .map(|c| obj.get(c).cloned().unwrap_or(Value::Null))
                        .collect();
                    d.rows.push(row);
                }
            }
            Some("end") => {
                saw_frame = true;
                d.announced = v.get("row_count").and_then(|n| n.as_u64());
            }
            _ => {
                // plain response object
                if let Some(s) = v.get("status").and_then(|s| s.as_u64()) {
                    if !saw_frame || s != 200 {
                        d.status = s as u16;
                    }
                    d.message = v
                        .get("message")
                        .and_then(|m| m.as_str())
                        .unwrap_or("")
                        .to_string();
                    if let Some(res) = v.get("results").and_then(|r| r.as_array()) {
                        for r in res {
                            if let (Some(cols), Some(rows)) = (
                                r.get("columns").and_then(|c| c.as_array()),
                                r.get("rows").and_then(|c| c.as_array()),
                            ) {
                                for c in cols {
                                    d.columns.push(c["name"].as_str().unwrap_or("").to_string());
                                    d.types.push(c["type"].as_str().unwrap_or("").to_string());
                                }
                                for row in rows {
                                    d.rows.push(row.as_array().cloned().unwrap_or_default());
                                }
                            } else {
                                d.results.push(r.clone());
                            }
                        }
                    }
                } else {
                    d.malformed.push(format!("unrecognised: {line}"));
                }
            }
        }
    }
    d
}
