"""C17 - parsing and dispatch are total; the parser preserves structure.

Stage M: TLC proves on spec/Parser.tla, for every expression tree of the bound (2776 shapes x atom pools), that the
         reference parser inverts both printers (minimal and full parentheses) and that removing any parenthesis
         pair the minimal printer emits changes the result (so the cases exercise NOT > AND > OR and associativity).
Stage R: TLC (spec/ParserGen.tla) enumerates command trees of every command kind with the token sequence that prints
         them and the command the parser must return; the runner renders the tokens in several keyword-case /
         white-space styles, the real parse_command parses them (harness vparse, overflow-checked build, one thread per
         parse with a tokio-worker-sized stack, catch_unwind, watchdog), the serde_json of the returned Command is
         decoded into the specification's shapes and compared for equality.  Every returned command is dispatched on
         an in-process engine holding data in memory and on disk; a response must be produced and no task may panic.
Stage T: random token sequences in WHERE position (well-formed, redundantly parenthesised, token-level mutations) and
         strings drawn from the mutation classes (truncate, unbalance, numeral overflow, nesting, non-ASCII, keyword-
         like identifiers, ...) are run on the real code; the recorded executions are judged by TLC with
         spec/ParserTrace.tla (same tree as the reference parser / both reject; outcome in {ok, err}; dispatch total).
"""
import json
import random
import re
import time
from collections import Counter

from vlib import core, parser

PROP = "C17"
ALT_STYLES = [("lower", "normal"), ("mixed", "normal"), ("upper", "tight"), ("lower", "wide"), ("mixed", "tight")]
SETUP = [
    'DEFINE ev FIELDS { k: "int", s: "string", f: "float", b: "bool", a: "int", c: "int", e: "float", flag: "bool", '
    'u: "string", country: "string", plan: "string", user_id: "string", created_at: "datetime" }',
    'DEFINE b FIELDS { k: "int", s: "string", user_id: "string" }',
    'DEFINE c2 FIELDS { k: "int", user_id: "string" }',
    'DEFINE page_view FIELDS { k: "int", user_id: "string" }',
    'STORE ev FOR ctx-1 PAYLOAD {"k":1,"s":"x","f":1.5,"b":true,"a":1,"c":1,"e":0.5,"flag":true,"u":"u1","country":"NL","plan":"free","user_id":"p1","created_at":"2025-01-02T03:04:05Z"}',
    'STORE ev FOR "ctx 2" PAYLOAD {"k":2,"s":"x y","f":2.5,"b":false,"a":2,"c":-3,"e":2.5,"flag":false,"u":"u2","country":"FR","plan":"pro","user_id":"p2","created_at":"2025-01-03T03:04:05Z"}',
    'STORE b FOR ctx-1 PAYLOAD {"k":1,"s":"x","user_id":"p1"}',
    'STORE c2 FOR ctx-1 PAYLOAD {"k":1,"user_id":"p1"}',
    'STORE page_view FOR ctx-1 PAYLOAD {"k":1,"user_id":"p1"}',
    'FLUSH',
    'STORE ev FOR ctx-1 PAYLOAD {"k":3,"s":"z","f":3.5,"b":true,"a":1,"c":2,"e":9.5,"flag":true,"u":"u1","country":"NL","plan":"pro","user_id":"p1","created_at":"2025-02-02T03:04:05Z"}',
    'STORE b FOR "ctx 2" PAYLOAD {"k":2,"s":"y","user_id":"p2"}',
    'REMEMBER QUERY ev WHERE k > 1 AS m1',
]
ENGINE_CFG = {"fill_factor": 8, "event_per_zone": 8, "shards": 2}

# ------------------------------------------------------------------ signatures of the listed findings
F_UNWRAP = "C17-numeric-literal-unwrap"
F_PAREN = "C17-paren-nesting-exponential"
F_STACK = "C17-deep-nesting-stack-overflow"
F_BATCH_DISPATCH = "C17-batch-dispatch-unreachable"
F_BATCH_LOSSY = "C17-batch-retokenize-lossy"
F_STORE_BRACE = "C17-store-brace-in-string"
F_KWPREFIX = "C17-keyword-prefix-identifier"
F_U32 = "C17-u32-literal-silently-altered"
F_FLOW = "C17-flowmetrics-pending-overflow"
F_NOT_EMPTY = "C17-not-over-unsupported-compare-index-panic"
F_BRACE_EXP = "C17-store-unclosed-brace-exponential"

_CLAUSE_KW = "per|by|using|since|limit|offset|order|return|linked|where|for|followed|preceded"
_KWPREFIX_RES = [
    re.compile(r"(?:\b(?:where|filter|and|or|not)\b|\()\s*not[_\-0-9]", re.I),
    re.compile(r"\b(?:count|unique|total|avg|min|max)\s+(?:%s)[_\-0-9]" % _CLAUSE_KW, re.I),
    re.compile(r"^\s*replay\s+for[_\-0-9]", re.I),
]


def max_paren_nest(text):
    d = m = 0
    for ch in text:
        if ch == "(":
            d += 1
            m = max(m, d)
        elif ch == ")":
            d = max(0, d - 1)
    return m


def sig_nontotal_parse(text, r):
    oc = r["outcome"]
    if oc == "panic":
        m = r.get("panic", "")
        if "src/command/parser/commands/query.rs" in m and ("ParseIntError" in m or "`Option::unwrap()` on a `None` value" in m) \
                and re.search(r"-?\d", text):
            return [F_UNWRAP]
    if oc == "timeout" and max_paren_nest(text) >= 9:
        return [F_PAREN]
    if oc == "timeout" and re.match(r"\s*store\b", text, re.I) and text.count("{") - text.count("}") >= 25:
        return [F_BRACE_EXP]
    if oc == "abort" and r.get("rc") in (-6, -11, 134, 139) and \
            (len(re.findall(r"\bnot\b", text, re.I)) >= 2000 or text.count("{") >= 2000 or text.count("[") >= 2000 or text.count("(") >= 2000):
        return [F_STACK]
    return []


def sig_dispatch(r):
    d = r.get("dispatch") or {}
    tp = d.get("task_panics") or []
    kind = r.get("command_kind") or (next(iter(r["command"])) if isinstance(r.get("command"), dict) else r.get("command"))
    if d.get("outcome") == "panic" and kind == "Batch" and tp and all("command/dispatcher.rs" in p and "unreachable" in p for p in tp):
        return [F_BATCH_DISPATCH]
    if d.get("outcome") != "response" or not tp:
        return []
    ids = set()
    for p in tp:       # a response was produced, but tasks of the dispatch panicked: every panic must be a listed one
        if "read/flow/metrics.rs" in p and "attempt to add with overflow" in p:
            ids.add(F_FLOW)
        elif "filter/condition.rs" in p and "index out of bounds: the len is 0 but the index is 0" in p and kind in ("Query", "Compare", "RememberQuery", None):
            ids.add(F_NOT_EMPTY)
        else:
            return []
    return sorted(ids)


def sig_roundtrip(case, text, why):
    fam = case["fam"]
    toks = case["toks"]
    if fam == "batch":
        inner = toks[2:-1]
        def _big(t):
            # BATCH re-tokenises its inner commands through f64: integers beyond 2^53 are altered
            try:
                return t["k"] == "num" and "." not in t["s"] and abs(int(t["s"])) > 2 ** 53
            except ValueError:
                return False
        lossy = (any(t["k"] in ("lp", "lb", "fld") for t in inner) or any(_big(t) for t in inner)
                 or any(t["k"] == "raw" and t["s"] in ("p_escaped", "p_bigint") for t in inner))
        return [F_BATCH_LOSSY] if lossy else []
    if fam == "store" and why == "rejected" and any(t["k"] == "raw" and t["s"] in ("p_brace_in_string", "p_open_brace_in_string") for t in toks):
        return [F_STORE_BRACE]
    if fam == "numeral" and why == "accepted-unrepresentable" and toks[0]["w"] in ("PLOT", "DEFINE"):
        return [F_U32]
    if fam in ("kwident", "replay") and any(rx.search(text) for rx in _KWPREFIX_RES):
        return [F_KWPREFIX]
    return []


# ------------------------------------------------------------------ stages
def stage_m(chk, tier):
    cfg = "Parser_m_quick.cfg" if tier == "quick" else "Parser_m.cfg"
    r = core.tlc("Parser", cfg, workers=8, coverage=False, xss=True, timeout=900)
    core.tlc_ok(r, f"Parser/{cfg}")
    if r.distinct < 2776:
        raise core.ToolError(f"Stage M enumerated only {r.distinct} trees")
    # anti-vacuity: within the bound the minimal printer does have to emit parentheses (the claim "none needed" must fail)
    v = core.tlc("Parser", "Parser_m_vac.cfg", workers=4, xss=True, timeout=600)
    if v.violated != "InvNoParenNeeded":
        core.log(v.out[-3000:])
        raise core.ToolError("Stage M sanity: InvNoParenNeeded should be violated (the printer never emitted a parenthesis?)")
    chk.cov["stage_m"] = {"trees": r.distinct, "invariants": ["InvRoundTrip", "InvMinimal"], "expected_violation": "InvNoParenNeeded",
                          "wall_s": round(r.wall + v.wall, 1)}
    return r


def stage_gen(chk, tier):
    cfg = "ParserGen_quick.cfg" if tier == "quick" else "ParserGen_thorough.cfg"
    r = core.tlc("ParserGen", cfg, workers=8, xss=True, timeout=1200, mem="6g")
    core.tlc_ok(r, f"ParserGen/{cfg}")
    cases = r.printed("CASE")
    if len(cases) != r.distinct or not cases:
        raise core.ToolError(f"ParserGen printed {len(cases)} cases for {r.distinct} states")
    cases.sort(key=lambda c: json.dumps(c, sort_keys=True))
    chk.cov["stage_gen"] = {"cases": len(cases), "by_family": dict(Counter(c["fam"] for c in cases)), "wall_s": round(r.wall, 1)}
    return r, cases


def render_cases(cases):
    inputs = []
    for i, c in enumerate(cases):
        styles = [("upper", "normal"), ALT_STYLES[i % len(ALT_STYLES)]]
        for n, st in enumerate(styles):
            if c["fam"] == "remember" and st[1] != "normal":
                st = (st[0], "normal")       # REMEMBER ... AS is found by its surrounding blanks; white space is not the property
            disp = n == 0 and (c["fam"] != "expr" or i % 8 == 0)
            inputs.append({"id": [i, list(st)], "text": parser.render(c["toks"], *st), "dispatch": disp})
    return inputs


def judge_dispatch(chk, r, text, replay, stats):
    d = r.get("dispatch")
    if not d:
        return
    stats["dispatched"] += 1
    tp = d.get("task_panics") or []
    if d.get("outcome") == "response" and not tp:
        stats["dispatch_total"] += 1
        stats["status_%s" % d.get("status")] += 1
        return
    what = f"dispatch of {text[:160]!r}: outcome={d.get('outcome')} task_panics={tp[:2]} {d.get('detail', '')[:120]}"
    chk.classify(sig_dispatch(r), what, replay)


def stage_r(chk, bindir, cases, stats):
    inputs = render_cases(cases)
    t0 = time.time()
    res, setup_obs, restarts = parser.run_vparse(bindir, inputs, root=core.WORK / "c17" / "r", dispatch=True, setup=SETUP, auth=True,
                                                 user="bypass", config=ENGINE_CFG)
    for s in setup_obs:
        d = s.get("dispatch")
        if d is not None and (d.get("outcome") != "response" or d.get("status") != 200):
            raise core.ToolError(f"engine set-up step failed: {s}")
    chk.cov["stage_r_wall_s"] = round(time.time() - t0, 1)
    nontrivial = set()
    for inp, r in zip(inputs, res):
        i, st = inp["id"]
        c = cases[i]
        e = c["exp"]
        text = inp["text"]
        replay = {"stage": "R", "text": text, "case": c, "style": st, "observed": {k: r.get(k) for k in ("outcome", "error", "panic", "command", "dispatch", "rc")}}
        stats["evaluations"] += 1
        why = None
        if r["outcome"] not in ("ok", "err"):
            if e["kind"] in ("total", "err"):
                stats["numeral_nontotal"] += 1
            chk.classify(sig_nontotal_parse(text, r), f"parse of {text[:160]!r} is not total: {r['outcome']} {r.get('panic', '')[:160]}", replay)
            continue
        if e["kind"] == "exact":
            want = parser.concretise_expected(e["cmd"])
            if r["outcome"] == "err":
                why = "rejected"
            else:
                got = parser.dec_cmd(r["command"])
                if got != want:
                    why = "different"
                    replay["decoded"] = got
                    replay["expected"] = want
            if len(c["toks"]) > 3:
                nontrivial.add(i)
        elif e["kind"] == "err" and r["outcome"] == "ok":
            why = "accepted-unrepresentable"
        elif e["kind"] == "ok" and (r["outcome"] != "ok" or next(iter(r["command"])) not in e["variants"]):
            why = "rejected"
        if why:
            what = {"rejected": "a well-formed command is refused", "different": "the parser returns a different command than was printed",
                    "accepted-unrepresentable": "a numeral the target type cannot hold yields a command with another number"}[why]
            chk.classify(sig_roundtrip(c, text, why), f"{what}: {text[:160]!r} -> {(r.get('error') or json.dumps(replay.get('decoded')))[:200]}", replay)
        else:
            stats["roundtrip_ok"] += 1
            stats["style_%s_%s" % tuple(st)] += 1
        if r["outcome"] == "ok":
            judge_dispatch(chk, r, text, replay, stats)
    stats["distinct_nontrivial"] = len(nontrivial)
    # base corpus for the mutation classes: the canonical rendering of a spread of cases
    bases = [inp["text"] for inp in inputs if inp["id"][1] == ["upper", "normal"] and len(inp["text"]) < 400]
    return bases, restarts


def stage_t(chk, bindir, bases, tier, stats):
    rnd = random.Random(core.seed())
    q = tier == "quick"
    tokrecs = parser.gen_tokexpr(rnd, 2800 if q else 42000)
    fams = Counter(b.split(" ", 1)[0] for b in bases)
    # a base corpus with every command kind represented
    by_kw = {}
    for b in bases:
        by_kw.setdefault(b.split(" ", 1)[0], []).append(b)
    corpus = []
    for kw in sorted(by_kw):
        xs = by_kw[kw]
        corpus += [xs[i] for i in sorted(rnd.sample(range(len(xs)), min(len(xs), 40 if q else 300)))]
    muts = parser.gen_mutations(rnd, corpus, 8 if q else 100)
    inputs = []
    for i, t in enumerate(tokrecs):
        inputs.append({"id": i, "text": "QUERY ev WHERE " + parser.render_own(t["toks"], rnd), "dispatch": i % 3 == 0})
    for j, (cls, text, js) in enumerate(muts):
        inputs.append({"id": len(tokrecs) + j, "text": text, "json": js, "want_command": False, "dispatch": True})
    t0 = time.time()
    res, setup_obs, restarts = parser.run_vparse(bindir, inputs, root=core.WORK / "c17" / "t", dispatch=True, setup=SETUP, auth=True,
                                                 user="bypass", config=ENGINE_CFG)
    # the shapes known to hang / to kill the process: one input each, short watchdog
    probes = parser.known_probes()
    pin = [{"id": k, "text": t, "json": js, "want_command": False} for k, (cls, t, js) in enumerate(probes)]
    pres, _, prest = parser.run_vparse(bindir, pin, root=core.WORK / "c17" / "tp", dispatch=False, parse_timeout_ms=4000)
    chk.cov["stage_t_wall_s"] = round(time.time() - t0, 1)
    trace = core.WORK / "c17" / "trace.ndjson"
    lines = []
    meta = []
    for i, t in enumerate(tokrecs):
        r = res[i]
        rec = {"fam": "tokexpr", "cls": t["cls"], "toks": t["toks"], "outcome": r["outcome"], "disp": "none", "tp": 0}
        if r["outcome"] == "ok":
            got = parser.dec_cmd(r["command"])
            w = got.get("where_clause")
            rec["tree"] = w if (w is not None and set(got) == {"cmd", "event_type", "where_clause"} and got["cmd"] == "Query") else {"n": "not-a-plain-where", "got": json.dumps(got)[:300]}
            if r.get("dispatch"):
                rec["disp"] = r["dispatch"]["outcome"]
                rec["tp"] = len(r["dispatch"].get("task_panics") or [])
        lines.append(rec)
        meta.append((inputs[i]["text"], r))
    for j, (cls, text, js) in enumerate(muts):
        r = res[len(tokrecs) + j]
        d = r.get("dispatch")
        lines.append({"fam": "total", "cls": cls, "outcome": r["outcome"], "disp": d["outcome"] if d else "none", "tp": len(d.get("task_panics") or []) if d else 0})
        meta.append((text, r))
    for k, (cls, text, js) in enumerate(probes):
        r = pres[k]
        lines.append({"fam": "total", "cls": cls, "outcome": r["outcome"], "disp": "none", "tp": 0})
        meta.append((text, r))
    trace.write_text("".join(json.dumps(x) + "\n" for x in lines))
    tr = core.tlc("ParserTrace", "ParserTrace.cfg", workers=8, xss=True, timeout=1500, mem="6g", env={"TRACE": str(trace)})
    core.tlc_ok(tr, "ParserTrace")
    if tr.distinct != len(lines):
        raise core.ToolError(f"ParserTrace judged {tr.distinct} of {len(lines)} records")
    st = tr.printed("STATS")
    if not st or st[0]["n"] != len(lines):
        raise core.ToolError("ParserTrace printed no STATS")
    st = st[0]
    missing = [c for c, n in st["classes"].items() if n == 0]
    if missing:
        raise core.ToolError(f"mutation classes without any record: {missing}")
    if st["ref_accepts"] < 100 or st["ref_rejects"] < 100 or st["accepted"] < 100 or st["refused"] < 100:
        raise core.ToolError(f"trace is lopsided: {st}")
    chk.cov["stage_t"] = {k: st[k] for k in ("n", "accepted", "refused", "dispatched", "ref_accepts", "ref_rejects")}
    chk.cov["stage_t"]["classes"] = st["classes"]
    chk.cov["stage_t"]["wall_tlc_s"] = round(tr.wall, 1)
    stats["traces"] = len(lines)
    bad = tr.printed("BAD")
    stats["trace_bad"] = len(bad)
    for b in sorted(bad, key=lambda x: x["i"]):
        idx = b["i"] - 1
        text, r = meta[idx]
        rec = lines[idx]
        replay = {"stage": "T", "why": b["why"], "text": text if len(text) < 2000 else text[:300] + f"...<{len(text)} chars>...", "record": {k: v for k, v in rec.items() if k != "toks"},
                  "toks": rec.get("toks"), "observed": {k: r.get(k) for k in ("outcome", "error", "panic", "dispatch", "rc")}}
        if b["why"] == "nontotal-parse":
            ids = sig_nontotal_parse(text, r)
            what = f"parse of {text[:120]!r} ({rec['cls']}) is not total: {r['outcome']} {r.get('panic', '')[:140]}"
        elif b["why"] == "nontotal-dispatch":
            ids = sig_dispatch(r)
            what = f"dispatch of {text[:120]!r} ({rec['cls']}): {json.dumps(r.get('dispatch'))[:200]}"
        else:
            ids = []
            what = f"{b['why']}: {text[:160]!r} real={r['outcome']} {json.dumps(rec.get('tree'))[:200]}"
        chk.classify(ids, what, replay)
    return tr, restarts + prest


def run(tier):
    chk = core.Check(PROP, "model_checking", tier)
    bindir = core.build_harness(("vparse",), profile="checked")
    stats = Counter()
    rm = stage_m(chk, tier)
    rg, cases = stage_gen(chk, tier)
    bases, restarts_r = stage_r(chk, bindir, cases, stats)
    rt, restarts_t = stage_t(chk, bindir, bases, tier, stats)
    chk.cov["states"] = rm.distinct + rg.distinct + rt.distinct
    chk.cov["transitions"] = rm.generated + rg.generated + rt.generated
    chk.cov["traces_validated_against_impl"] = stats["traces"]
    chk.cov["evaluations"] = stats["evaluations"] + stats["traces"]
    chk.cov["distinct_nontrivial"] = stats["distinct_nontrivial"]
    chk.cov["rule"] = ("one evaluation = one input string run through the real parse_command (and dispatch_command when a command came back) "
                       "and compared with the TLA+ expectation: Stage R compares the decoded Command with the tree TLC printed for the case, "
                       "Stage T is judged by TLC (ParserTrace); non-trivial = a TLC-enumerated case with an exact expected command of more than 3 tokens")
    chk.cov["counts"] = {k: v for k, v in sorted(stats.items())}
    chk.cov["process_restarts"] = {"stage_r": restarts_r, "stage_t": restarts_t}
    for i in (0, len(cases) // 3, 2 * len(cases) // 3):
        chk.sample({"text": parser.render(cases[i]["toks"]), "expected": cases[i]["exp"]})
    chk.assumptions += [
        "totality is explored over spec-derived strings and the listed mutation classes, not over all byte strings",
        "harness built with overflow-checks on (profile checked); each parse on a 2 MiB thread stack (tokio worker default), 20 s watchdog",
        "dispatch runs with an auth manager and the bypass user on a 2-shard engine holding flushed and unflushed events",
        "string values containing a double quote cannot be printed in the query grammar and are outside the enumerated trees",
        "PlotQL TOP / VS / BREAKDOWN / OVER: only variant and dispatch totality are checked, the translation is not restated",
    ]
    chk.cov["level_note"] = "model_checking for structure and dispatch totality over the enumerated trees; exploration for totality over arbitrary strings"
    return chk.finish()


def replay(path):
    d = json.load(open(path))
    rp = d["replay"]
    bindir = core.build_harness(("vparse",), profile="checked")
    text = rp.get("text")
    if text is None or "...<" in text:
        print("replay file carries a truncated text; regenerate with the same VERIF_SEED")
        return 2
    js = text.lstrip().startswith(("{", "[")) and rp.get("record", {}).get("cls") == "json-entry"
    res, so, _ = parser.run_vparse(bindir, [{"id": 0, "text": text, "json": js}], root=core.WORK / "c17" / "replay", dispatch=True, setup=SETUP,
                                   auth=True, user="bypass", config=ENGINE_CFG, parse_timeout_ms=20000)
    r = res[0]
    print(json.dumps({"text": text, "outcome": r["outcome"], "error": r.get("error"), "panic": r.get("panic"),
                      "decoded": parser.dec_cmd(r["command"]) if r.get("command") is not None else None,
                      "expected": rp.get("expected") or (rp.get("case") or {}).get("exp"), "dispatch": r.get("dispatch")}, indent=1))
    return 0
