"""C03 - reads see every applied write exactly once at every stage of its flush.

Stage M: TLC checks ReadExactlyOnce on spec/FlushRead.tla - writer, flush worker (receive, write,
         publish, clear passive, clean WAL, drop in-flight marker) and a reader whose steps are
         taken where the code takes them - for ALL interleavings of reader and flush steps with
         overlapping rotations (design parameterisation must hold; the as-built one documents the
         open findings).
Stage R: TLC (FlushReadGen, as-built, atomic reader) generates schedules "flush worker parked at
         step X of rotation i, n further rotations queued, read now"; the harness forces each on
         the real engine by parking the flush worker at the cfg-gated hooks and issues QUERY,
         COUNT and REPLAY at that moment.  Every read is compared with the property (every event
         applied before the read, exactly once; COUNT = distinct events of the selection) and
         with the as-built model's prediction.
Stage R2: TLC (FlushReadGenR, as-built, reader NOT atomic) generates schedules in which the reader's own
         steps - mailbox snapshot, segment listing + segment reads, lock of each snapshotted passive
         buffer, end - interleave with stores and with every step of the flush worker; the harness forces
         them with the reader hooks (read.mailbox_done, read.seglist_begin, read.segments_done,
         read.passive, read.passive_done) and judges the response of the read (issued in the background,
         joined at its end) against the property and the as-built model.
Stage T: several client tasks STORE and read concurrently against a real engine with capacity 2
         (rotations overlap constantly, nothing parked); every read is recorded with the set of
         events acknowledged before it began and when it ended, and re-judged by TLC
         (FlushReadTrace)."""
import json
import random
import shutil
from collections import Counter

from vlib import core

PROP = "C03"
PARTIAL_POINTS = ["zonewriter.zones_written", "zonewriter.columns_written"]   # inside the flusher: the directory exists, incomplete
HOOKS = ["flush.start", "flush.written", "flush.published", "flush.passive_cleared", "flush.wal_cleaned", "flush.done"]
PARTIAL_ID = "C03-read-while-segment-is-written"
NEXT_HOOK = {"wbegin": ("flush.start", "PARTIAL"), "write": ("PARTIAL", "flush.written"), "publish": ("flush.written", "flush.published"),
             "clear": ("flush.published", "flush.passive_cleared"), "clean": ("flush.passive_cleared", "flush.wal_cleaned")}


def gen(n, gen_len, seed, cap=2, hold=0):
    d = core.WORK / "cfg"
    d.mkdir(parents=True, exist_ok=True)
    cfg = d / f"FlushReadGen_{gen_len}_{cap}_{hold}.cfg"
    cfg.write_text((core.SPEC / "FlushReadGen.cfg").read_text().replace("GenLen = 14", f"GenLen = {gen_len}")
                   .replace("Cap = 2", f"Cap = {cap}").replace("HoldUntil = 0", f"HoldUntil = {hold}"))
    r = core.tlc("FlushReadGen", cfg, workers=1, simulate=n, depth=gen_len + 1, seed_=seed, timeout=300)
    if r.error or r.violated:
        core.log(r.out[-2000:])
        raise core.ToolError(f"FlushReadGen failed: {r.error or r.violated}")
    seen, out = set(), []
    for b in r.printed("BEH"):
        key = json.dumps(b, sort_keys=True)
        if key not in seen and any(x["a"] == "read" for x in b):
            seen.add(key)
            out.append(b)
    return out, r


def features(b):
    f = set()
    for x in b:
        if x["a"] == "read":
            f.add(("read", x["stage"], min(x["passives"], 3) if x["passives"] < 9 else 9))
    return f


def script_for(beh, root, cap, partial_point=PARTIAL_POINTS[0]):
    steps = [{"op": "cmd", "text": 'DEFINE ev FIELDS { k: "int", ty: "string" }', "tag": ["define"]},
             {"op": "park_at", "names": HOOKS + [partial_point]}]
    for i, x in enumerate(beh):
        a = x["a"]
        if a == "store":
            steps.append({"op": "cmd", "text": f'STORE ev FOR c1 PAYLOAD {{"k": {x["k"]}, "ty": "ev"}}', "tag": [i, "store"]})
        elif a == "recv":
            steps.append({"op": "wait_parked", "name": "flush.start", "tag": [i, "recv"]})
        elif a in NEXT_HOOK:
            rel, nxt = (partial_point if h == "PARTIAL" else h for h in NEXT_HOOK[a])
            steps.append({"op": "release", "name": rel, "rearm": True})
            steps.append({"op": "wait_parked", "name": nxt, "tag": [i, a]})
        elif a == "done":
            steps.append({"op": "release", "name": "flush.wal_cleaned", "rearm": True})
            steps.append({"op": "wait_parked", "name": "flush.done", "tag": [i, "done"]})
            steps.append({"op": "release", "name": "flush.done", "rearm": True})
        elif a == "read":
            steps.append({"op": "cmd", "text": "QUERY ev", "tag": [i, "q"], "timeout_ms": 8000})
            steps.append({"op": "cmd", "text": 'QUERY ev WHERE ty = "ev" COUNT', "tag": [i, "count"], "timeout_ms": 8000})
            steps.append({"op": "cmd", "text": "REPLAY ev FOR c1", "tag": [i, "replay"], "timeout_ms": 8000})
    for h in HOOKS + [partial_point]:
        steps.append({"op": "release", "name": h})
    cfg = {"root": str(root / "db"), "fill_factor": cap, "event_per_zone": 1, "shards": 1, "k": 2, "threads": 6}
    return {"config": cfg, "out": str(root / "obs.ndjson"), "steps": steps}


def ks_of(o):
    if o is None or o.get("outcome") != "response" or o.get("status") != 200:
        return None
    cols, rows = o.get("columns", []), o.get("rows", [])
    if not rows:
        return []
    return [r[cols.index("k")] for r in rows]


def stage_r(chk, bindir, tier, stats):
    q = tier == "quick"
    behs, r = gen(600 if q else 4000, 14, core.seed())
    behs2, r2 = gen(300 if q else 2000, 22, core.seed() + 1)
    # deep queues: the worker is held at the start of its first job while 10-13 rotations queue up
    # (capacity 1), reads at every depth, then the pipeline drains
    behs3, r3 = gen(40 if q else 300, 34, core.seed() + 2, cap=1, hold=12)
    for b in behs + behs2:
        b.append({"a": "cfg", "cap": 2})
    for b in behs3:
        b.append({"a": "cfg", "cap": 1})
    deep = [b for b in behs3 if any(x["a"] == "read" and x["passives"] >= 9 for x in b)]
    allb = behs + behs2 + deep
    random.Random(core.seed()).shuffle(allb)
    # greedy cover of (stage x number of passive buffers) classes, then fill
    chosen, covered = [], set()
    for b in allb:
        f = features(b)
        if f - covered:
            chosen.append(b)
            covered |= f
    for b in deep[:6 if q else 60]:
        if b not in chosen:
            chosen.append(b)
    limit = max(60 if q else 600, len(chosen))
    for b in allb:
        if len(chosen) >= limit:
            break
        if b not in chosen:
            chosen.append(b)
    core.log(f"[C03] {len(allb)} schedules from TLC, {len(chosen)} replayed, {len(covered)} (stage x passives) classes")
    for bi, beh in enumerate(chosen):
        root = core.WORK / "c03" / f"b{bi}"
        if root.exists():
            shutil.rmtree(root)
        root.mkdir(parents=True)
        cap = beh[-1]["cap"]
        beh = beh[:-1]
        rc, obs, err = core.run_vdrive(bindir, script_for(beh, root, cap, PARTIAL_POINTS[bi % 2]), timeout=180)
        by = {}
        bad_park = None
        for o in obs:
            t = o.get("tag")
            if isinstance(t, list) and len(t) == 2 and isinstance(t[0], int):
                by[(t[0], t[1])] = o
                if o.get("op") == "wait_parked" and not o.get("parked"):
                    bad_park = bad_park or (t, o.get("name"))
        rep = {"behaviour": beh}
        stats["schedules"] += 1
        if rc != 0:
            chk.violation(f"engine process ended with {rc} while replaying a schedule: {err[-200:]}", rep)
            continue
        if bad_park:
            # the flush worker did not reach the step the model says it reaches: the pipeline differs
            stats["drift"] += 1
            chk.sample({"drift": f"flush worker not parked at {bad_park[1]} (step {bad_park[0]})", "schedule": [x["a"] for x in beh]})
            shutil.rmtree(root, ignore_errors=True)
            continue
        if bi < 2:
            chk.sample({"schedule": [x["a"] + (":" + x["stage"] if x["a"] == "read" else "") for x in beh]})
        for i, x in enumerate(beh):
            if x["a"] != "read":
                continue
            stats["reads"] += 1
            sel = ks_of(by.get((i, "q")))
            rp = ks_of(by.get((i, "replay")))
            co = by.get((i, "count"))
            cnt = None
            if co is not None and co.get("outcome") == "response" and co.get("status") == 200:
                cnt = co["rows"][0][0] if co.get("rows") else 0
            where = f"read at schedule step {i} (flush stage {x['stage']}, {x['passives']} passive buffers)"
            if sel is None or rp is None or cnt is None:
                chk.violation(f"{where}: a read failed: {[(by.get((i, k)) or {}).get('outcome') for k in ('q', 'count', 'replay')]}", rep)
                break
            before = sorted(x["before"])
            inmem = sorted(x["inmem"])
            # open finding: while a non-empty passive buffer exists, a read may lose the whole
            # segment flow (it then returns exactly what is held in memory)
            seg_flow_lost = x["passives"] > 0 and bool(set(x["ondisk"]) - set(x["inmem"]))
            # open finding: a read that scans a directory the flusher is still writing may lose the rows of all segments
            partial_lost = x.get("partial") and bool(set(x["ondisk"]) - set(x["inmem"]))
            ok = True
            for name, got in (("QUERY", sel), ("REPLAY", rp)):
                if sorted(got) != before:
                    ok = False
                    desc = f"{where}: {name} returned {sorted(got)}, events applied before the read: {before}"
                    if partial_lost and set(inmem) <= set(got) <= set(before) and len(got) == len(set(got)):
                        if chk.classify([PARTIAL_ID], desc, rep) == "known":
                            stats["known_partial_segment"] += 1
                    elif seg_flow_lost and sorted(got) == inmem:
                        if chk.classify(["C03-passive-buffer-read-loses-segment-rows"], desc, rep) == "known":
                            stats["known_segment_flow_lost"] += 1
                    else:
                        chk.violation(desc, rep)
            if cnt != len(before):
                ok = False
                desc = f"{where}: COUNT = {cnt}, distinct events applied and selected: {len(before)}"
                if cnt == x["count"] or (x.get("partial") and cnt == x["count"] + len(x["partial_evs"])):
                    if chk.classify(["C03-aggregate-double-count-during-flush"], desc, rep) == "known":
                        stats["known_double_count"] += 1
                elif partial_lost and len(x["inmem"]) <= cnt <= x["count"] + len(x["partial_evs"]):
                    if chk.classify([PARTIAL_ID], desc, rep) == "known":
                        stats["known_partial_segment"] += 1
                elif seg_flow_lost and cnt == len(x["inmem"]):
                    if chk.classify(["C03-passive-buffer-read-loses-segment-rows"], desc, rep) == "known":
                        stats["known_segment_flow_lost"] += 1
                else:
                    chk.violation(desc + f"; as-built model predicts {x['count']}", rep)
            if ok and x["stage"] not in ("none",):
                stats["reads_during_flush_ok"] += 1
            if not ok and any(v for v in chk.violations):
                pass
        shutil.rmtree(root, ignore_errors=True)
    return r.distinct + r2.distinct + r3.distinct, r.generated + r2.generated + r3.generated


RHOOKS = ["read.seglist_begin", "read.passive"]
READ_TEXT = {"query": "QUERY ev", "count": 'QUERY ev WHERE ty = "ev" COUNT', "replay": "REPLAY ev FOR c1"}


def gen_r(n, gen_len, seed):
    d = core.WORK / "cfg"
    d.mkdir(parents=True, exist_ok=True)
    cfg = d / f"FlushReadGenR_{gen_len}.cfg"
    cfg.write_text((core.SPEC / "FlushReadGenR.cfg").read_text().replace("GenLen = 16", f"GenLen = {gen_len}"))
    r = core.tlc("FlushReadGenR", cfg, workers=1, simulate=n, depth=gen_len + 1, seed_=seed, timeout=300)
    if r.error or r.violated:
        core.log(r.out[-2000:])
        raise core.ToolError(f"FlushReadGenR failed: {r.error or r.violated}")
    seen, out = set(), []
    for b in r.printed("BEH"):
        # cut the behaviour after its last completed read: an unfinished read cannot be joined
        last = max((i for i, x in enumerate(b) if x["a"] == "rend"), default=-1)
        b = b[:last + 1]
        key = json.dumps(b, sort_keys=True)
        if last >= 0 and key not in seen:
            seen.add(key)
            out.append(b)
    return out, r


def features_r(b):
    """classes of reader/flush interleavings: which flush steps happened between rbegin and rend, and
    whether the model predicts a loss / a double count for the read"""
    f = set()
    inside = None
    for x in b:
        if x["a"] == "rbegin":
            inside = []
        elif x["a"] == "rend":
            lost = bool(set(x["before"]) - set(x["selection"]))
            twice = x["count"] > len(x["selection"])
            f.add(("read", tuple(inside or ()), lost, twice))
            inside = None
        elif inside is not None and x["a"] in ("wbegin", "write", "publish", "clear", "done", "recv", "rsegs", "rpassive"):
            inside.append(x["a"])
    return f


def script_for_r(beh, root, kind, partial_point=PARTIAL_POINTS[0]):
    steps = [{"op": "cmd", "text": 'DEFINE ev FIELDS { k: "int", ty: "string" }', "tag": ["define"]},
             {"op": "park_at", "names": HOOKS + RHOOKS + [partial_point]}]
    n_mail = n_segs = n_pdone = 0
    for i, x in enumerate(beh):
        a = x["a"]
        if a == "store":
            steps.append({"op": "cmd", "text": f'STORE ev FOR c1 PAYLOAD {{"k": {x["k"]}, "ty": "ev"}}', "tag": [i, "store"]})
        elif a == "recv":
            steps.append({"op": "wait_parked", "name": "flush.start", "tag": [i, "recv"]})
        elif a in NEXT_HOOK:
            rel, nxt = (partial_point if h == "PARTIAL" else h for h in NEXT_HOOK[a])
            steps.append({"op": "release", "name": rel, "rearm": True})
            steps.append({"op": "wait_parked", "name": nxt, "tag": [i, a]})
        elif a == "done":
            steps.append({"op": "release", "name": "flush.wal_cleaned", "rearm": True})
            steps.append({"op": "wait_parked", "name": "flush.done", "tag": [i, "done"]})
            steps.append({"op": "release", "name": "flush.done", "rearm": True})
        elif a == "rbegin":
            n_mail += 1
            steps.append({"op": "cmd_bg", "text": READ_TEXT[kind], "id": "r"})
            steps.append({"op": "wait_count", "name": "read.mailbox_done", "n": n_mail, "tag": [i, "rbegin"]})
        elif a == "rsegs":
            n_segs += 1
            steps.append({"op": "drive_until", "name": "read.seglist_begin", "until": "read.segments_done", "n": n_segs, "tag": [i, "rsegs"]})
        elif a == "rpassive":
            n_pdone += 1
            steps.append({"op": "wait_parked", "name": "read.passive", "tag": [i, "rpassive_at"]})
            steps.append({"op": "release", "name": "read.passive", "rearm": True})
            steps.append({"op": "wait_count", "name": "read.passive_done", "n": n_pdone, "tag": [i, "rpassive"]})
        elif a == "rend":
            steps.append({"op": "join_bg", "id": "r", "tag": [i, "rend"], "timeout_ms": 8000})
    for h in HOOKS + RHOOKS + [partial_point]:
        steps.append({"op": "release", "name": h})
    cfg = {"root": str(root / "db"), "fill_factor": 2, "event_per_zone": 1, "shards": 1, "k": 2, "threads": 8}
    return {"config": cfg, "out": str(root / "obs.ndjson"), "steps": steps}


def stage_r2(chk, bindir, tier, stats):
    """forced schedules in which the reader's own steps interleave with the flush worker's"""
    q = tier == "quick"
    behs, r = gen_r(700 if q else 5000, 16, core.seed() + 7)
    behs2, r2 = gen_r(300 if q else 2500, 24, core.seed() + 8)
    allb = behs + behs2
    random.Random(core.seed() + 9).shuffle(allb)
    chosen, covered = [], set()
    for b in allb:
        f = features_r(b)
        if f - covered:
            chosen.append(b)
            covered |= f
    limit = 50 if q else 500
    chosen = chosen[:limit]
    for b in allb:
        if len(chosen) >= limit:
            break
        if b not in chosen:
            chosen.append(b)
    core.log(f"[C03] reader-interleaved: {len(allb)} schedules from TLC, {len(chosen)} replayed, {len(covered)} interleaving classes")
    for bi, beh in enumerate(chosen):
        kind = ["query", "count", "query", "count", "replay"][bi % 5]
        root = core.WORK / "c03" / f"r{bi}"
        if root.exists():
            shutil.rmtree(root)
        root.mkdir(parents=True)
        rc, obs, err = core.run_vdrive(bindir, script_for_r(beh, root, kind, PARTIAL_POINTS[bi % 2]), timeout=180)
        by = {}
        drift = None
        for o in obs:
            t = o.get("tag")
            if isinstance(t, list) and len(t) == 2 and isinstance(t[0], int):
                by[(t[0], t[1])] = o
                if (o.get("op") == "wait_parked" and not o.get("parked")) or (o.get("op") in ("wait_count", "drive_until") and not o.get("reached")):
                    drift = drift or (t, o.get("name"))
        rep = {"behaviour": beh, "read": READ_TEXT[kind]}
        stats["r_schedules"] += 1
        if rc != 0:
            chk.violation(f"engine process ended with {rc} while replaying a reader-interleaved schedule: {err[-200:]}", rep)
            continue
        if drift:
            # a step the model says is possible could not be forced: the code's step structure differs from the model's
            stats["r_drift"] += 1
            chk.violation(f"reader-interleaved schedule could not be forced: step {drift[0]} did not reach {drift[1]} "
                          f"(the reader / flush step structure differs from spec/FlushRead.tla)", rep)
            shutil.rmtree(root, ignore_errors=True)
            continue
        for i, x in enumerate(beh):
            if x["a"] != "rend":
                continue
            stats["r_reads"] += 1
            o = by.get((i, "rend"))
            before = sorted(x["before"])
            lost_m = sorted(set(x["before"]) - set(x["selection"]))
            rsegs = [y for y in beh[:i] if y["a"] == "rsegs"][-1]
            # the segment flow scanned an incomplete directory: as built the read may lose all its segment rows
            partial = rsegs.get("partial") and len(x["mem_selection"]) < len(x["selection"])
            where = f"{READ_TEXT[kind]} whose steps interleave with the flush (schedule step {i})"
            if o is None or o.get("outcome") != "response" or o.get("status") != 200:
                chk.violation(f"{where}: the read failed: {None if o is None else (o.get('outcome'), o.get('status'), o.get('message'))}", rep)
                break
            stored = {y["k"] for y in beh[:i] if y["a"] == "store"}      # issued before the read ended
            if kind == "count":
                got = o["rows"][0][0] if o.get("rows") else 0
                anomalies = []
                if lost_m:
                    anomalies.append("C03-passive-buffer-read-after-release")
                if x["count"] > len(x["selection"]):
                    anomalies.append("C03-aggregate-double-count-during-flush")
                desc = f"{where}: COUNT = {got}; events applied before the read: {len(before)}, stored when it ended: {len(stored)}"
                allowed = {x["count"]: list(anomalies)}
                if rsegs.get("partial"):
                    allowed.setdefault(x["count"] + len(rsegs["partial_evs"]), list(dict.fromkeys(anomalies + ["C03-aggregate-double-count-during-flush"])))
                    # the rows of any of the scanned segments may be lost (and those of the incomplete one found already)
                    for v in range(x["mem_count"], x["count"] + len(rsegs["partial_evs"]) + 1):
                        allowed.setdefault(v, [PARTIAL_ID] if v < x["count"] else list(dict.fromkeys(anomalies + [PARTIAL_ID])))
                if got in allowed and allowed[got] and not (len(before) <= got <= len(stored) and got != x["count"]):
                    if chk.classify(allowed[got], desc, rep) == "known":
                        stats["r_known"] += 1
                elif len(before) <= got <= len(stored):
                    stats["r_reads_ok"] += 1
                    if got != x["count"]:
                        stats["r_model_mismatch"] += 1
                else:
                    chk.violation(desc + f"; as-built model predicts {x['count']}", rep)
            else:
                got = ks_of(o)
                desc = f"{where}: returned {sorted(got)}, events applied before the read: {before}"
                if set(before) <= set(got) <= stored and len(got) == len(set(got)):
                    stats["r_reads_ok"] += 1
                    if sorted(got) != sorted(x["selection"]):
                        stats["r_model_mismatch"] += 1
                elif lost_m and sorted(got) == sorted(x["selection"]):
                    if chk.classify(["C03-passive-buffer-read-after-release"], desc, rep) == "known":
                        stats["r_known"] += 1
                elif partial and set(x["mem_selection"]) <= set(got) <= (set(x["selection"]) | set(rsegs["partial_evs"])) and len(got) == len(set(got)):
                    if chk.classify([PARTIAL_ID], desc, rep) == "known":
                        stats["r_known_partial"] += 1
                else:
                    chk.violation(desc + f"; as-built model predicts {sorted(x['selection'])}", rep)
        shutil.rmtree(root, ignore_errors=True)
    return r.distinct + r2.distinct, r.generated + r2.generated


def stage_l(chk, bindir, tier, stats):
    """Large responses in the flush window: every event of a rotated memtable of 17 000 (thorough: 40 000) events is
    visible twice (passive buffer + written / published segment); a selection must still return each exactly once -
    the response writer's de-duplication must hold for any response size."""
    n = 17000 if tier == "quick" else 40000
    for point in ("flush.published",) if tier == "quick" else ("flush.written", "flush.published"):
        root = core.WORK / "c03" / "large"
        if root.exists():
            shutil.rmtree(root)
        root.mkdir(parents=True)
        steps = [{"op": "cmd", "text": 'DEFINE ev FIELDS { k: "int", ty: "string" }', "tag": ["define"]},
                 {"op": "park_at", "names": [point]}]
        for k in range(1, n + 1):
            steps.append({"op": "cmd", "text": f'STORE ev FOR c{k % 7} PAYLOAD {{"k": {k}, "ty": "ev"}}'})
        steps += [{"op": "wait_parked", "name": point, "tag": ["parked"], "ms": 60000},
                  {"op": "cmd", "text": "QUERY ev RETURN [k]", "tag": ["q"], "timeout_ms": 60000},
                  {"op": "cmd", "text": "REPLAY ev FOR c1 RETURN [k]", "tag": ["r"], "timeout_ms": 60000},
                  {"op": "release", "name": point}, {"op": "flush_wait"},
                  {"op": "cmd", "text": "QUERY ev RETURN [k]", "tag": ["q_after"], "timeout_ms": 60000}]
        cfg = {"root": str(root / "db"), "fill_factor": n // 1000, "event_per_zone": 1000, "shards": 1, "k": 2, "threads": 6}
        rc, obs, err = core.run_vdrive(bindir, {"config": cfg, "out": str(root / "obs.ndjson"), "steps": steps}, timeout=900)
        rep = {"events": n, "parked_at": point}
        if rc != 0:
            chk.violation(f"large-response stage: engine ended with {rc}: {err[-200:]}", rep)
            continue
        for o in obs:
            t = o.get("tag")
            if t == ["parked"] and not o.get("parked"):
                chk.violation(f"large-response stage: the flush worker did not reach {point}", rep)
            if t in (["q"], ["r"], ["q_after"]):
                stats["large_reads"] += 1
                ks = ks_of(o)
                want = n if t != ["r"] else len([k for k in range(1, n + 1) if k % 7 == 1])
                what = {"q": "QUERY ev", "r": "REPLAY ev FOR c1", "q_after": "QUERY ev after the flush"}[t[0]]
                if ks is None:
                    chk.violation(f"large-response stage: {what} failed: {(o.get('outcome'), o.get('status'))}", rep)
                elif len(ks) != len(set(ks)):
                    chk.violation(f"{what} while the flush worker is parked at {point}, {n} events rotated: {len(ks)} rows for {len(set(ks))} distinct events "
                                  f"({len(ks) - len(set(ks))} returned twice)", rep)
                elif len(set(ks)) != want:
                    chk.violation(f"{what} while the flush worker is parked at {point}: {len(set(ks))} distinct events, {want} applied", rep)
                else:
                    stats["large_reads_ok"] += 1
        shutil.rmtree(root, ignore_errors=True)


def stage_p(chk, bindir, tier, stats):
    """Reads while the column writer is inside an index (.zfc) file of the segment being flushed (hook zfc.header_written,
    n-th occurrence = n-th field): the read itself may only add rows of the incomplete segment with missing cells (open
    finding, transient); every read AFTER the flush must be complete and correct - nothing a read loaded from a
    half-written file may stick in a cache."""
    point = "zfc.header_written"
    for n_release in range(6):
        for q in ("QUERY ev WHERE x >= 1", "QUERY ev"):
            root = core.WORK / "c03" / "zfc"
            if root.exists():
                shutil.rmtree(root)
            root.mkdir(parents=True)
            steps = [{"op": "cmd", "text": 'DEFINE ev FIELDS { k: "int", x: "int" }'},
                     {"op": "park_at", "names": [point]}]
            for k in (1, 2, 3):
                steps.append({"op": "cmd", "text": f'STORE ev FOR c1 PAYLOAD {{"k": {k}, "x": 1}}'})
            for _ in range(n_release):
                steps += [{"op": "wait_parked", "name": point, "ms": 3000}, {"op": "release", "name": point, "rearm": True}]
            steps += [{"op": "wait_parked", "name": point, "ms": 3000, "tag": ["parked"]},
                      {"op": "cmd", "text": q, "tag": ["during"]},
                      {"op": "release", "name": point}, {"op": "flush_wait"},
                      {"op": "cmd", "text": q, "tag": ["after"]},
                      {"op": "cmd", "text": "QUERY ev WHERE k >= 1 COUNT", "tag": ["count_after"]}]
            cfg = {"root": str(root / "db"), "fill_factor": 3, "event_per_zone": 1, "shards": 1, "k": 2, "threads": 6}
            rc, obs, err = core.run_vdrive(bindir, {"config": cfg, "out": str(root / "obs.ndjson"), "steps": steps}, timeout=120)
            rep = {"parked_in_zfc_number": n_release + 1, "query": q}
            if rc != 0:
                chk.violation(f"stage P: engine ended with {rc}: {err[-200:]}", rep)
                continue
            got = {}
            for o in obs:
                t = o.get("tag")
                if t == ["parked"] and not o.get("parked"):
                    got["not_parked"] = True
                if t in (["during"], ["after"]):
                    cols = o.get("columns", [])
                    got[t[0]] = [(r[cols.index("context_id")], r[cols.index("k")]) for r in (o.get("rows") or [])] if "k" in cols else None
                if t == ["count_after"]:
                    got["count_after"] = (o.get("rows") or [[0]])[0][0]
            if got.get("not_parked"):
                stats["p_not_parked"] += 1          # fewer than n fields: nothing to judge
                continue
            stats["p_reads"] += 1
            good = [("c1", 1), ("c1", 2), ("c1", 3)]
            after = got.get("after")
            if after is None or sorted(after, key=str) != good or got.get("count_after") != 3:
                chk.violation(f"{q} AFTER the flush, following a read issued while index file number {n_release + 1} of the segment was half written: "
                              f"rows (context, k) = {after}, COUNT = {got.get('count_after')}; stored: {good}", rep)
                continue
            during = got.get("during")
            if during is None or sorted(set(during), key=str) != good or len(during) != 3:
                desc = f"{q} while index file number {n_release + 1} of the segment is half written: rows (context, k) = {during}; stored: {good}"
                # rows of the incomplete segment come back next to the correct ones: with a missing cell, or - when the
                # missing column is the event id - as exact copies that the response writer cannot recognise as duplicates
                extra = [r for r in (during or []) if r not in good]
                if (during is not None and all(g in during for g in good) and len(during) <= 2 * len(good) and len(during) > len(good)
                        and all(c == "" or k is None for (c, k) in extra)):
                    if chk.classify(["C03-rows-of-incomplete-segment-with-missing-cells"], desc, rep) == "known":
                        stats["p_known_transient"] += 1
                else:
                    chk.violation(desc, rep)
            else:
                stats["p_reads_ok"] += 1
        shutil.rmtree(core.WORK / "c03" / "zfc", ignore_errors=True)


def stage_m(chk, tier):
    out = {}
    for name, cfg, must_hold in (("design_atomic", "FlushRead_design.cfg", True), ("design_free", "FlushRead_design_free.cfg", True),
                                 ("asbuilt_atomic", "FlushRead_asbuilt.cfg", False), ("asbuilt_free", "FlushRead_asbuilt_free.cfg", False),
                                 ("dedup_only_free", "FlushRead_dedup_only_free.cfg", False)):
        r = core.tlc("FlushRead", cfg, workers=4, timeout=900, coverage=must_hold)
        if must_hold:
            core.tlc_ok(r, f"FlushRead/{cfg}")
            for act in ("Store", "FlushRecv", "FlushWriteBegin", "FlushWrite", "FlushPublish", "FlushClear", "FlushDone", "RBegin", "RSegList", "REnd"):
                if r.action_cov.get(act, 0) == 0:
                    raise core.ToolError(f"vacuity: {act} never taken in {cfg}")
        elif r.violated != "ReadExactlyOnce":
            raise core.ToolError(f"{cfg}: expected the as-built model to violate ReadExactlyOnce, got {r.violated or r.error}")
        out[name] = {"states": r.distinct, "transitions": r.generated, "violated": r.violated}
    chk.cov["stage_m"] = out
    return out["design_free"]["states"], out["design_free"]["transitions"]


def run(tier):
    chk = core.Check(PROP, "model_checking", tier)
    bindir = core.build_harness(("vdrive", "vconc"))
    stats = Counter()
    s1, t1 = stage_m(chk, tier)
    s2, t2 = stage_r(chk, bindir, tier, stats)
    s3, t3 = stage_r2(chk, bindir, tier, stats)
    s2, t2 = s2 + s3, t2 + t3
    stage_t(chk, bindir, tier, stats)
    stage_l(chk, bindir, tier, stats)
    stage_p(chk, bindir, tier, stats)
    if not chk.cov["samples"]:
        chk.sample({"forced_schedule_hooks": HOOKS, "note": "see stats for the number of schedules and reads"})
    chk.cov["states"] = s1 + s2
    chk.cov["transitions"] = t1 + t2
    chk.cov["traces_validated_against_impl"] = stats["schedules"] + stats["r_schedules"] + stats.get("concurrent_runs", 0)
    chk.cov["evaluations"] = stats["reads"] + stats["r_reads"] + stats.get("concurrent_reads", 0)
    chk.cov["distinct_nontrivial"] = stats["reads_during_flush_ok"] + stats["known_double_count"] + stats["r_reads"]
    chk.cov["rule"] = ("one evaluation = one read (QUERY + COUNT + REPLAY) issued while the flush worker is parked at a named step of a "
                       "TLC-generated schedule, one read whose own steps are forced to interleave with the flush worker's (stage R2), or one read of a "
                       "free-running concurrent run; non-trivial = issued while a flush was in progress")
    chk.cov["stats"] = dict(stats)
    chk.assumptions += ["the reader's interleavings are forced at the grain of the reader hooks: the segment listing and the reads of all listed "
                        "segments are one forced step (finer interleavings are model-checked in Stage M and sampled by Stage T)",
                        "one shard, one event type, capacity 2"]
    return chk.finish()


def stage_t(chk, bindir, tier, stats):
    runs = 3 if tier == "quick" else 15
    trace = core.WORK / "c03" / "trace.ndjson"
    recs = []
    for ri in range(runs):
        root = core.WORK / "c03" / f"conc{ri}"
        if root.exists():
            shutil.rmtree(root)
        root.mkdir(parents=True)
        cfg = {"config": {"root": str(root / "db"), "fill_factor": 2, "event_per_zone": 1, "shards": 1, "k": 2, "threads": 8},
               "out": str(root / "obs.ndjson"), "clients": 3, "stores_per_client": 40 if tier == "quick" else 120,
               "seed": core.seed() * 100 + ri}
        rc, obs, err = core.run_vdrive(bindir, cfg, timeout=300, name="vconc")
        if rc != 0:
            chk.violation(f"concurrent run {ri} ended with {rc}: {err[-300:]}", {"run": ri})
            continue
        stats["concurrent_runs"] += 1
        for o in obs:
            if o.get("op") == "read":
                o["id"] = len(recs)
                o["run"] = ri
                recs.append(o)
        shutil.rmtree(root, ignore_errors=True)
    trace.parent.mkdir(parents=True, exist_ok=True)
    with open(trace, "w") as f:
        for r in recs:
            r = {k: (-1 if v is None else v) for k, v in r.items()}
            r["ks"] = [k for k in r.get("ks", []) if k is not None]
            f.write(json.dumps(r) + "\n")
    stats["concurrent_reads"] = len(recs)
    if not recs:
        raise core.ToolError("stage T recorded no reads")
    r = core.tlc("FlushReadTrace", "FlushReadTrace.cfg", workers=1, env={"TRACE": str(trace)}, timeout=900, xss=True, mem="4g")
    if r.error or r.rc != 0:
        core.log(r.out[-3000:])
        raise core.ToolError(f"FlushReadTrace failed: {r.error} rc={r.rc}")
    verdict = {}
    for tag in ("MISSED", "FOREIGN", "OVERCOUNT", "UNDERCOUNT", "TWICE"):
        v = r.printed_last(tag)
        if v is not None:
            verdict[tag] = v
    if set(verdict) != {"MISSED", "FOREIGN", "OVERCOUNT", "UNDERCOUNT", "TWICE"}:
        core.log(r.out[-2000:])
        raise core.ToolError("FlushReadTrace produced no verdict")
    by = {x["id"]: x for x in recs}
    for tag in ("MISSED", "UNDERCOUNT"):
        for i in verdict[tag]:
            x = by[i]
            # the open finding needs a passive buffer to be released while the read runs (hook counter
            # flush.passive_cleared sampled before and after the read); a loss without that is new
            desc = (f"stage T {tag}: {x['kind']} read of run {x['run']}: acked before {len(x['before'])}, returned "
                    f"{len(x.get('ks', []))} rows / count {x.get('count')}, passive buffers released during the read: {x.get('released_during')}")
            if (x.get("released_during") or 0) > 0:
                if chk.classify(["C03-passive-buffer-read-after-release"], desc, {"record": x}) == "known":
                    stats["known_late_passive_read_concurrent"] += 1
            elif x.get("writing_during"):
                # a segment directory was being written while the read ran (hook counters flush.start / flush.written)
                # reads issued while a segment is written can lose that segment's rows (or return them with null cells,
                # which this stage drops) from then on: open finding, statistical signature only
                if chk.classify(["C03-rows-of-incomplete-segment-with-missing-cells"], desc + ", a segment was being written during the read", {"record": x}) == "known":
                    stats["known_poisoned_segment_view_concurrent"] += 1
            else:
                chk.violation(desc, {"record": x})
    for tag in ("FOREIGN",):
        for i in verdict[tag]:
            x = by[i]
            chk.violation(f"stage T (TLC FlushReadTrace) {tag}: {x['kind']} read of run {x['run']}: acked before {len(x['before'])}, "
                          f"returned {len(x.get('ks', []))} rows / count {x.get('count')}, acked at end {len(x['after'])}", {"record": x})
    for i in verdict["TWICE"]:
        x = by[i]
        if chk.classify(["C03-selection-duplicates-while-segment-is-written"],
                        f"stage T: a {x['kind']} read of run {x['run']} returned {len(x['ks']) - len(set(x['ks']))} event(s) twice", {"record": x}) == "known":
            stats["known_selection_duplicates_concurrent"] += 1
    for i in verdict["OVERCOUNT"]:
        x = by[i]
        if chk.classify(["C03-aggregate-double-count-during-flush"],
                        f"stage T: COUNT = {x.get('count')} although only {len(x['after'])} events were acknowledged when the read ended", {"record": x}) == "known":
            stats["known_double_count_concurrent"] += 1
    chk.cov["trace_validation"] = {"records": len(recs), **{k.lower(): len(v) for k, v in verdict.items()}}


def replay(path):
    d = json.load(open(path))["replay"]
    print(json.dumps(d)[:3000])
    return 0
