"""C03 - reads see every applied write exactly once at every stage of its flush.

Stage M: TLC checks ReadExactlyOnce on spec/FlushRead.tla - writer, flush worker (receive, write,
         publish, clear passive, clean WAL, drop in-flight marker) and a reader whose steps are
         taken where the code takes them - for ALL interleavings of reader and flush steps with
         overlapping rotations (design parameterisation must hold; the as-built one documents the
         open findings).
Stage R: TLC (FlushReadGen, as-built, atomic reader) generates schedules "flush worker parked at
         step X of rotation i, n further rotations queued, read now"; the harness forces each on
         the real engine by parking the flush worker at the cfg-gated hooks and issues QUERY,
         COUNT and REPLAY at that moment.  Every read is compared with the property (every event
         applied before the read, exactly once; COUNT = distinct events of the selection) and
         with the as-built model's prediction.
Stage T: several client tasks STORE and read concurrently against a real engine with capacity 2
         (rotations overlap constantly, nothing parked); every read is recorded with the set of
         events acknowledged before it began and when it ended, and re-judged by TLC
         (FlushReadTrace)."""
import json
import random
import shutil
from collections import Counter

from vlib import core

PROP = "C03"
HOOKS = ["flush.start", "flush.written", "flush.published", "flush.passive_cleared", "flush.wal_cleaned", "flush.done"]
NEXT_HOOK = {"write": ("flush.start", "flush.written"), "publish": ("flush.written", "flush.published"),
             "clear": ("flush.published", "flush.passive_cleared"), "clean": ("flush.passive_cleared", "flush.wal_cleaned")}


def gen(n, gen_len, seed, cap=2, hold=0):
    d = core.WORK / "cfg"
    d.mkdir(parents=True, exist_ok=True)
    cfg = d / f"FlushReadGen_{gen_len}_{cap}_{hold}.cfg"
    cfg.write_text((core.SPEC / "FlushReadGen.cfg").read_text().replace("GenLen = 14", f"GenLen = {gen_len}")
                   .replace("Cap = 2", f"Cap = {cap}").replace("HoldUntil = 0", f"HoldUntil = {hold}"))
    r = core.tlc("FlushReadGen", cfg, workers=1, simulate=n, depth=gen_len + 1, seed_=seed, timeout=300)
    if r.error or r.violated:
        core.log(r.out[-2000:])
        raise core.ToolError(f"FlushReadGen failed: {r.error or r.violated}")
    seen, out = set(), []
    for b in r.printed("BEH"):
        key = json.dumps(b, sort_keys=True)
        if key not in seen and any(x["a"] == "read" for x in b):
            seen.add(key)
            out.append(b)
    return out, r


def features(b):
    f = set()
    for x in b:
        if x["a"] == "read":
            f.add(("read", x["stage"], min(x["passives"], 3) if x["passives"] < 9 else 9))
    return f


def script_for(beh, root, cap):
    steps = [{"op": "cmd", "text": 'DEFINE ev FIELDS { k: "int", ty: "string" }', "tag": ["define"]},
             {"op": "park_at", "names": HOOKS}]
    for i, x in enumerate(beh):
        a = x["a"]
        if a == "store":
            steps.append({"op": "cmd", "text": f'STORE ev FOR c1 PAYLOAD {{"k": {x["k"]}, "ty": "ev"}}', "tag": [i, "store"]})
        elif a == "recv":
            steps.append({"op": "wait_parked", "name": "flush.start", "tag": [i, "recv"]})
        elif a in NEXT_HOOK:
            rel, nxt = NEXT_HOOK[a]
            steps.append({"op": "release", "name": rel, "rearm": True})
            steps.append({"op": "wait_parked", "name": nxt, "tag": [i, a]})
        elif a == "done":
            steps.append({"op": "release", "name": "flush.wal_cleaned", "rearm": True})
            steps.append({"op": "wait_parked", "name": "flush.done", "tag": [i, "done"]})
            steps.append({"op": "release", "name": "flush.done", "rearm": True})
        elif a == "read":
            steps.append({"op": "cmd", "text": "QUERY ev", "tag": [i, "q"], "timeout_ms": 8000})
            steps.append({"op": "cmd", "text": 'QUERY ev WHERE ty = "ev" COUNT', "tag": [i, "count"], "timeout_ms": 8000})
            steps.append({"op": "cmd", "text": "REPLAY ev FOR c1", "tag": [i, "replay"], "timeout_ms": 8000})
    for h in HOOKS:
        steps.append({"op": "release", "name": h})
    cfg = {"root": str(root / "db"), "fill_factor": cap, "event_per_zone": 1, "shards": 1, "k": 2, "threads": 6}
    return {"config": cfg, "out": str(root / "obs.ndjson"), "steps": steps}


def ks_of(o):
    if o is None or o.get("outcome") != "response" or o.get("status") != 200:
        return None
    cols, rows = o.get("columns", []), o.get("rows", [])
    if not rows:
        return []
    return [r[cols.index("k")] for r in rows]


def stage_r(chk, bindir, tier, stats):
    q = tier == "quick"
    behs, r = gen(600 if q else 4000, 14, core.seed())
    behs2, r2 = gen(300 if q else 2000, 22, core.seed() + 1)
    # deep queues: the worker is held at the start of its first job while 10-13 rotations queue up
    # (capacity 1), reads at every depth, then the pipeline drains
    behs3, r3 = gen(40 if q else 300, 34, core.seed() + 2, cap=1, hold=12)
    for b in behs + behs2:
        b.append({"a": "cfg", "cap": 2})
    for b in behs3:
        b.append({"a": "cfg", "cap": 1})
    deep = [b for b in behs3 if any(x["a"] == "read" and x["passives"] >= 9 for x in b)]
    allb = behs + behs2 + deep
    random.Random(core.seed()).shuffle(allb)
    # greedy cover of (stage x number of passive buffers) classes, then fill
    chosen, covered = [], set()
    for b in allb:
        f = features(b)
        if f - covered:
            chosen.append(b)
            covered |= f
    for b in deep[:6 if q else 60]:
        if b not in chosen:
            chosen.append(b)
    limit = max(60 if q else 600, len(chosen))
    for b in allb:
        if len(chosen) >= limit:
            break
        if b not in chosen:
            chosen.append(b)
    core.log(f"[C03] {len(allb)} schedules from TLC, {len(chosen)} replayed, {len(covered)} (stage x passives) classes")
    for bi, beh in enumerate(chosen):
        root = core.WORK / "c03" / f"b{bi}"
        if root.exists():
            shutil.rmtree(root)
        root.mkdir(parents=True)
        cap = beh[-1]["cap"]
        beh = beh[:-1]
        rc, obs, err = core.run_vdrive(bindir, script_for(beh, root, cap), timeout=180)
        by = {}
        bad_park = None
        for o in obs:
            t = o.get("tag")
            if isinstance(t, list) and len(t) == 2 and isinstance(t[0], int):
                by[(t[0], t[1])] = o
                if o.get("op") == "wait_parked" and not o.get("parked"):
                    bad_park = bad_park or (t, o.get("name"))
        rep = {"behaviour": beh}
        stats["schedules"] += 1
        if rc != 0:
            chk.violation(f"engine process ended with {rc} while replaying a schedule: {err[-200:]}", rep)
            continue
        if bad_park:
            # the flush worker did not reach the step the model says it reaches: the pipeline differs
            stats["drift"] += 1
            chk.sample({"drift": f"flush worker not parked at {bad_park[1]} (step {bad_park[0]})", "schedule": [x["a"] for x in beh]})
            shutil.rmtree(root, ignore_errors=True)
            continue
        if bi < 2:
            chk.sample({"schedule": [x["a"] + (":" + x["stage"] if x["a"] == "read" else "") for x in beh]})
        for i, x in enumerate(beh):
            if x["a"] != "read":
                continue
            stats["reads"] += 1
            sel = ks_of(by.get((i, "q")))
            rp = ks_of(by.get((i, "replay")))
            co = by.get((i, "count"))
            cnt = None
            if co is not None and co.get("outcome") == "response" and co.get("status") == 200:
                cnt = co["rows"][0][0] if co.get("rows") else 0
            where = f"read at schedule step {i} (flush stage {x['stage']}, {x['passives']} passive buffers)"
            if sel is None or rp is None or cnt is None:
                chk.violation(f"{where}: a read failed: {[(by.get((i, k)) or {}).get('outcome') for k in ('q', 'count', 'replay')]}", rep)
                break
            before = sorted(x["before"])
            inmem = sorted(x["inmem"])
            # open finding: while a non-empty passive buffer exists, a read may lose the whole
            # segment flow (it then returns exactly what is held in memory)
            seg_flow_lost = x["passives"] > 0 and bool(set(x["ondisk"]) - set(x["inmem"]))
            ok = True
            for name, got in (("QUERY", sel), ("REPLAY", rp)):
                if sorted(got) != before:
                    ok = False
                    desc = f"{where}: {name} returned {sorted(got)}, events applied before the read: {before}"
                    if seg_flow_lost and sorted(got) == inmem:
                        if chk.classify(["C03-passive-buffer-read-loses-segment-rows"], desc, rep) == "known":
                            stats["known_segment_flow_lost"] += 1
                    else:
                        chk.violation(desc, rep)
            if cnt != len(before):
                ok = False
                desc = f"{where}: COUNT = {cnt}, distinct events applied and selected: {len(before)}"
                if cnt == x["count"]:
                    if chk.classify(["C03-aggregate-double-count-during-flush"], desc, rep) == "known":
                        stats["known_double_count"] += 1
                elif seg_flow_lost and cnt == len(x["inmem"]):
                    if chk.classify(["C03-passive-buffer-read-loses-segment-rows"], desc, rep) == "known":
                        stats["known_segment_flow_lost"] += 1
                else:
                    chk.violation(desc + f"; as-built model predicts {x['count']}", rep)
            if ok and x["stage"] not in ("none",):
                stats["reads_during_flush_ok"] += 1
            if not ok and any(v for v in chk.violations):
                pass
        shutil.rmtree(root, ignore_errors=True)
    return r.distinct + r2.distinct + r3.distinct, r.generated + r2.generated + r3.generated


def stage_m(chk, tier):
    out = {}
    for name, cfg, must_hold in (("design_atomic", "FlushRead_design.cfg", True), ("design_free", "FlushRead_design_free.cfg", True),
                                 ("asbuilt_atomic", "FlushRead_asbuilt.cfg", False), ("asbuilt_free", "FlushRead_asbuilt_free.cfg", False),
                                 ("dedup_only_free", "FlushRead_dedup_only_free.cfg", False)):
        r = core.tlc("FlushRead", cfg, workers=4, timeout=900, coverage=must_hold)
        if must_hold:
            core.tlc_ok(r, f"FlushRead/{cfg}")
            for act in ("Store", "FlushRecv", "FlushWrite", "FlushPublish", "FlushClear", "FlushDone", "RBegin", "RSegList", "REnd"):
                if r.action_cov.get(act, 0) == 0:
                    raise core.ToolError(f"vacuity: {act} never taken in {cfg}")
        elif r.violated != "ReadExactlyOnce":
            raise core.ToolError(f"{cfg}: expected the as-built model to violate ReadExactlyOnce, got {r.violated or r.error}")
        out[name] = {"states": r.distinct, "transitions": r.generated, "violated": r.violated}
    chk.cov["stage_m"] = out
    return out["design_free"]["states"], out["design_free"]["transitions"]


def run(tier):
    chk = core.Check(PROP, "model_checking", tier)
    bindir = core.build_harness(("vdrive", "vconc"))
    stats = Counter()
    s1, t1 = stage_m(chk, tier)
    s2, t2 = stage_r(chk, bindir, tier, stats)
    stage_t(chk, bindir, tier, stats)
    if not chk.cov["samples"]:
        chk.sample({"forced_schedule_hooks": HOOKS, "note": "see stats for the number of schedules and reads"})
    chk.cov["states"] = s1 + s2
    chk.cov["transitions"] = t1 + t2
    chk.cov["traces_validated_against_impl"] = stats["schedules"] + stats.get("concurrent_runs", 0)
    chk.cov["evaluations"] = stats["reads"] + stats.get("concurrent_reads", 0)
    chk.cov["distinct_nontrivial"] = stats["reads_during_flush_ok"] + stats["known_double_count"]
    chk.cov["rule"] = ("one evaluation = one read (QUERY + COUNT + REPLAY) issued while the flush worker is parked at a named step of a "
                       "TLC-generated schedule, or one read of a free-running concurrent run; non-trivial = issued while a flush was in progress")
    chk.cov["stats"] = dict(stats)
    chk.assumptions += ["the reader's own internal interleavings with flush steps are model-checked (Stage M) and sampled by free-running runs "
                        "(Stage T); only schedules with an atomic reader are forced deterministically",
                        "one shard, one event type, capacity 2"]
    return chk.finish()


def stage_t(chk, bindir, tier, stats):
    runs = 3 if tier == "quick" else 15
    trace = core.WORK / "c03" / "trace.ndjson"
    recs = []
    for ri in range(runs):
        root = core.WORK / "c03" / f"conc{ri}"
        if root.exists():
            shutil.rmtree(root)
        root.mkdir(parents=True)
        cfg = {"config": {"root": str(root / "db"), "fill_factor": 2, "event_per_zone": 1, "shards": 1, "k": 2, "threads": 8},
               "out": str(root / "obs.ndjson"), "clients": 3, "stores_per_client": 40 if tier == "quick" else 120,
               "seed": core.seed() * 100 + ri}
        rc, obs, err = core.run_vdrive(bindir, cfg, timeout=300, name="vconc")
        if rc != 0:
            chk.violation(f"concurrent run {ri} ended with {rc}: {err[-300:]}", {"run": ri})
            continue
        stats["concurrent_runs"] += 1
        for o in obs:
            if o.get("op") == "read":
                o["id"] = len(recs)
                o["run"] = ri
                recs.append(o)
        shutil.rmtree(root, ignore_errors=True)
    trace.parent.mkdir(parents=True, exist_ok=True)
    with open(trace, "w") as f:
        for r in recs:
            r = {k: (-1 if v is None else v) for k, v in r.items()}
            r["ks"] = [k for k in r.get("ks", []) if k is not None]
            f.write(json.dumps(r) + "\n")
    stats["concurrent_reads"] = len(recs)
    if not recs:
        raise core.ToolError("stage T recorded no reads")
    r = core.tlc("FlushReadTrace", "FlushReadTrace.cfg", workers=1, env={"TRACE": str(trace)}, timeout=900, xss=True, mem="4g")
    if r.error or r.rc != 0:
        core.log(r.out[-3000:])
        raise core.ToolError(f"FlushReadTrace failed: {r.error} rc={r.rc}")
    verdict = {}
    for line in r.out.splitlines():
        line = line.strip()
        for tag in ("MISSED", "FOREIGN", "OVERCOUNT", "UNDERCOUNT", "TWICE"):
            p = f'<<"{tag}", "'
            if line.startswith(p) and line.endswith('">>'):
                verdict[tag] = json.loads(line[len(p):-3].replace('\\"', '"'))
    if set(verdict) != {"MISSED", "FOREIGN", "OVERCOUNT", "UNDERCOUNT", "TWICE"}:
        core.log(r.out[-2000:])
        raise core.ToolError("FlushReadTrace produced no verdict")
    by = {x["id"]: x for x in recs}
    for tag in ("MISSED", "UNDERCOUNT"):
        for i in verdict[tag]:
            x = by[i]
            # free-running runs rotate constantly (capacity 2): a non-empty passive buffer exists at
            # almost every read, which is the trigger of the open finding; the loss cannot be told
            # apart from any other loss here, so it is attributed (Stage R keeps the sharp signature)
            if chk.classify(["C03-passive-buffer-read-loses-segment-rows"],
                            f"stage T {tag}: {x['kind']} read of run {x['run']}: acked before {len(x['before'])}, returned "
                            f"{len(x.get('ks', []))} rows / count {x.get('count')}", {"record": x}) == "known":
                stats["known_segment_flow_lost_concurrent"] += 1
    for tag in ("FOREIGN",):
        for i in verdict[tag]:
            x = by[i]
            chk.violation(f"stage T (TLC FlushReadTrace) {tag}: {x['kind']} read of run {x['run']}: acked before {len(x['before'])}, "
                          f"returned {len(x.get('ks', []))} rows / count {x.get('count')}, acked at end {len(x['after'])}", {"record": x})
    for i in verdict["TWICE"]:
        x = by[i]
        if chk.classify(["C03-selection-duplicates-while-segment-is-written"],
                        f"stage T: a {x['kind']} read of run {x['run']} returned {len(x['ks']) - len(set(x['ks']))} event(s) twice", {"record": x}) == "known":
            stats["known_selection_duplicates_concurrent"] += 1
    for i in verdict["OVERCOUNT"]:
        x = by[i]
        if chk.classify(["C03-aggregate-double-count-during-flush"],
                        f"stage T: COUNT = {x.get('count')} although only {len(x['after'])} events were acknowledged when the read ended", {"record": x}) == "known":
            stats["known_double_count_concurrent"] += 1
    chk.cov["trace_validation"] = {"records": len(recs), **{k.lower(): len(v) for k, v in verdict.items()}}


def replay(path):
    d = json.load(open(path))["replay"]
    print(json.dumps(d)[:3000])
    return 0
