"""C07 - stored values come back unchanged from every storage tier.

Stage M: Ingest.tla, design parameterisation: the tier machine (STORE / FLUSH / compaction / restart / crash
         of up to 3 batches) checked exhaustively with ReadBack (every storable kind x class reads back as the
         design says wherever the batch lives) and NothingLost.
Stage R: TLC enumerates (a) for every kind every unordered pair of storable value classes (the mix that shares
         one 2-row zone / column block) with the expected read mode, (b) every history of the tier machine with
         the tier of every batch after every action, (c) every RETURN list over a name set with the projected
         columns.  Python lays the pairs out as a table (one column per kind, one zone per pair), spells the
         values, replays the histories on the real engine and after EVERY action compares every cell of QUERY and
         REPLAY with the stored value (numbers numerically, strings byte-wise, null as null, times as the instant's
         epoch seconds), the core fields with what was returned in memory, and the RETURN projections.
Stage T: larger random tables (16-row zones, random classes per column, random history) are run, every cell is
         recorded as (kind, class, tier, relations that hold) and re-judged by TLC (IngestTrace.tla), as are all
         Stage R cells."""
import itertools
import json
import random
import time

from vlib import core, ingest as ing

PROP = "C07"
TNAME = "v"
CORE = ("context_id", "event_type", "timestamp", "event_id")
# time classes that denote instants centuries away: a zone spanning them makes FLUSH walk every hour in between
# (TemporalCalendarIndex::add_zone_range); kept out of the shared zones, not a value-fidelity matter
FAR_TIME = {"i_u64", "i_max", "i_big53", "s_biglike"}


class Col:
    def __init__(self, kind, name):
        self.kind, self.name = kind, name


class Cell:
    __slots__ = ("cls", "rep", "mode", "built")

    def __init__(self, cls, rep, mode, built):
        self.cls, self.rep, self.mode, self.built = cls, rep, mode, built   # built: {tier: {mode, defect}}


class Row:
    __slots__ = ("k", "ctx", "cells", "batch", "stored", "mem", "core")

    def __init__(self, k, ctx, cells):
        self.k, self.ctx, self.cells = k, ctx, cells       # cells: {col name: Cell}
        self.batch, self.stored, self.mem, self.core = None, None, {}, None

    def text(self, cols):
        pairs = [("k", str(self.k))]
        for c in cols:
            cell = self.cells[c.name]
            if cell.cls != "absent":
                pairs.append((c.name, cell.rep.text))
        return f"STORE {TNAME} FOR {self.ctx} PAYLOAD {ing.payload_text(pairs)}"


# --------------------------------------------------------------------------- preflight: which open classes does the engine take
def preflight(bindir, chk, cols, classes_of):
    """One single-field type per kind, every representative of every storable class: the engine's own verdict
    decides which representatives can be part of a table row (a rejected one would take the whole row with it)."""
    rnd = random.Random(core.seed())
    root = ing.fresh_root("c07", "preflight")
    steps, n = [], 0
    keys = []
    for c in cols:
        steps.append(ing.cmd(ing.define_text(f"pf_{c.name}", [("x", c.kind)], rnd), ["def", c.name]))
        for cls in classes_of[c.kind]:
            for j, rep in enumerate([None] if cls == "absent" else ing.reps(cls)):
                n += 1
                body = "{}" if rep is None else ing.payload_text([("x", rep.text)])
                steps.append(ing.cmd(f"STORE pf_{c.name} FOR p{n} PAYLOAD {body}", ["s", c.kind, cls, j]))
                keys.append((c.kind, cls, j, f"p{n}"))
        steps.append(ing.cmd(f"QUERY pf_{c.name}", ["q", c.kind]))
    steps += ing.DRAIN + [{"op": "crash"}]
    rc, obs, err = ing.run_life(bindir, root, "l1", steps)
    ing.drop_root(root)
    t = ing.by_tag(obs)
    usable = {}
    for c in cols:
        if ing.status_class(t.get(("def", c.name))) != "accept":
            raise core.ToolError(f"preflight DEFINE failed for {c.kind}")
    instant = {}      # steering only: where on the time axis the engine put a time value (FLUSH cost grows with a zone's span)
    for kind, cls, j, ctx in keys:
        o = t.get(("s", kind, cls, j))
        if ing.status_class(o) == "accept":
            rep = None if cls == "absent" else ing.reps(cls)[j]
            usable.setdefault((kind, cls), []).append(rep)
            if ing.base(kind) in ("datetime", "date") and rep is not None:
                for r in ing.rows_of(t.get(("q", kind))) or []:
                    if r.get("context_id") == ctx and isinstance(r.get("x"), int):
                        instant[(kind, cls, rep.text)] = r["x"]
    return usable, instant


# --------------------------------------------------------------------------- tables
def build_zone_table(pair_lines, cols, usable, rnd, stats, only_absent=False, k0=1, prefix="z", instant=None, max_span=None, era=None):
    """One zone (2 rows, one context id) per pair index; column of kind K holds the j-th pair of K (cyclic)."""
    per_kind = {}
    for l in pair_lines:
        k = l["kind"]
        if (k, l["c1"]) not in usable or (k, l["c2"]) not in usable:
            stats["pairs_not_storable_on_engine"] += 1
            continue
        if ing.base(k) in ("datetime", "date") and instant is not None:
            # the two representatives closest to each other on the time axis; pairs that stay further apart than max_span
            # are left out (a zone spanning decades costs FLUSH and compaction seconds per column)
            best = None
            for r1 in usable[(k, l["c1"])]:
                for r2 in usable[(k, l["c2"])]:
                    i1 = instant.get((k, l["c1"], r1.text)) if r1 is not None else None
                    i2 = instant.get((k, l["c2"], r2.text)) if r2 is not None else None
                    d = 0 if i1 is None or i2 is None else abs(i1 - i2)
                    if best is None or d < best[0]:
                        best = (d, r1, r2)
            i1 = instant.get((k, l["c1"], best[1].text)) if best[1] is not None else None
            i2 = instant.get((k, l["c2"], best[2].text)) if best[2] is not None else None
            near = all(i is None or abs(i - 1_700_000_000) < 40_000_000 for i in (i1, i2))
            if era is not None and near != (era == "near"):
                continue                    # this pair belongs to the other table
            if max_span is not None and best[0] > max_span:
                stats["pairs_steered_far_time"] += 1
                continue
            l = dict(l, reps=(best[1], best[2]))
        if (l["c1"] == "absent" and l["c2"] == "absent") != only_absent:
            continue        # a zone in which every event omits an optional field stops compaction (listed finding): own history
        per_kind.setdefault(k, []).append(l)
    for k in per_kind:
        rnd.shuffle(per_kind[k])
    if only_absent:
        # optional kinds hold the (absent, absent) pair, the others any of their ordinary pairs
        ordinary = {}
        for l in pair_lines:
            if (l["kind"], l["c1"]) in usable and (l["kind"], l["c2"]) in usable and l["c1"] == l["c2"] and l["read"][0] in ("same", "epoch"):
                ordinary.setdefault(l["kind"], []).append(l)
        for c in cols:
            per_kind.setdefault(c.kind, ordinary[c.kind][:3])
    nz = 4 if only_absent else max(len(v) for v in per_kind.values())
    zones, kk = [], itertools.count(k0)
    for z in range(nz):
        ctx = f"{prefix}{z:05d}"
        rows = []
        for half in (0, 1):
            cells = {}
            for c in cols:
                l = per_kind[c.kind][z % len(per_kind[c.kind])]
                cls = l["c1"] if half == 0 else l["c2"]
                rep = l["reps"][half] if "reps" in l else rnd.choice(usable[(c.kind, cls)])
                cells[c.name] = Cell(cls, rep, l["read"][half], {t: l["built"][t][half] for t in l["built"]})
            rows.append(Row(next(kk), ctx, cells))
        zones.append(rows)
    if not only_absent:
        stats["pairs_laid_out"] += sum(len(v) for v in per_kind.values())
    return zones


def build_random_table(pair_lines, cols, usable, rnd, nzones, zrows, k0):
    """Stage T: zones of zrows rows, an independent random storable class per cell."""
    info = {}
    for l in pair_lines:
        for half, cn in ((0, "c1"), (1, "c2")):
            info[(l["kind"], l[cn])] = (l["read"][half], {t: l["built"][t][half] for t in l["built"]})
    zones, kk = [], itertools.count(k0)
    for z in range(nzones):
        ctx = f"y{z:05d}"
        rows = []
        # per zone and column a small palette so that blocks with and without nulls / with one representation occur
        palette = {}
        for c in cols:
            cl = [cls for (kd, cls) in usable if kd == c.kind and (kd, cls) in info
                  and not (ing.base(kd) in ("datetime", "date") and cls in FAR_TIME)]
            palette[c.name] = rnd.sample(cl, min(len(cl), rnd.choice([1, 2, 3, 6])))
        for _ in range(zrows):
            cells = {}
            for c in cols:
                cls = rnd.choice(palette[c.name])
                mode, built = info[(c.kind, cls)]
                cells[c.name] = Cell(cls, rnd.choice(usable[(c.kind, cls)]), mode, built)
            rows.append(Row(next(kk), ctx, cells))
        for c in cols:      # steering: never a zone in which every event omits the field (see build_zone_table)
            if all(r.cells[c.name].cls == "absent" for r in rows):
                other = [cls for (kd, cls) in usable if kd == c.kind and cls not in ("absent",) and (kd, cls) in info
                         and not (ing.base(kd) in ("datetime", "date") and cls in FAR_TIME)]
                cls = rnd.choice(other)
                mode, built = info[(c.kind, cls)]
                rows[0].cells[c.name] = Cell(cls, rnd.choice(usable[(c.kind, cls)]), mode, built)
        zones.append(rows)
    return zones


# --------------------------------------------------------------------------- one history on the engine
def tier_class(t):
    return "disk" if t in ("L0", "LC") else t


def run_history(args):
    bindir, name, beh, batches, cols, rets, epz, seed = args
    rnd = random.Random(seed)
    t0 = time.time()
    root = ing.fresh_root("c07", name)
    rows = {r.k: r for b in batches for z in b for r in z}
    for bi, b in enumerate(batches):
        for z in b:
            for r in z:
                r.batch = bi + 1
    lives, cur = [], [ing.cmd(ing.define_text(TNAME, [("k", "int")] + [(c.name, c.kind) for c in cols], rnd), ["def"])]
    nb = 0
    for i, st in enumerate(beh):
        a = st["act"]
        if a == "store":
            nb += 1
            for z in batches[nb - 1]:
                for r in z:
                    cur.append(ing.cmd(r.text(cols), ["s", r.k]))
        elif a == "flush":
            cur += [ing.cmd("FLUSH", ["flush", i]), {"op": "flush_wait"}]
        elif a == "compact":
            cur.append({"op": "compact", "tag": ["compact", i]})
        elif a == "restart":
            cur.append({"op": "shutdown"})
            lives.append(cur)
            cur = []
        elif a == "crash":
            cur += ing.DRAIN + [{"op": "crash"}]
            lives.append(cur)
            cur = []
        # observation after the action
        cur.append(ing.cmd(f"QUERY {TNAME}", ["q", i]))
        present = [z for bi in range(nb) for z in batches[bi]]
        sample = present if len(present) <= 12 else rnd.sample(present, 12)
        for z in sample:
            cur.append(ing.cmd(f"REPLAY {TNAME} FOR {z[0].ctx}", ["r", i, z[0].ctx]))
        for ri in rnd.sample(range(len(rets)), 2):
            lst = "[" + ", ".join(x if rnd.random() < 0.5 else json.dumps(x) for x in rets[ri]["ret"]) + "]"
            cur.append(ing.cmd(f"QUERY {TNAME} RETURN {lst}", ["qr", i, ri]))
            if present:
                z = rnd.choice(present)
                cur.append(ing.cmd(f"REPLAY {TNAME} FOR {z[0].ctx} RETURN {lst}", ["rr", i, ri, z[0].ctx]))
    cur.append({"op": "shutdown"})
    lives.append(cur)
    tags, lives_info = {}, []
    accepted = 0
    for j, steps in enumerate(lives):
        rc, obs, err = ing.run_life(bindir, root, f"l{j}", steps, epz=epz)
        if not obs or obs[-1].get("op") not in ("crash", "shutdown"):
            return name, None, f"lifetime {j} did not finish: rc={rc} last={obs[-1] if obs else None} {err[-300:]}"
        accepted += sum(1 for o in obs if o.get("op") == "cmd" and o.get("text", "").startswith("STORE") and ing.status_class(o) == "accept")
        if obs[-1].get("op") == "crash" and ing.wal_lines(obs) is not None and ing.wal_lines(obs) < accepted:
            return name, None, f"WAL held {ing.wal_lines(obs)} lines for {accepted} accepted STOREs at the crash (writer had not caught up)"
        tags.update(ing.by_tag(obs))
        for o in obs:
            if o.get("op") == "compact":
                tags[tuple(o["tag"])] = o
            if o.get("op") == "opened":
                lives_info.append(o.get("live"))
    ing.drop_root(root)
    return name, (tags, lives_info, time.time() - t0), None


def judge_history(chk, name, beh, batches, cols, rets, tags, stats, cellrecs, projrecs):
    rows = {r.k: r for b in batches for z in b for r in z}
    colnames = [c.name for c in cols]
    kind_of = {c.name: c.kind for c in cols}
    replay_base = {"history": [s["act"] for s in beh], "name": name}
    if ing.status_class(tags.get(("def",))) != "accept":
        raise core.ToolError(f"DEFINE of the value table failed: {tags.get(('def',))}")
    for r in rows.values():
        o = tags.get(("s", r.k))
        if o is not None:
            r.stored = ing.status_class(o) == "accept"
            if not r.stored:
                stats["rows_rejected"] += 1

    def judge_row(got, r, tier, where, i):
        """Every payload cell of one returned row against what was stored; core fields against memory."""
        for cn in colnames:
            cell = r.cells[cn]
            val = got.get(cn, ing.MISSING)
            stats["cells"] += 1
            if val is ing.MISSING:
                chk.violation(f"{where}: column {cn} missing in row k={r.k}", dict(replay_base, step=i, store=r.text(cols)))
                continue
            memv = r.mem.get(cn, ing.MISSING)
            rel = ing.relations(val, cell.rep, kind_of[cn], memv)
            if tier == "mem" and where.startswith("QUERY") and cn not in r.mem:
                r.mem[cn] = val
            key = (kind_of[cn], cell.cls, tier, tuple(sorted(k for k, v in rel.items() if v)))
            cellrecs[key] = cellrecs.get(key, 0) + 1
            if rel[cell.mode]:
                continue
            b = cell.built[tier]
            what = (f"{where} (tier {tier}, after {beh[i]['act']}): field {cn} ({kind_of[cn]}, class {cell.cls}) stored "
                    f"{cell.rep.text[:50] if cell.rep else 'absent'} came back as {json.dumps(val)[:50]}")
            rp = dict(replay_base, step=i, store=r.text(cols), field=cn, kind=kind_of[cn], cls=cell.cls, tier=tier, got=val)
            if b["defect"] != "none" and rel[b["mode"]]:
                chk.classify([ing.FINDING[b["defect"]]], what, rp)
                stats["cells_known"] += 1
            else:
                chk.violation(what, rp)
        core_now = tuple(got.get(c) for c in CORE)
        if r.core is None:
            r.core = core_now
            if got.get("context_id") != r.ctx or got.get("event_type") != TNAME or not isinstance(got.get("timestamp"), int):
                chk.violation(f"{where}: core fields of row k={r.k} are {core_now}", dict(replay_base, step=i, store=r.text(cols)))
        elif core_now != r.core:
            chk.violation(f"{where} (tier {tier}): core fields of row k={r.k} changed from {r.core} to {core_now}",
                          dict(replay_base, step=i, store=r.text(cols)))

    for i, st in enumerate(beh):
        tier_of = {b + 1: tier_class(t) for b, t in enumerate(st["tier"])}
        expect = {r.k for r in rows.values() if r.stored and tier_of.get(r.batch, "none") != "none"}
        if st["act"] == "compact":
            o = tags.get(("compact", i))
            if o is None:
                raise core.ToolError(f"{name}: no observation of the compaction round")
            okc = all(x == "ok" for x in o.get("results", ["?"]))
            ondisk = [z for bi, b in enumerate(batches) if tier_of.get(bi + 1) == "disk" for z in b]
            absent_block = any(all(r.cells[cn].cls == "absent" for r in z if r.stored) for z in ondisk for cn in colnames)
            projrecs.append({"t": "compact", "ok": okc, "absent_block": absent_block, "cmd": f"{name} step {i}"})
            stats["compaction_rounds"] += 1
            if not okc:
                what = f"{name}: compaction round after step {i} failed: {json.dumps(o.get('results'))[:300]}"
                rp = dict(replay_base, step=i, stores=[r.text(cols)[:300] for z in ondisk[:4] for r in z])
                if absent_block:
                    chk.classify([ing.FINDING["compaction-tolerates-missing-column"]], what, rp)
                else:
                    chk.violation(what, rp)
        # QUERY: every stored row, every cell
        q = ing.rows_of(tags.get(("q", i)))
        if q is None:
            chk.violation(f"{name}: QUERY after step {i} ({st['act']}) failed: {str(tags.get(('q', i)))[:200]}", dict(replay_base, step=i))
            continue
        stats["observations"] += 1
        seen = {}
        for got in q:
            k = got.get("k")
            if not isinstance(k, int) or k not in rows:
                chk.violation(f"{name}: QUERY after step {i} returned a row that was never stored: {json.dumps(got)[:200]}", dict(replay_base, step=i))
                continue
            seen[k] = seen.get(k, 0) + 1
            judge_row(got, rows[k], tier_of[rows[k].batch], "QUERY", i)
        missing = sorted(expect - set(seen))
        dup = sorted(k for k, n in seen.items() if n > 1)
        if missing or dup or set(seen) - expect:
            chk.violation(f"{name}: QUERY after step {i} ({st['act']}): missing rows {missing[:5]}, duplicated {dup[:5]}, "
                          f"unexpected {sorted(set(seen) - expect)[:5]} of {len(expect)}", dict(replay_base, step=i))
        stats["tier_cells:" + "/".join(sorted(set(tier_of[b] for b in tier_of if tier_of[b] != "none")))] += len(q)
        full = {got.get("k"): got for got in q}
        # REPLAY per context
        for tag, o in tags.items():
            if tag[0] == "r" and tag[1] == i:
                rr = ing.rows_of(o)
                want = sorted(r.k for r in rows.values() if r.ctx == tag[2] and r.k in expect)
                if rr is None:
                    chk.violation(f"{name}: REPLAY {tag[2]} after step {i} failed", dict(replay_base, step=i))
                    continue
                gotk = sorted(g.get("k") for g in rr if isinstance(g.get("k"), int))
                if gotk != want:
                    chk.violation(f"{name}: REPLAY FOR {tag[2]} after step {i} ({st['act']}) returned rows {gotk}, stored {want}",
                                  dict(replay_base, step=i))
                for got in rr:
                    if got.get("k") in rows:
                        judge_row(got, rows[got["k"]], tier_of[rows[got["k"]].batch], "REPLAY", i)
                stats["replays"] += 1
            elif tag[0] in ("qr", "rr") and tag[1] == i:
                rl = rets[tag[2]]
                pr = ing.rows_of(o)
                if pr is None:
                    chk.violation(f"{name}: {o and o.get('text')} failed", dict(replay_base, step=i))
                    continue
                if not pr and not (tag[0] == "qr" and expect):
                    continue
                cols_got = (o.get("columns") or [])
                pay = [c for c in cols_got if c not in CORE]
                core_ok, exact, perm, mem = True, True, True, False
                by_eid = {f.get("event_id"): f for f in full.values()}
                for got in pr:
                    ref = by_eid.get(got.get("event_id"))
                    if ref is None or any(got.get(c) != ref.get(c) for c in CORE):
                        core_ok = False
                        continue
                    va = [json.dumps(got.get(c), sort_keys=True) for c in pay]
                    vb = [json.dumps(ref.get(c), sort_keys=True) for c in pay]
                    if va != vb:
                        exact = False
                        if sorted(va) != sorted(vb):
                            perm = False
                    rk = ref.get("k")
                    if rk in rows and tier_of.get(rows[rk].batch) in ("mem", "wal"):
                        mem = True
                if tag[0] == "qr" and len(pr) != len(q):
                    core_ok = False
                projrecs.append({"t": "proj", "fields": rl["fields"], "ret": rl["ret"], "cols": cols_got, "core": core_ok, "exact": exact,
                                 "perm": perm, "mem": mem, "cmd": o.get("text")})
                stats["projections"] += 1
                cols_ok = sorted(c for c in cols_got if c != "event_id") == sorted(rl["cols"])
                if cols_ok and core_ok and exact:
                    continue
                what = (f"{name}: {o.get('text')} after step {i} ({st['act']}): columns {cols_got} (expected {sorted(rl['cols'])}), core cells equal "
                        f"to the unrestricted read: {core_ok}, payload cells equal: {exact}, equal up to a permutation within the row: {perm}")
                rp = dict(replay_base, step=i, cmd=o.get("text"))
                if cols_ok and core_ok and perm and mem and rl["permuted_mem"].startswith("known:"):
                    chk.classify([ing.FINDING[rl["permuted_mem"][6:]]], what, rp)
                    stats["projections_known"] += 1
                else:
                    chk.violation(what, rp)


# --------------------------------------------------------------------------- history selection
def hist_features(beh):
    f = set()
    for i, st in enumerate(beh):
        f.add(st["act"])
        if i:
            f.add(beh[i - 1]["act"] + ">" + st["act"])
        f.add(st["act"] + ":" + "/".join(sorted(set(tier_class(t) for t in st["tier"]))))
        f.add("tiers:" + "/".join(st["tier"]))
    return f


def select(behs, limit):
    feats = [hist_features(b) for b in behs]
    chosen, covered, rest = [], set(), list(range(len(behs)))
    while rest and len(chosen) < limit:
        best = max(rest, key=lambda i: len(feats[i] - covered))
        if not feats[best] - covered:
            break
        chosen.append(best)
        covered |= feats[best]
        rest.remove(best)
    step = max(1, len(rest) // max(1, limit - len(chosen)))
    for i in rest[::step]:
        if len(chosen) >= limit:
            break
        chosen.append(i)
    return [behs[i] for i in chosen], len(covered), len(set().union(*feats))


def richness(beh):
    acts = [s["act"] for s in beh]
    return (("crash" in acts) + ("compact" in acts) + ("restart" in acts) + ("flush" in acts) + (acts.count("store") == 3)
            + any(set(s["tier"]) >= {"wal", "LC"} or set(s["tier"]) >= {"mem", "LC"} for s in beh)
            + (acts.index("compact") < len(acts) - 2 if "compact" in acts else 0))


def clone_zones(zones):
    out = []
    for z in zones:
        out.append([Row(r.k, r.ctx, r.cells) for r in z])
    return out


# --------------------------------------------------------------------------- the check
def run(tier):
    chk = core.Check(PROP, "model_checking", tier)
    ing.cap_violations(chk)
    bindir = core.build_harness(("vdrive",))
    rnd = random.Random(core.seed())
    q = tier == "quick"
    gen_len = 7 if q else 9
    pair_lines, r_pairs = ing.case_lines("pairs")
    ret_lines, r_ret = ing.case_lines("ret")
    r_m = ing.model_check("tier", gen_len=gen_len, max_b=3, invariants=("ReadBack", "NothingLost"),
                          must_take=("StoreAct", "FlushAct", "CompactAct", "CleanRestartAct", "CrashAct"))
    behs, r_gen = ing.histories("tier", gen_len=gen_len, max_b=3, exhaustive=True)
    # the as-built side must reproduce the listed findings in the model, otherwise the attribution below means nothing
    cfg = ing.write_cfg("tier_asbuilt", part="tier", spec="TierSpec", gen_len=4, max_b=2, invariants=("ReadBack",), fix=[])
    r_ab = core.tlc("Ingest", cfg, workers=2, timeout=300)
    if r_ab.violated != "ReadBack":
        raise core.ToolError(f"as-built parameterisation of Ingest.tla does not violate ReadBack: {r_ab.violated} {r_ab.error}")
    chk.cov["states"] = r_m.distinct + r_pairs.distinct + r_ret.distinct
    chk.cov["transitions"] = r_m.generated
    chk.cov["model"] = {"tier_machine_states": r_m.distinct, "tier_action_coverage": r_m.action_cov, "histories": len(behs),
                        "pair_units": r_pairs.distinct, "return_lists": r_ret.distinct, "gen_len": gen_len}
    core.log(f"[c07] TLC done at {time.time() - chk.t0:.1f}s: {len(behs)} histories, {len(pair_lines)} pairs, {len(ret_lines)} RETURN lists")
    cols = []
    seen = set()
    for l in pair_lines:
        if l["kind"] not in seen:
            seen.add(l["kind"])
            cols.append(Col(l["kind"], l["col"]))
    cols.sort(key=lambda c: ing.KINDS.index(c.kind))
    classes_of = {c.kind: sorted({l["c1"] for l in pair_lines if l["kind"] == c.kind} | {l["c2"] for l in pair_lines if l["kind"] == c.kind})
                  for c in cols}
    usable, instant = preflight(bindir, chk, cols, classes_of)
    stats = {k: 0 for k in ("pairs_steered_far_time", "pairs_not_storable_on_engine", "rows_rejected", "cells", "cells_known",
                            "observations", "replays", "projections")}
    import collections
    stats = collections.defaultdict(int, stats)
    # table A: all pairs of the non-time kinds, and the time pairs whose instants lie around 2023/24
    # table B: the time pairs with instants elsewhere on the axis (1970, 2038, 2262, ...); a zone or a compaction output
    #          spanning decades costs seconds per time column, so in the quick tier B goes through compaction in slices only
    zones = build_zone_table(pair_lines, cols, usable, rnd, stats, instant=instant, max_span=10_000_000, era="near")
    zones_b = build_zone_table([l for l in pair_lines if ing.base(l["kind"]) in ("datetime", "date")] +
                               [l for l in pair_lines if ing.base(l["kind"]) not in ("datetime", "date") and l["c1"] == l["c2"]],
                               cols, usable, rnd, stats, instant=instant, max_span=10_000_000 if q else 20_000_000_000, era="far",
                               k0=20000, prefix="w")
    core.log(f"[c07] tables: {len(zones)}+{len(zones_b)} zones, {2 * (len(zones) + len(zones_b))} rows, {len(cols)} value columns; preflight done at {time.time() - chk.t0:.1f}s")
    # ---- histories: the richest ones carry the whole table, the others a rotating slice of it
    behs_sorted = sorted(behs, key=richness, reverse=True)
    three = [b for b in behs_sorted if [s["act"] for s in b].count("store") == 3]
    with_crash = [b for b in three if "crash" in [s["act"] for s in b] and "compact" in [s["act"] for s in b]]
    without = [b for b in three if "crash" not in [s["act"] for s in b]]
    nfull = 2 if q else 4
    full = with_crash[:nfull] + without[:nfull]
    nocompact = [b for b in three if "compact" not in [s["act"] for s in b] and "crash" in [s["act"] for s in b]
                 and "flush" in [s["act"] for s in b] and "restart" in [s["act"] for s in b]]
    rest, ncov, nall = select([b for b in behs if b not in full], 24 if q else 150)
    jobs = []
    third = (len(zones) + 2) // 3
    for n, b in enumerate(full):
        zs = clone_zones(zones)
        rnd.shuffle(zs)
        jobs.append((bindir, f"full{n}", b, [zs[:third], zs[third:2 * third], zs[2 * third:]], cols, ret_lines, 2, core.seed() * 100 + n))
    tb = (len(zones_b) + 2) // 3
    for n, b in enumerate((nocompact[:1] if q else nocompact[:1] + with_crash[:1])):
        zs = clone_zones(zones_b)
        rnd.shuffle(zs)
        jobs.append((bindir, f"fullb{n}", b, [zs[:tb], zs[tb:2 * tb], zs[2 * tb:]], cols, ret_lines, 2, core.seed() * 100 + 20 + n))
    off = 0
    per = 4
    mixed = zones + zones_b
    rnd.shuffle(mixed)
    for n, b in enumerate(rest):
        zs = clone_zones([mixed[(off + j) % len(mixed)] for j in range(3 * per)])
        off += 3 * per
        jobs.append((bindir, f"h{n}", b, [zs[:per], zs[per:2 * per], zs[2 * per:]], cols, ret_lines, 2, core.seed() * 100 + 50 + n))
    # ---- the zones in which every event omits an optional field: flush, flush, compact (expected to hit the listed finding)
    absb = [b for b in behs if [s["act"] for s in b][:5] == ["store", "flush", "store", "flush", "compact"]]
    if absb:
        za = build_zone_table(pair_lines, cols, usable, rnd, stats, only_absent=True, k0=50000, prefix="a")
        jobs.append((bindir, "absent0", absb[0], [za[:2], za[2:], []], cols, ret_lines, 2, core.seed() * 100 + 49))
    # ---- Stage T tables: 16-row zones
    nrand = 8 if q else 40
    rbehs = [b for b in behs_sorted if [s["act"] for s in b].count("store") >= 2]
    for n in range(nrand):
        b = rbehs[(n * 7) % len(rbehs)]
        zs = build_random_table(pair_lines, cols, usable, rnd, 6, 16, 100000 + n * 1000)
        jobs.append((bindir, f"rand{n}", b, [zs[:2], zs[2:4], zs[4:]], cols, ret_lines, 16, core.seed() * 100 + 90 + n))
    core.log(f"[c07] {len(jobs)} histories to run ({len(full)} with the whole table, {len(rest)} slices covering {ncov}/{nall} features, {nrand} random)")
    results = ing.parallel(run_history, jobs)
    cellrecs, projrecs = {}, []
    lives_l1 = 0
    for job, (name, res, err) in zip(jobs, results):
        if res is None:
            raise core.ToolError(f"history {name}: {err}")
        tags, lives_info, wall = res
        if name.startswith("full") or wall > 15:
            core.log(f"[c07] {name}: {wall:.1f}s")
        for o in tags.values():
            if o.get("op") == "compact" and any(int(s) >= 10000 for shard in o.get("live", []) for s in shard):
                lives_l1 += 1
        judge_history(chk, name, job[2], job[3], cols, ret_lines, tags, stats, cellrecs, projrecs)
    core.log(f"[c07] engine runs judged at {time.time() - chk.t0:.1f}s")
    if stats["rows_rejected"] > 0:
        core.log(f"[c07] {stats['rows_rejected']} table rows were rejected by STORE (not part of this property)")
    # ---- Stage T: TLC re-judges every distinct (kind, class, tier, relations) cell record and every projection
    allrel = ["same", "null", "epoch", "own", "scalar_of_text", "json_of_text", "empty_text", "nearest_double"]
    recs = []
    for (kind, cls, tr, rels), cnt in sorted(cellrecs.items()):
        recs.append({"t": "cell", "kind": kind, "class": cls, "tier": tr, "rel": {r: (r in rels) for r in allrel}, "n": cnt})
    ncell = len(recs)
    recs += [{k: v for k, v in p.items() if k != "cmd"} for p in projrecs]
    n, notok = ing.validate_trace(recs, "c07")
    tstats = {"ok": n - len(notok), "known": 0, "bad": 0}
    for i, verdict in notok:
        rec = recs[i]
        if verdict.startswith("known:"):
            tstats["known"] += 1
            chk.classify([ing.FINDING[verdict[6:]]], f"{rec['t']} {rec.get('kind', '')}/{rec.get('class', '')} tier {rec.get('tier', '')} "
                         f"{projrecs[i - ncell]['cmd'] if i >= ncell else ''}", {"record": rec})
        elif verdict == "unmodelled":
            raise core.ToolError(f"trace record outside the model: {json.dumps(rec)[:300]}")
        else:
            tstats["bad"] += 1
            src = projrecs[i - ncell]["cmd"] if i >= ncell else None
            chk.violation(f"TLC rejects the recorded {rec['t']}: {json.dumps(rec)[:300]} {src or ''}", {"record": rec, "cmd": src})
    chk.cov["traces_validated_against_impl"] = n
    chk.cov["trace_verdicts"] = tstats
    chk.cov["trace_cells_represented"] = sum(cellrecs.values())
    chk.cov["evaluations"] = stats["cells"]
    chk.cov["distinct_nontrivial"] = len({(k, c, t) for (k, c, t, _r) in cellrecs if t != "mem"})
    chk.cov["rule"] = ("one evaluation = one payload cell returned by QUERY or REPLAY compared with the stored value; distinct non-trivial = "
                       "distinct (kind, value class, tier) with tier beyond memory (WAL recovery, segment) observed at least once")
    chk.cov["engine"] = dict(stats)
    chk.cov["histories_run"] = len(jobs)
    chk.cov["compaction_rounds_with_L1_output"] = lives_l1
    if stats["cells"] < 10000 or lives_l1 == 0:
        raise core.ToolError(f"vacuity: {stats['cells']} cells judged, {lives_l1} compaction rounds produced an L1+ segment")
    z = zones[0]
    chk.sample({"history": [s["act"] for s in jobs[0][2]], "tiers_after_each_action": [s["tier"] for s in jobs[0][2]]})
    chk.sample({"zone": z[0].ctx, "stores": [r.text(cols)[:600] for r in z]})
    for key in list(cellrecs)[:3]:
        chk.sample({"cell_record": {"kind": key[0], "class": key[1], "tier": key[2], "relations": list(key[3]), "count": cellrecs[key]}})
    chk.assumptions += ["value classes are enumerated (pairs of classes per column block exhaustively), values inside a class are 2-5 representatives",
                        "process crashes are explored only while nothing has been flushed (storage findings C01-* would otherwise lose rows)",
                        "time classes denoting instants centuries apart are kept out of shared zones (FLUSH walks every hour of a zone's span)",
                        "one event type, one shard, segments_per_merge = 2; compaction through CompactionWorker::run"]
    return chk.finish()


def replay(path):
    d = json.load(open(path))["replay"]
    bindir = core.build_harness(("vdrive",))
    rnd = random.Random(1)
    root = ing.fresh_root("c07", "replay")
    if "store" in d and "kind" in d:
        # minimal: the one field, walked through memory -> flush -> compaction -> restart
        st = d["store"]
        body = json.loads(st.split(" PAYLOAD ", 1)[1])
        val = json.dumps(body[d["field"]], ensure_ascii=False) if d["field"] in body else None
        pl = "{}" if val is None else '{"x": ' + val + "}"
        steps = [ing.cmd(ing.define_text("t", [("x", d["kind"])], rnd)), ing.cmd(f"STORE t FOR c1 PAYLOAD {pl}"), ing.cmd("QUERY t"),
                 ing.cmd("FLUSH"), {"op": "flush_wait"}, ing.cmd("QUERY t"), ing.cmd("REPLAY t FOR c1"), {"op": "shutdown"}]
        rc, obs, err = ing.run_life(bindir, root, "l1", steps)
        rc, obs2, err = ing.run_life(bindir, root, "l2", [ing.cmd("QUERY t"), {"op": "shutdown"}])
        for o in obs + obs2:
            if o.get("op") == "cmd":
                print(o["text"][:200], "->", o.get("outcome"), o.get("status"), json.dumps(o.get("rows"))[:300])
    else:
        print(json.dumps(d)[:3000])
    return 0
