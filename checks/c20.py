"""C20 - every response encoding carries the same rows and values.

Stage M: TLC explores the response-writer machine of spec/Response.tla (family W: every stream of up
         to MaxBatches batches over a small id domain x LIMIT x OFFSET x writer kind) and checks that the
         machine means Take(Drop(Dedup(rows))) (MachineIsDecl), never repeats an id, keeps its counters;
         the value tables are checked by ASSUMEs (native cells agree in every encoding, a finding name is
         recorded exactly where the as-built model leaves the carried value).
Stage R: every terminal state of family W and every value case of family V (declared logical type x
         runtime class of the cell x whole-batch / sliced Arrow path) is printed by TLC with the expected
         decoded table; harness/vrender pushes the concretised stream through the real QueryResponseWriter /
         ShowResponseWriter with JsonRenderer, ArrowRenderer and UnixRenderer (row frames and batch frames),
         decodes the bytes with serde_json / arrow-ipc StreamReader / a line splitter, and the decoded tables
         are compared with the expectation (equality).  Differences the as-built model predicts are the
         open findings; anything else is a violation.
Stage T: larger random streams over the same universe, non-streaming error responses, and real queries
         on a small engine dispatched once per renderer are recorded and re-judged by TLC with
         spec/ResponseTrace.tla (Expect / Judge / Agree)."""
import json
import random
import time

from vlib import core, response as R

PROP = "C20"
FINDINGS = ["C20-arrow-declared-type-coercion", "C20-arrow-sliced-path-differs",
            "C20-json-nonfinite-float-null", "C20-json-utf8-reparsed"]
ENCODINGS = ("json", "unix", "arrow")


# ----------------------------------------------------------------------------------- Stage M + generation
def tlc_cases(chk, cfgname, must_take, stats, *, simulate=None, want_cases=True):
    """Exhaustive run (Stage M invariants + every terminal state printed as a case), or, with simulate=N,
    N random walks per worker through the same state space (cases only)."""
    r = core.tlc("Response", cfgname, workers=8, coverage=simulate is None, xss=True, timeout=1500, mem="6g",
                 simulate=simulate, depth=8 if simulate else None, seed_=core.seed() if simulate else None)
    core.tlc_ok(r, f"Response/{cfgname}")
    if simulate is None:
        for a in must_take:
            if r.action_cov.get(a, 0) == 0:
                raise core.ToolError(f"Response/{cfgname}: action {a} never taken (vacuous model)")
        stats["states"] += r.distinct
        stats["transitions"] += r.generated
    cases = r.printed("CASE")
    if want_cases and not cases:
        raise core.ToolError(f"Response/{cfgname}: no case printed")
    core.log(f"[tlc] Response/{cfgname}{' (simulate)' if simulate else ''}: {r.distinct} states, {len(cases)} cases, {r.wall:.1f}s")
    return r, cases


# ----------------------------------------------------------------------------------- Stage R
def compare_case(chk, case, out, confname, stats):
    """Equality of the decoded tables with the expectation TLC printed."""
    exp = case["exp"]
    for enc in ENCODINGS:
        stats["evaluations"] += 1
        dec = out[enc]
        obs = R.observed_table(dec)
        asb = exp["arrow"] if enc == "arrow" else exp["json"]
        fired = exp["fa"] if enc == "arrow" else exp["fj"]
        ann_ok = obs["announced"] == (-1 if enc == "arrow" else exp["announced"])
        shape_ok = obs["ok"] and obs["names"] == exp["names"] and ann_ok and len(obs["rows"]) == len(exp["want"])
        if shape_ok and obs["rows"] == exp["want"]:
            stats["agree"] += 1
            continue
        replay = {"stage": "R", "conf": confname, "encoding": enc, "cfg": case["cfg"], "stream": case["stream"],
                  "exp": exp, "observed": obs, "decoded": {k: dec.get(k) for k in ("outcome", "detail", "kind", "problems", "frames", "types")}}
        if shape_ok and asb and obs["rows"] == asb and fired:
            what = f"{enc} decodes to {first_diff(exp['want'], obs['rows'], case['cfg'])}"
            if chk.classify(sorted(fired), what, replay) == "known":
                stats["known"] += 1
            continue
        chk.violation(f"{enc} ({confname}): decoded response differs from the expected table: "
                      f"{describe(exp, obs, enc, case['cfg'])}", replay)


def first_diff(want, rows, cfg):
    for i, (w, r) in enumerate(zip(want, rows)):
        for j, (a, b) in enumerate(zip(w, r)):
            if a != b:
                col = cfg["cols"][j]
                return f"{b['k']}:{b['v']} instead of {a['k']}:{a['v']} in column {col['name']} ({col['lt']})"
    return "?"


def describe(exp, obs, enc, cfg):
    if not obs["ok"]:
        return "stream not decodable / writer failed"
    if obs["names"] != exp["names"]:
        return f"column names {obs['names']} instead of {exp['names']}"
    if len(obs["rows"]) != len(exp["want"]):
        return f"{len(obs['rows'])} rows instead of {len(exp['want'])}"
    if enc != "arrow" and obs["announced"] != exp["announced"]:
        return f"announced {obs['announced']} rows, emitted {len(obs['rows'])}, expected {exp['announced']}"
    return first_diff(exp["want"], obs["rows"], cfg)


def stage_r(chk, bindir, cases, confs, stats):
    conc = [R.concrete_case(i, c["cfg"], c["stream"]) for i, c in enumerate(cases)]
    for confname, rowf, bs in confs:
        t0 = time.time()
        outs = R.run_vrender(bindir, "cases", conc, name=f"r-{confname}", row_frames=rowf, batch_size=bs)
        if len(outs) != len(cases):
            raise core.ToolError(f"vrender returned {len(outs)} results for {len(cases)} cases")
        want_frame = "row" if rowf else "batch"
        for case, out in zip(cases, outs):
            compare_case(chk, case, out, confname, stats)
            # the configuration really selected the frame kind (anti-vacuity of the batch-size dimension)
            fr = out["json"].get("frames") or {}
            if len(out["json"].get("rows") or []) > 0 and fr.get(want_frame, 0) == 0 and out["json"].get("outcome") == "written":
                stats["frame_kind_mismatch"] += 1
        core.log(f"[R] {confname}: {len(cases)} cases x 3 encodings in {time.time()-t0:.1f}s")
    if stats["frame_kind_mismatch"] and not chk.violations:
        raise core.ToolError(f"streaming_batch_size was not honoured in {stats['frame_kind_mismatch']} runs (harness config)")


# ----------------------------------------------------------------------------------- Stage T inputs
def random_cases(universe, n, rnd):
    lts = sorted(universe["ltypes"])
    cells = universe["cells"]
    native = universe["native"]
    idcells = universe["idcells"]
    seen = set()
    names_pool = ["v", "uni", "dotted", "spaced", "bucket", "g", "count", "avg", "w", "x", "y", "id"]
    res = []
    for i in range(n):
        ncols = rnd.randint(1, 5)
        names = rnd.sample(names_pool, ncols)
        cols = [{"name": nm, "lt": rnd.choice(lts)} for nm in names]
        if rnd.random() < 0.7:
            cols.insert(rnd.randint(0, len(cols)), {"name": "event_id", "lt": "Integer"})
        exotic = rnd.random() < 0.35
        stream = []
        for _b in range(rnd.randint(0, 5)):
            rows = []
            for _r in range(60 if (i % 97 == 5 and _b == 0) else rnd.choice([0, 1, 1, 2, 3, 5, 8])):
                row = []
                for c in cols:
                    if c["name"] == "event_id":
                        row.append(rnd.choice(idcells))
                    elif exotic and rnd.random() < 0.3:
                        row.append(rnd.choice(cells))
                    else:
                        row.append(rnd.choice(native[c["lt"]]))
                rows.append(row)
            stream.append(rows)
        total = sum(len(b) for b in stream)
        w = rnd.choice([("query", 0, False), ("query", 0, False), ("show", 0, False), ("show", 1, False), ("show", 2, False), ("show", 0, True)])
        cfg = {"writer": w[0], "mat": w[1], "wm": w[2], "cols": cols,
               "limit": rnd.choice([-1, -1, 0, 1, 2, max(total - 1, 0), total, total + 1]),
               "offset": rnd.choice([-1, -1, 0, 1, 2, max(total - 1, 0), total + 1])}
        key = json.dumps([cfg, stream], sort_keys=True)
        if key in seen:
            continue
        seen.add(key)
        res.append({"id": f"rand-{i}", "cfg": cfg, "stream": stream})
    return res


RENDER_MESSAGES = ["boom", "", "line1\nline2", "café 数", "with \"quotes\" and \\ backslash", "200 OK", "x" * 300]
STATUSES = ["Ok", "BadRequest", "Unauthorized", "Forbidden", "NotFound", "InternalError", "ServiceUnavailable"]


def render_records(bindir):
    inp = []
    for s in STATUSES:
        for m, msg in enumerate(RENDER_MESSAGES):
            inp.append({"id": f"render-{s}-{m}", "kind": "error", "status": s, "message": msg})
    outs = R.run_vrender(bindir, "render", inp, name="t-render")
    recs = []
    for i, o in zip(inp, outs):
        obs = {}
        for enc in ENCODINGS:
            d = o[enc]
            st = d.get("status")
            obs[enc] = st if (d.get("outcome") == "written" and isinstance(st, int)) else -1
        recs.append({"kind": "render", "id": i["id"], "status": i["status"], "obs": obs, "input": i})
    return recs


# ---- end-to-end: a small real engine, every query dispatched once per renderer
E2E_SETUP = [
    'DEFINE ev FIELDS { k: "int", n: "int", s: "string", f: "float", b: "bool", d: "datetime", e: ["x","y"], o: "int | null" }',
    'DEFINE evd FIELDS { k: "int", dt: "date" }',
    'DEFINE evu FIELDS { k: "int", u: "u64" }',
    'DEFINE evs FIELDS { k: "int", s: "string" }',
    'DEFINE evf FIELDS { k: "int", f: "float" }',
    'STORE ev FOR c1 PAYLOAD {"k":1,"n":10,"s":"plain","f":1.5,"b":true,"d":1700000000,"e":"x","o":null}',
    'STORE ev FOR c2 PAYLOAD {"k":-9223372036854775808,"n":20,"s":"with \\"quotes\\" and \\\\ slash","f":5.0,"b":false,"d":1700000001,"e":"y","o":7}',
    'STORE ev FOR c1 PAYLOAD {"k":9223372036854775807,"n":30,"s":"café 数 ✓","f":1e300,"b":true,"d":1700086400,"e":"x","o":8}',
    'STORE ev FOR c3 PAYLOAD {"k":4,"n":40,"s":"","f":-0.0,"b":true,"d":1700086401,"e":"x","o":8}',
    'STORE ev FOR c3 PAYLOAD {"k":5,"n":50,"s":"tab\\there","f":-2.25,"b":false,"d":1700172800,"e":"y","o":null}',
    'STORE ev FOR c2 PAYLOAD {"k":6,"n":60,"s":"plain","f":0.1,"b":false,"d":1700172801,"e":"y","o":-1}',
    'STORE evd FOR c1 PAYLOAD {"k":1,"dt":"2024-01-02"}',
    'STORE evd FOR c2 PAYLOAD {"k":2,"dt":"2024-01-03"}',
    'STORE evu FOR c1 PAYLOAD {"k":1,"u":18446744073709551615}',
    'STORE evu FOR c2 PAYLOAD {"k":2,"u":5}',
    'STORE evs FOR c1 PAYLOAD {"k":1,"s":"[1,2]"}',
    'STORE evs FOR c2 PAYLOAD {"k":2,"s":"123"}',
    'STORE evs FOR c3 PAYLOAD {"k":3,"s":"{\\"a\\":1}"}',
    'STORE evf FOR c1 PAYLOAD {"k":1,"f":5}',
    'STORE evf FOR c1 PAYLOAD {"k":2,"f":2.5}',
    'STORE evf FOR c2 PAYLOAD {"k":3,"f":7}',
]
# (text, ordered, probe finding, probe columns, lenient)
E2E_QUERIES = [
    ("QUERY ev", False, "", [], False),
    ("QUERY ev WHERE n > 20", False, "", [], False),
    ("QUERY ev FOR c1", False, "", [], False),
    ("QUERY ev WHERE e = \"x\" AND b = true", False, "", [], False),
    ("QUERY ev RETURN [k]", False, "", [], False),
    ("QUERY ev RETURN [s]", False, "", [], False),
    ("QUERY ev ORDER BY n LIMIT 3", True, "", [], False),
    ("QUERY ev ORDER BY n DESC LIMIT 2 OFFSET 1", True, "", [], False),
    ("QUERY ev ORDER BY n OFFSET 4", True, "", [], False),
    ("QUERY ev COUNT", False, "", [], False),
    ("QUERY ev COUNT BY e", False, "", [], False),
    ("QUERY ev COUNT BY e, b", False, "", [], False),
    ("QUERY ev AVG f BY e", False, "", [], False),
    ("QUERY ev TOTAL n, AVG n, COUNT o", False, "", [], False),
    ("QUERY ev COUNT UNIQUE s BY b", False, "", [], False),
    ("QUERY ev COUNT PER day USING d", False, "", [], False),
    ("QUERY ev COUNT WHERE n > 1000", False, "", [], False),
    ("QUERY ev WHERE n = 123456", False, "", [], False),
    ("QUERY nosuch", False, "", [], False),
    ("REPLAY ev FOR c1", False, "", [], False),
    ("REPLAY ev FOR nobody", False, "", [], False),
    ("SHOW m_ev", False, "", [], False),
    ("SHOW nothing", False, "", [], False),
    ("STORE undefined_type FOR c PAYLOAD {\"a\":1}", False, "", [], False),
    ("STORE ev FOR c1 PAYLOAD {\"k\":1}", False, "", [], False),
    ("DEFINE ev FIELDS { k: \"int\" }", False, "", [], False),
    ("PING", False, "", [], False),
    # probes of the open findings (the divergence must stay inside the named columns)
    ("QUERY evd", False, "C20-arrow-declared-type-coercion", ["dt"], False),
    ("QUERY evu", False, "C20-arrow-declared-type-coercion", ["u"], False),
    ("QUERY ev MIN n, MAX n, MIN f", False, "C20-arrow-declared-type-coercion", ["min_n", "max_n", "min_f"], False),
    ("QUERY evs", False, "C20-json-utf8-reparsed", ["s"], False),
    ("QUERY evf", False, "C20-arrow-declared-type-coercion", ["f"], False),
    ("QUERY evf ORDER BY k LIMIT 2", True, "C20-arrow-declared-type-coercion", ["f"], False),
    ("QUERY ev RETURN [k, s]", False, "C20-return-projection-order", [], True),
    ("QUERY ev RETURN [n, s, f]", False, "C20-return-projection-order", [], True),
]


def e2e_records(bindir, phases):
    recs = []
    inp = [{"id": f"q{i}", "text": q[0]} for i, q in enumerate(E2E_QUERIES)]
    for ph in phases:
        if ph == "mem":
            setup = E2E_SETUP + ["REMEMBER QUERY ev AS m_ev"]
        elif ph == "disk":
            setup = E2E_SETUP + ["FLUSH", "@flush_wait", "REMEMBER QUERY ev AS m_ev"]
        else:  # mixed: first half flushed, second half in memory, materialisation older than the last events
            h = 9
            setup = E2E_SETUP[:h] + ["FLUSH", "@flush_wait", "REMEMBER QUERY ev AS m_ev"] + E2E_SETUP[h:] + ["SHOW m_ev"]
        outs = R.run_vrender(bindir, "e2e", inp, name=f"t-e2e-{ph}", batch_size=2, setup=setup,
                             extra_cfg={"fill_factor": 100, "event_per_zone": 2, "shards": 2 if ph == "mixed" else 1})
        bad_setup = [o for o in outs if o.get("id") == "setup"]
        if bad_setup:
            raise core.ToolError(f"e2e setup command failed: {json.dumps(bad_setup[0])[:400]}")
        if len(outs) != len(inp):
            raise core.ToolError(f"e2e: {len(outs)} results for {len(inp)} queries")
        for q, o in zip(E2E_QUERIES, outs):
            obs = {}
            for enc in ("json", "arrow", "unix", "json2"):
                d = o[enc]
                obs[enc] = {"ok": d.get("outcome") == "written" and not d.get("problems") and d.get("kind") in ("stream", "plain"),
                            "kind": str(d.get("kind") or d.get("outcome")),
                            "status": d["status"] if isinstance(d.get("status"), int) else -1,
                            "names": list(d.get("columns", [])),
                            "rows": [[R.raw_cell(c) for c in r] for r in d.get("rows", [])],
                            "announced": -1 if d.get("announced") is None else d["announced"]}
            recs.append({"kind": "e2e", "id": f"{ph}-{o['id']}", "text": q[0], "ordered": q[1], "probe": q[2],
                         "pcols": q[3], "lenient": q[4], "obs": obs})
    return recs


# ---- the HTTP front end under the three output formats (one process each)
HTTP_SETUP = ['DEFINE ev FIELDS { k: "int", s: "string" }', 'STORE ev FOR c1 PAYLOAD {"k":1,"s":"a"}',
              'STORE ev FOR c2 PAYLOAD {"k":2,"s":"b"}']
HTTP_COMMANDS = ["QUERY ev", "QUERY ev COUNT", "QUERY ev WHERE k = 99", "PING", "SHOW nothing",
                 "STORE undefined_type FOR c PAYLOAD {\"a\":1}", "STORE ev FOR c1 PAYLOAD {\"k\":1}",
                 "STORE ev FOR c1 PAYLOAD {\"k\":\"x\",\"s\":\"a\"}", "DEFINE ev FIELDS { k: \"int\" }",
                 "QUERY ev ORDER BY k OFFSET 1", "GARBAGE COMMAND", "QUERY ev WHERE", ""]


def free_port():
    import socket
    s = socket.socket()
    s.bind(("127.0.0.1", 0))
    p = s.getsockname()[1]
    s.close()
    return p


def http_records(bindir):
    inp = [{"id": f"h{i}", "text": t} for i, t in enumerate(HTTP_COMMANDS)]
    per = {}
    for fmt in ENCODINGS:
        outs = None
        for _attempt in range(3):       # the port is chosen by bind(0)/close: retry if somebody took it meanwhile
            try:
                outs = R.run_vrender(bindir, "http", inp, name=f"t-http-{fmt}", setup=HTTP_SETUP,
                                     extra_cfg={"fill_factor": 100, "event_per_zone": 2, "output_format": fmt,
                                                "http_addr": f"127.0.0.1:{free_port()}"})
                break
            except core.ToolError:
                continue
        if outs is None or len(outs) != len(inp) or any(o.get("id") == "setup" for o in outs):
            raise core.ToolError(f"http front end ({fmt}) could not be driven")
        per[fmt] = outs
    recs = []
    for i, q in enumerate(inp):
        obs = {}
        for fmt in ENCODINGS:
            o = per[fmt][i]
            b = o.get("body") or {}
            obs[fmt] = {"http": o.get("http_status", -1) if o.get("outcome") == "answered" else -1,
                        "ok": o.get("outcome") == "answered" and not b.get("problems") and b.get("kind") in ("stream", "plain"),
                        "kind": str(b.get("kind")), "status": b["status"] if isinstance(b.get("status"), int) else -1,
                        "names": list(b.get("columns", [])), "nrows": len(b.get("rows", []))}
        recs.append({"kind": "http", "id": q["id"], "text": q["text"], "obs": obs})
    return recs


# ----------------------------------------------------------------------------------- Stage T
def canaries(records):
    """Corrupted copies of accepted records: ResponseTrace must reject every one of them (binding self-test)."""
    import copy
    out = []
    case = next((r for r in records if r["kind"] == "case" and len(r["obs"]["json"]["rows"]) >= 2 and r["obs"]["json"]["ok"]), None)
    if case:
        c = copy.deepcopy(case); c["id"] = "canary-cell"
        cell = c["obs"]["unix"]["rows"][-1][-1]
        cell["k"], cell["v"] = ("num", "11") if cell != {"k": "num", "v": "11"} else ("num", "12")
        out.append(c)
        c = copy.deepcopy(case); c["id"] = "canary-announced"; c["obs"]["json"]["announced"] += 1; out.append(c)
        c = copy.deepcopy(case); c["id"] = "canary-row-dropped"; c["obs"]["arrow"]["rows"].pop(); out.append(c)
        c = copy.deepcopy(case); c["id"] = "canary-rows-swapped"
        rows = c["obs"]["arrow"]["rows"]
        if rows[0] != rows[-1]:
            rows[0], rows[-1] = rows[-1], rows[0]
            out.append(c)
        c = copy.deepcopy(case); c["id"] = "canary-name"; c["obs"]["json"]["names"][-1] = "?other"; out.append(c)
    e = next((r for r in records if r["kind"] == "e2e" and not r["probe"] and len(r["obs"]["json"]["rows"]) >= 2), None)
    if e:
        c = copy.deepcopy(e); c["id"] = "canary-e2e-row"; c["obs"]["arrow"]["rows"].pop(); out.append(c)
        c = copy.deepcopy(e); c["id"] = "canary-e2e-cell"; c["obs"]["unix"]["rows"][0][-1] = {"k": "str", "v": "tampered"}; out.append(c)
        c = copy.deepcopy(e); c["id"] = "canary-e2e-announced"; c["obs"]["unix"]["announced"] += 1; out.append(c)
    e = next((r for r in records if r["kind"] == "e2e" and r["obs"]["json"]["kind"] == "plain" and r["obs"]["json"]["status"] != 200), None)
    if e:
        c = copy.deepcopy(e); c["id"] = "canary-e2e-status"; c["obs"]["unix"]["status"] = 200; out.append(c)
    r0 = next((r for r in records if r["kind"] == "render" and r["status"] != "Ok"), None)
    if r0:
        c = copy.deepcopy(r0); c["id"] = "canary-render"; c["obs"]["arrow"] = 200; out.append(c)
    h = next((r for r in records if r["kind"] == "http" and r["obs"]["json"]["status"] != 200), None)
    if h:
        c = copy.deepcopy(h); c["id"] = "canary-http"; c["obs"]["json"]["http"] = 200; out.append(c)
    return out


def stage_t(chk, records, stats, name="trace"):
    cans = canaries(records)
    if len(cans) < 8:
        raise core.ToolError(f"could not build the binding self-test records ({len(cans)})")
    records = records + cans
    d = R.WORKDIR
    d.mkdir(parents=True, exist_ok=True)
    path = d / f"{name}.ndjson"
    with open(path, "w") as f:
        for r in records:
            f.write(json.dumps(dict({k: v for k, v in r.items() if k not in ("input", "text", "conf")},
                                    canary=r["id"].startswith("canary-"))) + "\n")
    r = core.tlc("ResponseTrace", "ResponseTrace.cfg", workers=1, env={"TRACE": str(path)}, xss=True, deque=True,
                 timeout=1500, mem="6g")
    core.tlc_ok(r, "ResponseTrace")
    summ = r.printed("SUMMARY")
    if not summ or summ[-1]["records"] != len(records):
        core.log(r.out[-3000:])
        raise core.ToolError(f"ResponseTrace did not read the whole trace ({summ[-1] if summ else None} / {len(records)})")
    summ = summ[-1]
    stats["states"] += r.distinct
    stats["transitions"] += r.generated
    byid = {rec["id"]: rec for rec in records}
    rejected = {v["id"] for v in r.printed("VERDICT") if v["v"] == "bad"}
    missed = [c["id"] for c in cans if c["id"] not in rejected]
    real_bad = [v for v in r.printed("VERDICT") if v["v"] == "bad" and not v["id"].startswith("canary-")]
    if missed and not real_bad and not chk.violations:   # (a corrupted copy of an already wrong record may look right)
        raise core.ToolError(f"ResponseTrace accepted corrupted records {missed}: the trace binding is vacuous")
    summ["records"] = summ.pop("judged")
    for v in r.printed("VERDICT"):
        if v["id"].startswith("canary-"):
            continue
        rec = byid[v["id"]]
        replay = {"stage": "T", "record": rec, "verdict": v}
        if v["v"] == "bad":
            chk.violation(f"trace record {v['id']} ({rec['kind']}) rejected by ResponseTrace: per-encoding {v['by']}"
                          + (f"; query {rec.get('text')!r}" if rec["kind"] == "e2e" else ""), replay)
        elif v["v"] == "known":
            what = f"{rec['kind']} record {v['id']}" + (f" ({rec.get('text')})" if rec["kind"] in ("e2e", "http") else "")
            if chk.classify(sorted(v["fired"]), what, replay) == "known":
                stats["known"] += 1
        elif v["v"] == "unstable":
            stats["e2e_unstable"] += 1
    core.log(f"[T] ResponseTrace: {summ} in {r.wall:.1f}s")
    return summ


def run(tier):
    chk = core.Check(PROP, "model_checking", tier)
    q = tier == "quick"
    bindir = core.build_harness(("vrender",))
    rnd = random.Random(core.seed())
    stats = {k: 0 for k in ("states", "transitions", "evaluations", "agree", "known", "frame_kind_mismatch", "e2e_unstable")}

    # ---- Stage M + case generation
    rw, wcases = tlc_cases(chk, "Response_w.cfg", ("Batch", "End"), stats)
    nsim = 0
    if not q:
        # the larger space: exhaustively model-checked (no printing), sampled for replay by random walks
        tlc_cases(chk, "Response_w_t.cfg", ("Batch", "End"), stats, want_cases=False)
        _r, sim = tlc_cases(chk, "Response_w_sim.cfg", (), stats, simulate=8000)
        seen = {json.dumps([c["cfg"], c["stream"]], sort_keys=True) for c in wcases}
        n0 = len(seen)
        for c in sim:
            key = json.dumps([c["cfg"], c["stream"]], sort_keys=True)
            if key not in seen:
                seen.add(key)
                wcases.append(c)
        nsim = len(seen) - n0
    rv, vcases = tlc_cases(chk, "Response_v.cfg", ("Play", "End"), stats)
    uni = rv.printed("UNIVERSE")
    if not uni:
        raise core.ToolError("Response_v: universe not printed")
    uni = uni[0]
    fired_seen = set()
    for c in vcases:
        fired_seen |= set(c["exp"]["fj"]) | set(c["exp"]["fa"])
    if fired_seen != set(FINDINGS):
        raise core.ToolError(f"value cases do not exercise every as-built divergence: {sorted(fired_seen)}")
    clean_v = sum(1 for c in vcases if not c["exp"]["fj"] and not c["exp"]["fa"])
    sliced_w = sum(1 for c in wcases if c["exp"]["slicedBatches"] > 0)
    nontrivial = sum(1 for c in wcases + vcases if len(c["exp"]["want"]) > 0)
    if sliced_w == 0 or clean_v == 0:
        raise core.ToolError("case space degenerate (no sliced batch / no clean value case)")

    # ---- Stage R
    confs = [("rows", True, 0), ("batch1", False, 1)] if q else [("rows", True, 0), ("batch1", False, 1), ("batch1000", False, 1000)]
    stage_r(chk, bindir, wcases + vcases, confs, stats)

    # ---- Stage T
    nrand = 400 if q else 4000
    rcases = random_cases(uni, nrand, rnd)
    conc = [R.concrete_case(c["id"], c["cfg"], c["stream"]) for c in rcases]
    records = []
    half = len(conc) // 2
    for confname, rowf, bs, lo, hi in (("rows", True, 0, 0, half), ("batch7", False, 7, half, len(conc))):
        outs = R.run_vrender(bindir, "cases", conc[lo:hi], name=f"t-{confname}", row_frames=rowf, batch_size=bs)
        if len(outs) != hi - lo:
            raise core.ToolError("vrender lost random cases")
        for c, o in zip(rcases[lo:hi], outs):
            records.append({"kind": "case", "id": c["id"], "cfg": c["cfg"], "stream": c["stream"], "conf": confname,
                            "obs": {enc: R.observed_table(o[enc]) for enc in ENCODINGS}})
    records += render_records(bindir)
    e2e = e2e_records(bindir, ("mem", "disk", "mixed"))
    records += e2e
    http = http_records(bindir)
    records += http
    summ = stage_t(chk, records, stats)
    if (summ["nontrivial"] == 0 or summ["sliced"] == 0) and not chk.violations:
        raise core.ToolError("trace records degenerate (no rows / no sliced batch)")

    chk.cov["states"] = stats["states"]
    chk.cov["transitions"] = stats["transitions"]
    chk.cov["traces_validated_against_impl"] = summ["records"]
    chk.cov["evaluations"] = stats["evaluations"] + 3 * summ["records"]
    chk.cov["distinct_nontrivial"] = nontrivial + summ["nontrivial"]
    chk.cov["rule"] = ("one evaluation = one decoded response (one encoding of one case under one frame configuration) compared "
                       "with the table the TLA+ module expects; non-trivial = at least one row is emitted (Stage R) / the "
                       "record carries rows or a non-200 status (Stage T)")
    chk.cov["stage_r"] = {"writer_cases": len(wcases), "of_which_sampled_from_larger_space": nsim, "value_cases": len(vcases), "value_cases_without_finding": clean_v,
                          "writer_cases_with_sliced_batch": sliced_w, "frame_configs": [c[0] for c in confs],
                          "decoded_equal_to_expected": stats["agree"], "attributed_to_open_findings": stats["known"]}
    chk.cov["stage_t"] = dict(summ, random_cases=nrand, render_records=len(STATUSES) * len(RENDER_MESSAGES),
                              e2e_records=len(e2e), e2e_unstable=stats["e2e_unstable"], http_records=len(http))
    chk.sample({"case": wcases[len(wcases) // 2]["cfg"], "stream": wcases[len(wcases) // 2]["stream"],
                "expected": wcases[len(wcases) // 2]["exp"]["want"]})
    chk.sample({"value_case": vcases[7]["cfg"]["cols"], "stream": vcases[7]["stream"], "fired": vcases[7]["exp"]["fa"] + vcases[7]["exp"]["fj"]})
    chk.sample({"e2e": e2e[6]["text"], "rows": len(e2e[6]["obs"]["json"]["rows"])})
    chk.assumptions += [
        "the response writers are compiled into the harness from the source files in /repo (their input type has no public constructor); "
        "renderers, Arrow encoder, ColumnBatch and CONFIG are the crate's own",
        "byte-level correctness of Arrow IPC framing is delegated to the arrow-ipc StreamReader; JSON to serde_json",
        "the Arrow stream has no row-count announcement: 'announced = emitted' is checked for the JSON and text frames only",
        "value universe = the ids of spec/Response.tla (one or two literals per class), concretised by vlib/response.py",
        "end-to-end queries avoid RETURN with two or more payload fields (C20-return-projection-order) and LIMIT without ORDER BY "
        "(the result set itself is not repeatable)",
    ]
    return chk.finish()


def replay(path):
    d = json.load(open(path))["replay"]
    bindir = core.build_harness(("vrender",))
    if d.get("stage") == "R":
        conf = d["conf"]
        rowf = conf == "rows"
        bs = 0 if rowf else (1000 if conf == "batch1000" else 1)
        out = R.run_vrender(bindir, "cases", [R.concrete_case("replay", d["cfg"], d["stream"])], name="replay",
                            row_frames=rowf, batch_size=bs)[0]
        print(json.dumps({"cfg": d["cfg"], "stream": d["stream"], "expected": d["exp"]}, indent=1))
        for enc in ENCODINGS:
            print(enc, json.dumps(R.observed_table(out[enc])))
    else:
        rec = d["record"]
        print(json.dumps(rec, indent=1)[:6000])
        print("verdict:", json.dumps(d["verdict"]))
    return 0
