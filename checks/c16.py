"""C16 - a time value denotes the same instant on every path that reads or writes it.

Stage M/R: spec/TimeGen.tla holds the meaning: instants in chronological order, the documented
           magnitude rule for integer spellings (digit count -> s/ms/us/ns) and which spellings
           denote which instant (Usable).  TLC emits one stored event per usable (instant, spelling)
           pair and enumerates every WHERE f <op> literal (ISO spellings with Z / +05:30 / -08:00 /
           fractional seconds, epoch seconds) and every SINCE literal USING f (all spellings incl.
           ms/us/ns integers and numeric strings, date-only) with the expected set of events.
           The harness renders spellings with its own formatter (never the crate's), stores the
           events into a datetime field, and checks: every spelling of an instant is read back as
           the same epoch second (in memory, after FLUSH, through REPLAY); each literal selects
           exactly the expected events in memory and on disk (the disk path goes through the
           temporal pruner); PER bucket keys over the payload time field equal an independent
           calendar computation for the configured time zone and week start."""
import datetime as dt
import json
import random
import shutil
from collections import Counter

from vlib import core, query
from checks import c02

PROP = "C16"

# instants: epoch seconds around the interesting boundaries (chronological)
GROUPS = {
    # instants within a narrow window: the per-zone temporal index costs time proportional to the
    # span of the values a zone holds (a 50-year span makes every range query take seconds)
    "core": ([999_999_999, 1_000_000_000, 1_700_006_400, 1_700_006_400 + 3661], ("mem", "l0")),
    # boundaries of the representable range: judged in memory only, plus explicit on-disk probes
    "extreme": ([-86400, 0, 86400 * 365, 9_999_999_999, 10_000_000_000], ("mem",)),
}
INSTANTS = []
MIDNIGHT = []


def set_group(name):
    global INSTANTS, MIDNIGHT
    INSTANTS = GROUPS[name][0]
    MIDNIGHT = [i + 1 for i, t in enumerate(INSTANTS) if t % 86400 == 0]
    return GROUPS[name][1]


def digits(t):
    return len(str(abs(t)))


def spell(t, form):
    """render instant t (epoch seconds) in a spelling; returns a JSON value (int or str)"""
    d = dt.datetime.fromtimestamp(t, dt.timezone.utc) if -62135596800 <= t <= 253402300799 else None

    def iso(offset_min, frac=False):
        tz = dt.timezone(dt.timedelta(minutes=offset_min))
        x = d.astimezone(tz)
        s = x.strftime("%Y-%m-%dT%H:%M:%S")
        if frac:
            s += ".500"
        if offset_min == 0:
            return s + "Z"
        sign = "+" if offset_min > 0 else "-"
        return s + f"{sign}{abs(offset_min) // 60:02d}:{abs(offset_min) % 60:02d}"
    if form == "iso_z":
        return iso(0)
    if form == "iso_plus":
        return iso(330)
    if form == "iso_minus":
        return iso(-480)
    if form == "iso_frac":
        return iso(0, True)
    if form == "date_only":
        return d.strftime("%Y-%m-%d")
    if form == "int_s":
        return t
    if form == "int_ms":
        return t * 1000
    if form == "int_us":
        return t * 1_000_000
    if form == "int_ns":
        return t * 1_000_000_000
    if form == "str_s":
        return str(t)
    if form == "str_ms":
        return str(t * 1000)
    raise ValueError(form)


def lit_text(v):
    return json.dumps(v) if isinstance(v, str) else str(v)


def write_cfg():
    d = core.WORK / "timegen"
    d.mkdir(parents=True, exist_ok=True)
    dig = " @@ ".join(f"{i + 1} :> {digits(t)}" for i, t in enumerate(INSTANTS))
    (d / "MCT.tla").write_text(f"""---- MODULE MCT ----
EXTENDS TimeGen
DigitsDef == ({dig})
MidnightDef == {{{", ".join(str(m) for m in MIDNIGHT)}}}
====
""")
    (d / "MCT.cfg").write_text(f"""SPECIFICATION Spec
CONSTANTS
  N = {len(INSTANTS)}
  Digits <- DigitsDef
  Midnight <- MidnightDef
INVARIANT Emit
CHECK_DEADLOCK FALSE
""")
    (d / "TimeGen.tla").write_text((core.SPEC / "TimeGen.tla").read_text())
    return d


def run(tier):
    chk = core.Check(PROP, "model_checking", tier)
    bindir = core.build_harness(("vdrive",))
    stats = Counter()
    states = trans = 0
    for group in GROUPS:
        layouts = set_group(group)
        d = write_cfg()
        r = core.tlc("MCT", "MCT.cfg", workers=4, cwd=d, timeout=600)
        if r.error or r.violated:
            core.log(r.out[-3000:])
            raise core.ToolError(f"TimeGen failed: {r.error or r.violated}")
        states += r.distinct
        trans += r.generated
        evseq = r.printed("EVENTS")[0]
        cases = r.printed("CASE")
        events = [{"k": n + 1, "i": e[0], "form": e[1]} for n, e in enumerate(evseq)]
        core.log(f"[C16] group {group}: {len(events)} stored spellings, {len(cases)} query literals from TLC")
        for layout in layouts:
            run_group(chk, bindir, group, layout, events, cases, stats)
        chk.sample({"group": group, "events": events[:3], "case": cases[0]})
    disk_probes(chk, bindir, stats)
    stage_zones(chk, bindir, tier, stats)
    chk.cov["states"] = states
    chk.cov["transitions"] = trans
    chk.cov["traces_validated_against_impl"] = stats["evaluations"]
    chk.cov["evaluations"] = stats["evaluations"] + stats["readbacks"]
    chk.cov["distinct_nontrivial"] = stats["nontrivial_ok"]
    chk.cov["rule"] = ("one evaluation = one time literal (spelling x instant x operator / SINCE) against the stored spellings in one layout, "
                       "or one read-back of a stored spelling; non-trivial = the literal selects a proper non-empty subset and the engine agreed")
    chk.cov["stats"] = dict(stats)
    chk.assumptions += ["instants and spellings are class representatives (boundaries of the digit-count rule, pre-1970, day/hour boundaries, fractional seconds, UTC offsets)",
                        "spellings and comparisons: time zone UTC, Monday week start; PER buckets additionally in 3 (thorough: 6) named zones incl. half-hour and 45-minute offsets, both week starts",
                        "on-disk comparisons use instants within a 22-year window (see finding C16-temporal-span-cost)"]
    return chk.finish()


def disk_probes(chk, bindir, stats):
    """explicit on-disk probes of the range boundaries (open findings)"""
    for name, vals, q, want, fid in (
            ("pre-epoch", [999_999_999, -86400], 'QUERY ev RETURN [k] WHERE d >= "1970-01-02T00:00:00Z"', [1], "C16-pre-epoch-breaks-temporal-index"),
            ("far-future", [999_999_999, 10_000_000_000], 'QUERY ev RETURN [k] WHERE d >= "1970-01-02T00:00:00Z"', [1, 2], "C16-temporal-span-cost")):
        root = core.WORK / "c16" / f"probe-{name}"
        if root.exists():
            shutil.rmtree(root)
        root.mkdir(parents=True)
        cfg = {"root": str(root / "db"), "fill_factor": 100000, "event_per_zone": 2, "shards": 1, "k": 2}
        steps = [{"op": "cmd", "text": 'DEFINE ev FIELDS { k: "int", d: "datetime" }', "tag": ["define"]}]
        for i, v in enumerate(vals):
            steps.append({"op": "cmd", "text": f'STORE ev FOR c1 PAYLOAD {{"k": {i + 1}, "d": {v}}}', "tag": ["st", i]})
        steps.append({"op": "cmd", "text": "FLUSH", "tag": ["flush"], "timeout_ms": 60000})
        steps.append({"op": "cmd", "text": q, "tag": ["q", 0], "timeout_ms": 8000})
        rc, obs, err = core.run_vdrive(bindir, {"config": cfg, "out": str(root / "obs.ndjson"), "steps": steps}, timeout=200)
        o = next((x for x in obs if x.get("tag") == ["q", 0]), None)
        ks, why = c02.decode_ks(o)
        stats["disk_probes"] += 1
        if ks is None or sorted(ks) != want:
            chk.classify([fid], f"on-disk probe {name}: {q} over stored instants {vals}: got {ks if ks is not None else why}, expected {want}", {"probe": name})
        shutil.rmtree(root, ignore_errors=True)


ZONES = [("Asia/Kolkata", "Mon"), ("America/St_Johns", "Sun"), ("Australia/Adelaide", "Mon"), ("Asia/Kathmandu", "Sun"), ("Europe/Amsterdam", "Mon"),
         ("America/New_York", "Sun")]


def bucket_start_tz(ts, gran, tzname, week_start):
    """start of the calendar bucket of `ts` in the named zone (Python zoneinfo: independent of the engine's chrono-tz)"""
    import zoneinfo
    tz = zoneinfo.ZoneInfo(tzname)
    d = dt.datetime.fromtimestamp(ts, tz)
    if gran == "hour":
        n = d.replace(minute=0, second=0, microsecond=0, tzinfo=None)
    elif gran == "day":
        n = d.replace(hour=0, minute=0, second=0, microsecond=0, tzinfo=None)
    elif gran == "week":
        wd = d.weekday() if week_start == "Mon" else (d.weekday() + 1) % 7
        n = (d.replace(hour=0, minute=0, second=0, microsecond=0, tzinfo=None) - dt.timedelta(days=wd))
    elif gran == "month":
        n = d.replace(day=1, hour=0, minute=0, second=0, microsecond=0, tzinfo=None)
    else:
        n = d.replace(month=1, day=1, hour=0, minute=0, second=0, microsecond=0, tzinfo=None)
    if gran == "hour":
        # the wall-clock hour that contains the instant; keep the instant's own UTC offset (an hour repeated at the end of DST)
        return int(ts - (d.minute * 60 + d.second))
    return int(n.replace(tzinfo=tz).timestamp())


def stage_zones(chk, bindir, tier, stats):
    """PER <granularity> USING <time field> in configured time zones whose offsets are not whole hours (and two that
    are), with both week starts: bucket keys and counts equal the independent calendar, in memory and after FLUSH."""
    import zoneinfo
    base = 1705343400          # 2024-01-15T18:30:00Z = local midnight in Asia/Kolkata
    zones = ZONES[:3] if tier == "quick" else ZONES
    for zi, (tzname, ws) in enumerate(zones):
        tz = zoneinfo.ZoneInfo(tzname)
        # instants around local hour / day / week / month / year starts of this zone, and around UTC hour starts
        marks = []
        for (y, mo, d_, h) in ((2024, 1, 15, 0), (2024, 1, 14, 0), (2024, 2, 1, 0), (2024, 1, 1, 0), (2024, 3, 1, 0), (2024, 1, 15, 13)):
            t = int(dt.datetime(y, mo, d_, h, tzinfo=tz).timestamp())
            marks += [t - 1, t, t + 1799, t + 1800, t + 3599]
        marks += [base - 1800, base, base + 900, base + 2700]
        instants = sorted(set(marks))
        for layout in ("mem", "l0"):
            root = core.WORK / "c16" / f"zone{zi}-{layout}"
            if root.exists():
                shutil.rmtree(root)
            root.mkdir(parents=True)
            cfg = {"root": str(root / "db"), "fill_factor": 100000, "event_per_zone": 4, "shards": 2, "k": 2, "timezone": tzname, "week_start": ws}
            steps = [{"op": "cmd", "text": 'DEFINE ev FIELDS { k: "int", d: "datetime" }', "tag": ["define"]}]
            for k, t in enumerate(instants):
                steps.append({"op": "cmd", "text": f'STORE ev FOR c{k % 5} PAYLOAD {{"k": {k}, "d": {t}}}', "tag": ["st", k]})
            if layout == "l0":
                steps.append({"op": "cmd", "text": "FLUSH", "tag": ["flush"]})
            for g in ("hour", "day", "week", "month", "year"):
                steps.append({"op": "cmd", "text": f"QUERY ev COUNT PER {g} USING d", "tag": ["per", g]})
            rc, obs, err = core.run_vdrive(bindir, {"config": cfg, "out": str(root / "o.ndjson"), "steps": steps}, timeout=300)
            rep = {"timezone": tzname, "week_start": ws, "layout": layout, "instants": instants}
            if rc != 0:
                chk.violation(f"time-zone stage ({tzname}, {layout}): engine ended with {rc}: {err[-200:]}", rep)
                continue
            for o in obs:
                t_ = o.get("tag")
                if not (isinstance(t_, list) and t_[0] == "per"):
                    continue
                g = t_[1]
                stats["zone_bucket_queries"] += 1
                if o.get("outcome") != "response" or o.get("status") != 200:
                    chk.violation(f"QUERY ev COUNT PER {g} USING d [{tzname}, week starts {ws}, {layout}] failed: {(o.get('outcome'), o.get('status'), o.get('message'))}", rep)
                    continue
                cols = o.get("columns", [])
                got = Counter({row[cols.index("bucket")]: row[cols.index("count")] for row in (o.get("rows") or [])})
                want = Counter(bucket_start_tz(t, g, tzname, ws) for t in instants)
                if got != want:
                    diff = {b: (got.get(b), want.get(b)) for b in set(got) | set(want) if got.get(b) != want.get(b)}
                    chk.violation(f"PER {g} USING d in time zone {tzname} (week starts {ws}) [{layout}]: buckets (engine, calendar) differ: "
                                  f"{dict(sorted(diff.items())[:5])}", {**rep, "gran": g})
                else:
                    stats["zone_bucket_ok"] += 1
            shutil.rmtree(root, ignore_errors=True)


def run_group(chk, bindir, group, layout, events, cases, stats):
    if True:
        root = core.WORK / "c16" / f"{group}-{layout}"
        if root.exists():
            shutil.rmtree(root)
        root.mkdir(parents=True)
        cfg = {"root": str(root / "db"), "fill_factor": 100000, "event_per_zone": 3, "shards": 2, "k": 2}
        steps = [{"op": "cmd", "text": 'DEFINE ev FIELDS { k: "int", d: "datetime" }', "tag": ["define"]}]
        for e in events:
            payload = {"k": e["k"], "d": spell(INSTANTS[e["i"] - 1], e["form"])}
            steps.append({"op": "cmd", "text": f"STORE ev FOR c{e['k'] % 5} PAYLOAD {json.dumps(payload)}", "tag": ["st", e["k"]]})
        if layout == "l0":
            steps.append({"op": "cmd", "text": "FLUSH", "tag": ["flush"]})
        qs = [(0, "QUERY ev")]   # no RETURN list: RETURN [k, d] mislabels the columns (finding C07-return-order-mislabels)
        for c in cases:
            rr = c["r"]
            lit = lit_text(spell(INSTANTS[rr["i"] - 1], rr["form"]))
            if rr["site"] == "where":
                qs.append((len(qs), f"QUERY ev RETURN [k] WHERE d {rr['op']} {lit}"))
            else:
                lit_s = lit if lit.startswith('"') else f'"{lit}"'
                qs.append((len(qs), f"QUERY ev SINCE {lit_s} USING d RETURN [k]"))
        for g in ("hour", "day", "week", "month", "year"):
            qs.append((len(qs), f"QUERY ev COUNT PER {g} USING d"))
        # stores are checked by hand below (run_layout treats a rejected STORE as a setup failure)
        script = {"config": cfg, "out": str(root / "obs.ndjson"), "steps": steps + [{"op": "cmd", "text": t, "tag": ["q", i], "timeout_ms": 20000} for i, t in qs]}
        rc, obs, err = core.run_vdrive(bindir, script, timeout=600)
        if rc != 0:
            raise core.ToolError(f"vdrive exit {rc}: {err[-300:]}")
        res = {o["tag"][1]: o for o in obs if o.get("op") == "cmd" and isinstance(o.get("tag"), list) and o["tag"][0] == "q"}
        stores = {o["tag"][1]: o for o in obs if o.get("op") == "cmd" and isinstance(o.get("tag"), list) and o["tag"][0] == "st"}
        accepted = set()
        for e in events:
            o = stores.get(e["k"])
            stats["stores"] += 1
            if o is None or o.get("outcome") != "response" or o.get("status") != 200:
                t = INSTANTS[e["i"] - 1]
                desc = f"STORE of instant {t} spelled {spell(t, e['form'])!r} ({e['form']}) is refused: {None if o is None else (o.get('outcome'), o.get('status'), o.get('message'))}"
                chk.classify(explain_store(t, e["form"]), desc, {"instant": t, "form": e["form"], "layout": layout})
            else:
                accepted.add(e["k"])
        # read-back
        o = res.get(0)
        ks, why = c02.decode_ks(o)
        if ks is None:
            chk.violation(f"read-back query failed in {layout}: {why}", {"layout": layout})
        else:
            cols = o["columns"]
            back = {row[cols.index("k")]: row[cols.index("d")] for row in o["rows"]}
            for e in events:
                if e["k"] not in accepted:
                    continue
                t = INSTANTS[e["i"] - 1]
                stats["readbacks"] += 1
                if back.get(e["k"]) != t:
                    desc = f"instant {t} stored as {spell(t, e['form'])!r} ({e['form']}) reads back as {back.get(e['k'])!r} in {layout}"
                    chk.classify(explain_store(t, e["form"]), desc, {"instant": t, "form": e["form"], "layout": layout})
        # query literals
        for qi, c in enumerate(cases, start=1):
            rr = c["r"]
            text = qs[qi][1]
            stats["evaluations"] += 1
            ks, why = c02.decode_ks(res.get(qi))
            exp = sorted(k for k in c["exp"] if k in accepted)
            rep = {"text": text, "layout": layout, "request": rr, "expected": exp}
            t = INSTANTS[rr["i"] - 1]
            if ks is None:
                chk.classify(explain_query(rr, t, layout, "error"), f"{text} [{layout}]: {why}", rep)
            elif sorted(ks) != exp:
                chk.classify(explain_query(rr, t, layout, "wrong"), f"{text} [{layout}]: got {sorted(ks)}, expected {exp}", rep)
            elif exp and len(exp) < len(accepted):
                stats["nontrivial_ok"] += 1
        # PER buckets on the payload time field
        base = len(cases) + 1
        for gi, g in enumerate(("hour", "day", "week", "month", "year")):
            o = res.get(base + gi)
            stats["bucket_queries"] += 1
            want = Counter(query.bucket_start(INSTANTS[e["i"] - 1], g) for e in events if e["k"] in accepted)
            if o is None or o.get("outcome") != "response" or o.get("status") != 200:
                chk.violation(f"QUERY ev COUNT PER {g} USING d [{layout}] failed: {None if o is None else (o.get('outcome'), o.get('status'), o.get('message'))}", {"gran": g})
                continue
            cols = o["columns"]
            got = Counter({row[cols.index("bucket")]: row[cols.index("count")] for row in o["rows"]})
            if got != want:
                diff = {b: (got.get(b), want.get(b)) for b in set(got) | set(want) if got.get(b) != want.get(b)}
                pre_epoch_only = all((b is None) or (isinstance(b, int) and b < 0) for b in diff)
                chk.classify(["C16-bucket-pre-epoch"] if pre_epoch_only else [],
                             f"PER {g} USING d [{layout}]: buckets (engine, calendar) differ: {dict(list(diff.items())[:5])}", {"gran": g, "layout": layout})
        shutil.rmtree(root, ignore_errors=True)


def explain_store(t, form):
    return []


def explain_query(rr, t, layout, kind):
    return []


def replay(path):
    print(open(path).read()[:3000])
    return 0
