"""C14 - SHOW of a remembered query equals the live query, each event once.

Stage M: TLC checks ShowComplete (action property) on spec/Materialize.tla: two shards, a tick
         clock, timestamps taken at accept and ids (tick, shard, sequence) at apply, a high-water
         mark (timestamp, id); the design parameterisation must hold, the as-built one documents
         the open finding.
Stage R: TLC (MaterializeGen, as-built) generates histories of STOREs on either shard (same
         second / same millisecond / accepted a second before being applied), REMEMBER at any
         point and repeated SHOWs; the harness replays them on a real 2-shard engine with the
         injected clocks (STORE second, id-generator millisecond), inserting FLUSH, compaction and
         restarts between the steps, and after every SHOW issues the live QUERY back to back:
         SHOW must return exactly the live rows, each once; repeating SHOW changes nothing;
         REMEMBER under an existing name is rejected and harmless."""
import json
import random
import shutil
from collections import Counter

from vlib import core

PROP = "C14"
BASE_S = 1_700_000_000
TPS = 2


def gen(n, gen_len, seed):
    d = core.WORK / "cfg"
    d.mkdir(parents=True, exist_ok=True)
    cfg = d / f"MaterializeGen_{gen_len}.cfg"
    cfg.write_text((core.SPEC / "MaterializeGen.cfg").read_text().replace("GenLen = 14", f"GenLen = {gen_len}"))
    r = core.tlc("MaterializeGen", cfg, workers=1, simulate=n, depth=gen_len + 1, seed_=seed, timeout=300)
    if r.error or r.violated:
        core.log(r.out[-2000:])
        raise core.ToolError(f"MaterializeGen failed: {r.error or r.violated}")
    seen, out = set(), []
    for b in r.printed("BEH"):
        key = json.dumps(b, sort_keys=True)
        acts = [x["a"] for x in b]
        if key not in seen and "remember" in acts and "show" in acts[acts.index("remember"):]:
            seen.add(key)
            out.append(b)
    return out, r


def features(b):
    f = set()
    remembered = False
    hw_tick = None
    for x in b:
        if x["a"] == "remember":
            remembered = True
        if x["a"] == "store" and remembered:
            f.add(("store-after-remember", x["lag"], x["sh"]))
        if x["a"] == "show":
            f.add(("show", x["asbuilt"] == x["live"]))
    return f


def spans_seconds(b):
    """the shape in which a flushed zone mixes events below and above the mark: events of two different seconds are
    materialised (REMEMBER / SHOW) from memory, later events carry a higher second, and another SHOW follows"""
    seen_ts, marked, mark_ts, later = set(), False, None, False
    for x in b:
        if x["a"] == "store":
            if marked and mark_ts is not None and x["ts"] > mark_ts:
                later = True
            elif not marked:
                seen_ts.add(x["ts"])
        elif x["a"] in ("remember", "show"):
            if later and x["a"] == "show":
                return True
            if len(seen_ts) >= 2 and not marked:
                marked, mark_ts = True, max(seen_ts)
    return False


def shard_contexts(bindir):
    """contexts that the router sends to shard 0 and shard 1 (observed, not computed)"""
    root = core.WORK / "c14" / "probe"
    if root.exists():
        shutil.rmtree(root)
    root.mkdir(parents=True)
    cfg = {"root": str(root / "db"), "fill_factor": 1000, "event_per_zone": 2, "shards": 2, "k": 2}
    steps = [{"op": "cmd", "text": 'DEFINE ev FIELDS { k: "int", x: "int" }'}]
    for i in range(12):
        steps.append({"op": "cmd", "text": f'STORE ev FOR p{i} PAYLOAD {{"k": {i}, "x": 1}}'})
    steps.append({"op": "cmd", "text": "QUERY ev", "tag": ["q"]})
    rc, obs, err = core.run_vdrive(bindir, {"config": cfg, "out": str(root / "o.ndjson"), "steps": steps})
    by = {0: [], 1: []}
    for o in obs:
        if o.get("tag") == ["q"]:
            cols = o["columns"]
            for r in o["rows"]:
                by[(r[cols.index("event_id")] >> 12) & 0x3FF].append(r[cols.index("context_id")])
    shutil.rmtree(root, ignore_errors=True)
    if not by[0] or not by[1]:
        raise core.ToolError("could not find contexts for both shards")
    return by


def lifetimes(beh, ctxs, rnd, variant, filtered=True):
    """vdrive lifetimes for one behaviour; layout operations (no-ops for the model) are inserted
    between steps according to `variant`."""
    lts = [[{"op": "cmd", "text": 'DEFINE ev FIELDS { k: "int", x: "int" }', "tag": ["define"]}]]
    tick = 0
    first_remember = True
    for i, x in enumerate(beh):
        cur = lts[-1]
        a = x["a"]
        if a == "tick":
            tick += 1
        elif a == "store":
            cur.append({"op": "clock_secs", "t": BASE_S + x["ts"]})
            cur.append({"op": "clock_millis", "t": (BASE_S + 0) * 1000 + x["tick"] * (1000 // TPS), "auto_step": 0})
            cur.append({"op": "cmd", "text": f'STORE ev FOR {ctxs[x["sh"]][x["k"] % len(ctxs[x["sh"]])]} PAYLOAD {{"k": {x["k"]}, "x": 1}}', "tag": [i, "store"]})
            # STORE is acknowledged when the event is queued for its shard; the id is drawn when the shard applies it.
            # The wait below goes through the same mailbox, so after it the event has its id and the clocks may move on.
            # (a wait for flush completion, not a read: reads issued while an automatic rotation is being written can
            #  leave null cells behind - open finding C03-null-cells-after-read-during-segment-write)
            cur.append({"op": "flush_wait"})
        elif a == "remember":
            # the remembered query with a payload filter (field selectors) or without one (index selectors / segment guard)
            qtext = "QUERY ev WHERE x >= 1" if filtered else "QUERY ev"
            other = "QUERY ev" if filtered else "QUERY ev WHERE x >= 1"
            cur.append({"op": "cmd", "text": f"REMEMBER {qtext} AS m1", "tag": [i, "remember"]})
            # a second REMEMBER under the same name must be rejected AND harmless: a retry of the same query, or another query
            again = f"REMEMBER {qtext} AS m1" if i % 2 == 0 else f"REMEMBER {other} AS m1"
            cur.append({"op": "cmd", "text": again, "tag": [i, "remember_again"]})
        elif a == "show":
            last_mat = max([j for j, y in enumerate(beh[:i]) if y["a"] in ("remember", "show")], default=None)
            stored_since = last_mat is not None and any(y["a"] == "store" for y in beh[last_mat + 1:i])
            if variant == "flush_before_show" and stored_since:
                # everything stored since the last SHOW reaches a segment before the delta query runs: its zones mix
                # events below and above the mark (the per-segment / per-zone guards of the delta must keep them)
                cur.append({"op": "cmd", "text": "FLUSH", "tag": [i, "flush"]})
            cur.append({"op": "cmd", "text": "SHOW m1", "tag": [i, "show"], "timeout_ms": 15000})
            cur.append({"op": "cmd", "text": "QUERY ev WHERE x >= 1" if filtered else "QUERY ev", "tag": [i, "live"]})
            cur.append({"op": "cmd", "text": "SHOW m1", "tag": [i, "show_again"], "timeout_ms": 15000})
        # layout operations between steps
        if variant in ("flush", "layout") and a in ("store", "show") and rnd.random() < 0.35:
            op = rnd.choice(["flush", "flush", "compact", "restart"] if variant == "layout" else ["flush"])
            if op == "flush":
                cur.append({"op": "cmd", "text": "FLUSH", "tag": [i, "flush"]})
            elif op == "compact":
                cur.append({"op": "cmd", "text": "FLUSH", "tag": [i, "flush"]})
                cur.append({"op": "compact", "shard": None, "tag": [i, "compact"]})
            else:
                cur.append({"op": "shutdown"})
                lts.append([])
    return lts


def ks_of(o):
    if o is None or o.get("outcome") != "response" or o.get("status") != 200:
        return None
    cols, rows = o.get("columns", []), o.get("rows", [])
    if not rows:
        return []
    return [r[cols.index("k")] for r in rows]


def run(tier):
    chk = core.Check(PROP, "model_checking", tier)
    bindir = core.build_harness(("vdrive",))
    rnd = random.Random(core.seed())
    stats = Counter()
    q = tier == "quick"
    rm = core.tlc("Materialize", "Materialize_design.cfg", workers=8, timeout=900, coverage=True, mem="6g")
    core.tlc_ok(rm, "Materialize (design)")
    for act in ("Tick", "Store", "Remember", "Show"):
        if rm.action_cov.get(act, 0) == 0:
            raise core.ToolError(f"vacuity: {act} never taken")
    ra = core.tlc("Materialize", "Materialize_asbuilt.cfg", workers=4, timeout=600)
    chk.cov["asbuilt_model_violates"] = ra.violated
    behs, r = gen(800 if q else 6000, 14, core.seed())
    rnd.shuffle(behs)
    chosen, covered = [], set()
    for b in behs:
        f = features(b)
        if f - covered:
            chosen.append(b)
            covered |= f
    limit = 45 if q else 500
    spanning = [b for b in behs if spans_seconds(b)]
    for b in spanning[:8 if q else 80]:
        if b not in chosen:
            chosen.append(b)
    for b in behs:
        if len(chosen) >= limit:
            break
        if b not in chosen:
            chosen.append(b)
    ctxs = shard_contexts(bindir)
    core.log(f"[C14] {len(behs)} histories from TLC, {len(chosen)} replayed, {sum(1 for b in chosen if spans_seconds(b))} of them materialise two seconds and store later ones")
    for bi, beh in enumerate(chosen):
        variant = "flush_before_show" if spans_seconds(beh) and bi % 2 == 0 else ["plain", "flush", "layout", "flush_before_show"][bi % 4]
        filtered = (bi // 2) % 2 == 0
        lts = lifetimes(beh, ctxs, rnd, variant, filtered)
        root = core.WORK / "c14" / f"b{bi}"
        if root.exists():
            shutil.rmtree(root)
        root.mkdir(parents=True)
        ff, epz = [(3, 1), (2, 2), (1, 4), (2, 3)][bi % 4]      # zones of 1-4 rows, so that a zone can span old and new seconds
        if variant == "flush_before_show":
            ff, epz = 100, [4, 8][(bi // 4) % 2]                 # no automatic rotation: materialised from memory, flushed later
        cfg = {"root": str(root / "db"), "fill_factor": ff, "event_per_zone": epz, "shards": 2, "k": 2}
        by = {}
        failed = None
        for li, steps in enumerate(lts):
            rc, obs, err = core.run_vdrive(bindir, {"config": cfg, "out": str(root / f"o{li}.ndjson"), "steps": steps}, timeout=180)
            if rc != 0:
                failed = f"lifetime {li} ended with {rc}: {err[-200:]}"
                break
            for o in obs:
                t = o.get("tag")
                if isinstance(t, list) and len(t) == 2 and isinstance(t[0], int):
                    by[(t[0], t[1])] = o
        rep = {"behaviour": beh, "variant": variant, "fill_factor": ff, "event_per_zone": epz, "remembered_query_has_filter": filtered}
        stats["histories"] += 1
        if failed:
            chk.violation(failed, rep)
            continue
        for i, x in enumerate(beh):
            if x["a"] == "remember":
                o2 = by.get((i, "remember_again"))
                stats["remember_again"] += 1
                if o2 is None or o2.get("outcome") != "response" or o2.get("status") == 200:
                    chk.violation(f"REMEMBER under the existing name m1 was not rejected: {None if o2 is None else (o2.get('outcome'), o2.get('status'))}", rep)
            if x["a"] != "show":
                continue
            stats["shows"] += 1
            show, live, again = ks_of(by.get((i, "show"))), ks_of(by.get((i, "live"))), ks_of(by.get((i, "show_again")))
            where = f"SHOW at step {i} ({variant})"
            if any(v is not None and None in v for v in (show, live, again)):
                chk.violation(f"{where}: a returned row has no value in column k: show={show} live={live} again={again}", rep)
                break
            if show is None or live is None or again is None:
                chk.violation(f"{where}: a command failed: {[(by.get((i, k)) or {}).get('status') for k in ('show', 'live', 'show_again')]} "
                              f"{(by.get((i, 'show')) or {}).get('message')}", rep)
                break
            if sorted(live) != sorted(x["live"]):
                # the live query itself is off (storage-level findings after restarts/flushes): not judged here
                stats["live_query_off"] += 1
                break
            ok = True
            if len(show) != len(set(show)):
                chk.violation(f"{where}: an event is returned twice: {sorted(show)}", rep)
                ok = False
            elif sorted(show) != sorted(live):
                ok = False
                desc = f"{where}: SHOW returned {sorted(show)}, the live query returns {sorted(live)}"
                if sorted(show) == sorted(x["asbuilt"]):
                    if chk.classify(["C14-watermark-skips-events-below-the-mark"], desc, rep) == "known":
                        stats["known_skipped"] += 1
                else:
                    chk.violation(desc + f"; as-built model predicts {sorted(x['asbuilt'])}", rep)
            if sorted(again) != sorted(show):
                chk.violation(f"{where}: repeating SHOW with no new data changed the rows: {sorted(show)} then {sorted(again)}", rep)
                ok = False
            if ok and len(show) >= 2:
                stats["shows_ok_nontrivial"] += 1
            if not ok:
                break
        shutil.rmtree(root, ignore_errors=True)
    if chosen:
        chk.sample({"history": chosen[0]})
    chk.cov["states"] = rm.distinct + r.distinct
    chk.cov["transitions"] = rm.generated + r.generated
    chk.cov["traces_validated_against_impl"] = stats["histories"]
    chk.cov["evaluations"] = stats["shows"]
    chk.cov["distinct_nontrivial"] = stats["shows_ok_nontrivial"] + stats["known_skipped"]
    chk.cov["rule"] = ("one evaluation = one SHOW of a TLC-generated history replayed with injected clocks, compared with the live query issued "
                       "back to back and with the as-built model; non-trivial = at least two rows")
    chk.cov["stats"] = dict(stats)
    chk.assumptions += ["clocks are injected (STORE second, id millisecond); 'accepted earlier, applied later' is produced by scripting the two clocks apart",
                        "one remembered selection query per history (with a payload filter or without, alternating); two shards"]
    return chk.finish()


def replay(path):
    print(open(path).read()[:3000])
    return 0
