"""C19 - WAL files are deleted only after a complete, lossless archive exists.

Stage M: TLC checks, on every cleanup the reference machine of WalArchive.tla performs (all log populations x fault
         patterns x keepFrom x follow-up steps of the small model), the property predicates P1 (deleted => complete
         archive), P2 (any eligible archive failed => nothing deleted), P3a (archives written are lossless), P3b
         (recovery = archives in log order) plus the ghost invariants; deliberately wrong reference machines
         (Mutant constant) must be rejected by the same predicates.
Stage R: TLC enumerates the cases (single cleanup: every population/fault/keepFrom; multi step: fail -> heal ->
         cleanup again, logs added in between; flush path: rounds of "writer closes log r, fault changes, flush
         worker calls cleanup_up_to(r+1)") with the predicted observation after every step. Python concretises them
         (payload / timestamp / event id / log id classes, torn-line variants, raw files or the real InnerWalWriter,
         real STOREs for the flush path), harness/vwalarch runs them on the real WalCleaner / WalArchiver /
         WalArchiveRecovery (directly, and through the real flush worker parked at flush.passive_cleared).
Stage T: every recorded run (the Stage R runs and larger TLC-simulated behaviours) is written as NDJSON with the
         observations interned to abstract values and judged by WalArchiveTrace.tla: the property predicates give the
         verdict; agreement with the reference machine / printed expectation is reported as drift (not a verdict)."""
import base64
import hashlib
import json
import random
import re
import shutil
import subprocess
import time
from concurrent.futures import ThreadPoolExecutor
from pathlib import Path

from vlib import core

PROP = "C19"
W = core.WORK / "c19"
F_CUSTOM_DIR = "C19-custom-wal-dir-unarchived"

# ------------------------------------------------------------------ concrete classes (abstract index -> literal)
TYPES = [None, "ev_a", "ev_b"]
CTXS = [None, "c1", "c-2_x", "ctx ünï"]
ENG_CTXS = [None, "c1", "c2", "c3"]
PAYLOADS = [None,
            {},
            {"k": 1, "s": "x"},
            {"k": -9223372036854775808, "f": 1.0},
            {"k": 9223372036854775807, "f": -0.5, "b": True},
            {"s": "123", "s2": "true", "n": None},
            {"s": "", "u": "héllo ☃ \U0001F600", "e": "line\nbreak \"q\" \\ \t"},
            {"f": 1e308, "g": 5e-324, "z": 0.0, "nz": -0.0},
            {"big": "18446744073709551615", "j": "{\"a\":[1,2]}", "long": "x" * 300},
            {"k": 0, "b": False, "f": 3.0}]
ENG_PAYLOADS = [None,
                {"k": 0, "s": "", "f": 0.5, "b": False},
                {"k": 1, "s": "x", "f": 1.0, "b": True},
                {"k": -9223372036854775808, "s": "123", "f": -0.5, "b": True},
                {"k": 9223372036854775807, "s": "true", "f": 1e308, "b": False},
                {"k": -1, "s": "héllo ☃", "f": 3.0, "b": True},
                {"k": 42, "s": "a b  c", "f": 5e-324, "b": False},
                {"k": 7, "s": "null", "f": -2.5, "b": True},
                {"k": 1000000, "s": "x" * 200, "f": 123456.789, "b": False},
                {"k": 3, "s": "{\"a\":1}", "f": 2.0, "b": True}]
ENG_FIELDS = '{ k: "int", s: "string", f: "float", b: "bool" }'
# order preserving; index = abstract timestamp; abstract 0 <-> concrete 0 (the archive name of a file without entries)
TS_TABLES = [[0] + [1000 + i for i in range(1, 13)],
             [0] + [1700000000 + 3600 * i for i in range(1, 13)],
             [0, 1, 2, 3, 5, 4294967296, 4294967301, 2 ** 53 + 1, 2 ** 63, 2 ** 63 + 7, 2 ** 64 - 3, 2 ** 64 - 2, 2 ** 64 - 1]]
IDMAPS = [[0, 1, 2, 3, 4, 5, 6], [7, 8, 12, 13, 20, 21, 22], [98, 99, 100, 101, 102, 103, 104],
          [9998, 9999, 10000, 10001, 10002, 10003, 10004], list(range(99993, 100000))]
LONG_IDMAPS = [list(range(0, 14)), list(range(95, 109))]      # for the backlog family (more logs than the generator enumerates)


def conc_id(a, k):
    return [a, 2 ** 60 + a, 2 ** 63 + a, 2 ** 64 - 1 - a][(a + k) % 4]


def canon(v):
    return json.dumps(v, sort_keys=True, ensure_ascii=True)


def line_of(e):
    """The line the WAL writer produces for an entry (serde field order, compact)."""
    o = {"timestamp": e["timestamp"], "context_id": e["context_id"], "event_type": e["event_type"],
         "payload": {k: e["payload"][k] for k in sorted(e["payload"])}, "event_id": e["event_id"]}
    return json.dumps(o, separators=(",", ":"), ensure_ascii=False)


class Interner:
    """concrete value -> abstract index (0 / -1 = a value no original entry has)."""

    def __init__(self):
        self.t, self.c, self.ts, self.id, self.p, self.log = {}, {}, {0: 0}, {}, {}, {}

    def entry(self, e):
        try:
            return {"t": self.t.get(e["event_type"], 0), "c": self.c.get(e["context_id"], 0),
                    "ts": self.ts.get(e["timestamp"], -1), "id": self.id.get(e["event_id"], 0),
                    "p": self.p.get(canon(e["payload"]), 0)}
        except (KeyError, TypeError):
            return {"t": 0, "c": 0, "ts": -1, "id": 0, "p": 0}


# ------------------------------------------------------------------ abstract behaviour -> harness input
class Conc:
    """One concretised behaviour."""

    def __init__(self, idx, beh, rnd, mode, src, params=None):
        self.idx, self.beh, self.mode, self.src = idx, beh, mode, src
        self.it = Interner()
        self.params = params or {"salt": rnd.randrange(1000), "tst": 0 if mode == "engine" else rnd.randrange(len(TS_TABLES)),
                                 "idmap": 0 if mode == "engine" else rnd.randrange(len(IDMAPS)), "wseed": rnd.randrange(1 << 30)}
        rnd = random.Random(self.params["wseed"])
        self.salt = self.params["salt"]
        self.tst = TS_TABLES[self.params["tst"]]
        self.idmap = IDMAPS[self.params["idmap"]] if not beh.get("long_ids") else LONG_IDMAPS[self.params["idmap"] % len(LONG_IDMAPS)]
        self.use_other = mode == "direct" and src == "T-custom-dir"
        self.ctxs = ENG_CTXS if mode == "engine" else CTXS
        self.pay = ENG_PAYLOADS if mode == "engine" else PAYLOADS
        for i, l in enumerate(self.idmap):
            self.it.log[l] = i
        for i, t in enumerate(self.tst):
            self.it.ts[t] = i
        for i in range(1, len(TYPES)):
            self.it.t[TYPES[i]] = i
        for i in range(1, len(self.ctxs)):
            self.it.c[self.ctxs[i]] = i
        for i in range(1, len(self.pay)):
            self.it.p[canon(self.pay[i])] = i
        self.rnd = rnd
        self.steps = []          # harness steps
        self.orig = {}           # abstract log id -> abstract items actually on the file (filled after the run for writer/engine)
        self.build()

    def centry(self, e):
        cid = conc_id(e["id"], self.salt)
        self.it.id[cid] = e["id"]
        return {"timestamp": self.tst[e["ts"]], "context_id": self.ctxs[e["c"]], "event_type": TYPES[e["t"]],
                "payload": self.pay[e["p"]], "event_id": cid}

    def name(self, n):
        return "wal-%05d-%d-%d.wal.zst" % (self.idmap[n[0]], self.tst[n[1]], self.tst[n[2]])

    def torn_line(self, l, j):
        full = line_of(self.centry({"t": 1, "c": 1, "ts": 1, "id": 900 + 10 * l + j, "p": 2 + (l + j) % 8}))
        v = (self.salt + l + j) % 5
        if v == 0:
            return full[:-1]                       # only the closing brace is missing
        if v == 1:
            return full[:full.index('"payload"') + 12]
        if v == 2:
            return "{"
        if v == 3:
            return full[:len(full) // 2]
        return "\u0000\u0001 not json at all"

    def fault_step(self, st):
        f = {"op": "fault", "dir": st["dir"], "unblock": [self.name(n) for n in st["unblock"]],
             "block": [{"name": self.name(b["n"]), "kind": b["kind"]} for b in st["block"]], "pre": []}
        for p in st["pre"]:
            q = {"name": self.name(p["n"]), "kind": "valid" if p["ok"] else "garbage", "log": self.idmap[p["n"][0]],
                 "start": self.tst[p["n"][1]], "end": self.tst[p["n"][2]], "entries": [self.centry(e) for e in p["es"]]}
            f["pre"].append(q)
        return f

    def build(self):
        where = "other" if self.use_other else "cfg"
        if self.mode == "engine":
            self.steps.append({"op": "define", "text": f"DEFINE {TYPES[1]} FIELDS {ENG_FIELDS}"})
            self.steps.append({"op": "define", "text": f"DEFINE {TYPES[2]} FIELDS {ENG_FIELDS}"})
            b = self.beh["steps"]
            assert len(b) % 3 == 0
            for r in range(len(b) // 3):
                add, flt, cl = b[3 * r:3 * r + 3]
                assert add["op"] == "addlog" and flt["op"] == "fault" and cl["op"] == "cleanup" and cl["kf"] == add["l"] + 1
                stores = []
                for itx in add["items"]:
                    e = itx["e"]
                    stores.append({"text": "STORE %s FOR %s PAYLOAD %s" % (TYPES[e["t"]], self.ctxs[e["c"]],
                                                                         json.dumps(self.pay[e["p"]])),
                                   "clock": self.tst[e["ts"]]})
                self.steps.append({"op": "round", "log": add["l"], "stores": stores, "fault": self.fault_step(flt)})
            return
        for st in self.beh["steps"]:
            if st["op"] == "addlog":
                items = st["items"]
                only_entries = all(x["k"] == "e" for x in items)
                if only_entries and items and self.rnd.random() < 0.35:
                    self.steps.append({"op": "addlog_writer", "log": self.idmap[st["l"]], "where": where,
                                       "entries": [self.centry(x["e"]) for x in items]})
                    continue
                lines = []
                for j, x in enumerate(items):
                    if x["k"] == "e":
                        lines.append({"s": line_of(self.centry(x["e"]))})
                    elif x["k"] == "torn":
                        lines.append({"s": self.torn_line(st["l"], j)})
                    elif x["k"] == "blank":
                        lines.append({"s": ["", "   ", "\t"][(self.salt + j) % 3]})
                    else:
                        lines.append({"b64": base64.b64encode(b'\xff\xfe{"timestamp": 1, \xc3\x28').decode()})
                torn_last = bool(items) and items[-1]["k"] == "torn"
                final_nl = not torn_last and not (items and items[-1]["k"] == "e" and self.salt % 4 == 0)
                self.steps.append({"op": "addlog", "log": self.idmap[st["l"]], "lines": lines, "final_newline": final_nl,
                                   "where": where})
            elif st["op"] == "fault":
                self.steps.append(self.fault_step(st))
            elif st["op"] == "cleanup":
                via = "other_dir" if self.use_other else (st["via"] if st["via"] in ("new", "with_wal_dir") else "new")
                self.steps.append({"op": "cleanup", "keep_from": self.idmap[st["kf"]], "via": via})

    def harness_input(self):
        return {"beh": self.idx, "use_other": self.use_other, "steps": self.steps}

    # ---------------------------------------------------------------- observations -> abstract
    def abs_items(self, lines, l):
        """Items of a log file as written by the real writer / engine, interned.
        Event ids the engine generated are named by their position in the log (10*l + i), as the generator does."""
        items = []
        n = 0
        for s in lines:
            try:
                e = json.loads(s)
                if not (isinstance(e, dict) and {"timestamp", "context_id", "event_type", "payload"} <= set(e)):
                    raise ValueError
            except ValueError:
                items.append({"k": "blank"} if not s.strip() else {"k": "torn"})
                continue
            n += 1
            if e.get("event_id") not in self.it.id:
                self.it.id[e.get("event_id")] = 10 * l + n
            items.append({"k": "e", "e": self.it.entry(e)})
        return items

    def abs_obs(self, o):
        wal_names = o.get("wal_other") if self.use_other else o.get("wal")
        wal = []
        for nm in wal_names or []:
            m = re.fullmatch(r"wal-(\d+)\.log", nm)
            wal.append(self.it.log.get(int(m.group(1)), -1) if m else -1)
        arch = []
        for a in o.get("arch", []):
            if a["kind"] != "file":
                continue
            m = re.fullmatch(r"wal-(\d+)-(\d+)-(\d+)\.wal\.zst", a["name"])
            n = [self.it.log.get(int(m.group(1)), -1), self.it.ts.get(int(m.group(2)), -1),
                 self.it.ts.get(int(m.group(3)), -1)] if m else [-1, -1, -1]
            d = a.get("decoded")
            arch.append({"n": n, "ok": d is not None, "es": [self.it.entry(e) for e in d["entries"]] if d else [],
                         "cnt": min(int(d["entry_count"]), 1000000) if d else 0})
        arch.sort(key=lambda a: a["n"])
        rec = o.get("rec", {})
        if "ok" in rec:
            recst, r = "ok", [self.it.entry(e) for e in rec["ok"]]
        elif "skipped" in rec:
            recst, r = "skip", []
        else:
            recst, r = "err", []
        return {"wal": sorted(wal), "vis": bool(o.get("arch_vis")), "arch": arch, "recst": recst, "rec": r}

    def trace_record(self, obs):
        """obs: harness observation lines of this behaviour. Returns the NDJSON record for WalArchiveTrace or None."""
        steps = [dict(s) for s in self.beh["steps"]]
        if self.mode == "engine":
            o2 = [o for o in obs if o["op"].startswith("round.")]
        else:
            o2 = [o for o in obs if o["i"] >= 0]
        if len(o2) != len(steps):
            return None
        for s, o in zip(steps, o2):
            if s["op"] == "addlog" and o.get("written_lines") is not None:
                s["items"] = self.abs_items(o["written_lines"], s["l"])
        return {"beh": self.idx, "steps": steps, "obs": [self.abs_obs(o) for o in o2], "exp": self.beh.get("exp", [])}


# ------------------------------------------------------------------ TLC front ends
BASE_CFG = {"N": 3, "InitN": 3, "Shapes": [], "GrowShapes": [], "DirFaults": [], "PreKinds": [], "Mode": "cases", "MaxSteps": 1,
            "StepKinds": ["cleanup"], "Mutant": "none", "DoPrint": True, "Stride": 1, "Phase": 0}
ALL_SHAPES = ["empty", "one", "two", "tornLast", "onlyTorn", "mixed", "bad"]
ALL_DIRS = ["noShard", "noRoot", "rootFile", "shardFile"]
INVS = "Emit LastCleanupJudged GoneAreArchived GoneRecovered NoResurrection"


def write_cfg(name, **kw):
    c = dict(BASE_CFG)
    c.update(kw)

    def lit(v):
        if isinstance(v, bool):
            return "TRUE" if v else "FALSE"
        if isinstance(v, int):
            return str(v)
        if isinstance(v, str):
            return f'"{v}"'
        return "{" + ", ".join(lit(x) for x in v) + "}"
    txt = "SPECIFICATION Spec\nCONSTANTS\n" + "".join(f"  {k} = {lit(v)}\n" for k, v in c.items())
    txt += f"INVARIANTS {INVS}\nCHECK_DEADLOCK FALSE\n"
    d = W / "cfg"
    d.mkdir(parents=True, exist_ok=True)
    p = d / f"{name}.cfg"
    p.write_text(txt)
    return p


def gen(name, simulate=None, depth=None, coverage=False, timeout=900, **kw):
    cfg = write_cfg(name, **kw)
    r = core.tlc("WalArchive", cfg, workers=8, simulate=simulate, depth=depth, seed_=core.seed() if simulate else None,
                 coverage=coverage, timeout=timeout, xss=True, metaname=f"c19-{name}")
    core.tlc_ok(r, f"WalArchive {name}")
    return r


# ------------------------------------------------------------------ running the harness
def run_direct(bindir, concs, tag):
    """Run direct-mode behaviours in parallel harness processes. Returns {idx: [observations]}."""
    if not concs:
        return {}
    nproc = min(8, max(1, len(concs) // 50))
    chunks = [concs[k::nproc] for k in range(nproc)]
    base = W / "run" / tag
    shutil.rmtree(base, ignore_errors=True)
    base.mkdir(parents=True, exist_ok=True)

    def one(k):
        root = base / f"p{k}"
        root.mkdir()
        inp, out = root / "in.ndjson", root / "out.ndjson"
        inp.write_text("".join(json.dumps(c.harness_input()) + "\n" for c in chunks[k]))
        job = {"config": {"root": str(root / "root"), "wal_conservative": True, "archive_dir": str(root / "root" / "archived"),
                          "fill_factor": 1, "event_per_zone": 2},
               "mode": "direct", "shard": [0, 3, 0, 11][k % 4], "in": str(inp), "out": str(out)}
        (root / "job.json").write_text(json.dumps(job))
        try:
            p = subprocess.run([str(bindir / "vwalarch"), str(root / "job.json")], capture_output=True, text=True, timeout=1200)
        except subprocess.TimeoutExpired:
            raise core.ToolError(f"vwalarch timed out on {root}")
        if p.returncode != 0:
            raise core.ToolError(f"vwalarch failed rc={p.returncode} on {root}: {p.stderr[-2000:]}")
        res = {}
        for line in out.read_text().splitlines():
            o = json.loads(line)
            res.setdefault(o["beh"], []).append(o)
        return res
    out = {}
    with ThreadPoolExecutor(nproc) as ex:
        for res in ex.map(one, range(nproc)):
            out.update(res)
    return out


def run_engine(bindir, concs, tag):
    """One engine lifetime (process, root) per behaviour."""
    base = W / "run" / tag
    shutil.rmtree(base, ignore_errors=True)
    base.mkdir(parents=True, exist_ok=True)

    def one(c):
        root = base / f"b{c.idx}"
        root.mkdir()
        inp, out = root / "in.ndjson", root / "out.ndjson"
        inp.write_text(json.dumps(c.harness_input()) + "\n")
        job = {"config": {"root": str(root / "root"), "wal_conservative": True, "archive_dir": str(root / "root" / "archived"),
                          "fill_factor": 1, "event_per_zone": 2, "shards": 1},
               "mode": "engine", "in": str(inp), "out": str(out)}
        (root / "job.json").write_text(json.dumps(job))
        try:
            p = subprocess.run([str(bindir / "vwalarch"), str(root / "job.json")], capture_output=True, text=True, timeout=300)
        except subprocess.TimeoutExpired:
            raise core.ToolError(f"vwalarch (engine) timed out on {root}")
        obs = [json.loads(x) for x in out.read_text().splitlines()] if out.exists() else []
        errs = [o for o in obs if o.get("op") == "harness_error"]
        if p.returncode != 0 or errs:
            raise core.ToolError(f"vwalarch (engine) rc={p.returncode} on {root}: {errs[:1]} {p.stderr[-1500:]}")
        return c.idx, obs
    out = {}
    with ThreadPoolExecutor(6) as ex:
        for idx, obs in ex.map(one, concs):
            out[idx] = obs
    return out


def judge(records, tag):
    """WalArchiveTrace on NDJSON chunks. Returns {beh: verdict}, states, generated."""
    base = W / "trace" / tag
    shutil.rmtree(base, ignore_errors=True)
    base.mkdir(parents=True, exist_ok=True)
    size = 1500
    chunks = [records[i:i + size] for i in range(0, len(records), size)]

    def one(k):
        p = base / f"t{k}.ndjson"
        p.write_text("".join(json.dumps(r) + "\n" for r in chunks[k]))
        r = core.tlc("WalArchiveTrace", "WalArchiveTrace.cfg", workers=1, env={"TRACE": str(p)}, timeout=1500, xss=True,
                     metaname=f"c19-trace-{tag}-{k}")
        core.tlc_ok(r, f"WalArchiveTrace {tag}/{k}")
        vs = r.printed("V")
        if len(vs) != len(chunks[k]):
            raise core.ToolError(f"trace spec judged {len(vs)} of {len(chunks[k])} records ({p})")
        return vs, r.distinct, r.generated
    out, st, tr = {}, 0, 0
    with ThreadPoolExecutor(6) as ex:
        for vs, d, g in ex.map(one, range(len(chunks))):
            st += d
            tr += g
            for v in vs:
                out[v["beh"]] = v
    return out, st, tr


# ------------------------------------------------------------------ the check
def stage_m(chk, tier):
    q = tier == "quick"
    # (a) every initial population x fault pattern, two consecutive cleanups (any keepFrom twice)
    ra = gen("m-a", coverage=True, N=3, InitN=3, Shapes=["empty", "two", "tornLast", "bad"] if q else ALL_SHAPES, GrowShapes=["one"],
             DirFaults=ALL_DIRS, PreKinds=["garbage", "stale"], MaxSteps=2 if q else 3, StepKinds=["cleanup", "heal", "addlog"], DoPrint=False)
    # (b) cleanup, then the environment moves (heal / new fault pattern / pre-existing archive / new log), then cleanup
    rb = gen("m-b", coverage=True, N=3, InitN=2, Shapes=["two", "tornLast", "bad"] if q else ["empty", "two", "tornLast", "mixed", "bad"],
             GrowShapes=["one", "bad"], DirFaults=ALL_DIRS, PreKinds=["garbage", "stale"], MaxSteps=3,
             StepKinds=["cleanup", "heal", "addlog", "fault"], DoPrint=False)
    if ra.action_cov.get("CleanupAct", 0) == 0:
        raise core.ToolError("Stage M: CleanupAct never taken")
    for a in ("CleanupAct", "HealAct", "AddLogAct", "FaultAct"):
        if rb.action_cov.get(a, 0) == 0:
            raise core.ToolError(f"Stage M: action {a} never taken")
    states, trans = ra.distinct + rb.distinct, ra.generated + rb.generated
    chk.cov["stage_m"] = {"two_cleanups": {"distinct": ra.distinct, "generated": ra.generated, "wall_s": round(ra.wall, 1)},
                          "with_environment_steps": {"distinct": rb.distinct, "generated": rb.generated, "wall_s": round(rb.wall, 1),
                                                     "actions": rb.action_cov}}
    core.log(f"[C19] stage M: {states} distinct states, {trans} generated in {ra.wall + rb.wall:.1f}s")
    # the predicates must reject wrong machines
    killed = []
    for mut in ("deleteOnPartialFailure", "deleteLE", "dropLastEntry", "reverseRecover"):
        cfg = write_cfg(f"mut-{mut}", N=2, InitN=2, Shapes=["two", "bad"], GrowShapes=["one"], DirFaults=["shardFile"],
                        PreKinds=["stale"], MaxSteps=1, StepKinds=["cleanup"], Mutant=mut, DoPrint=False)
        mr = core.tlc("WalArchive", cfg, workers=4, timeout=300, xss=True, metaname=f"c19-mut-{mut}")
        if not mr.violated:
            core.log(mr.out[-3000:])
            raise core.ToolError(f"Stage M: mutant reference machine '{mut}' is not rejected by the property predicates")
        killed.append(f"{mut}:{mr.violated}")
    chk.cov["mutant_machines_rejected"] = killed
    return states, trans


def campaign(chk, bindir, behs, mode, src, tag, rnd):
    """Concretise, run, judge. Returns stats."""
    concs = [Conc(f"{tag}-{i}", b, random.Random(rnd.randrange(1 << 30)), mode, src) for i, b in enumerate(behs)]
    t0 = time.time()
    obs = run_engine(bindir, concs, tag) if mode == "engine" else run_direct(bindir, concs, tag)
    t1 = time.time()
    recs, byidx = [], {}
    for c in concs:
        rec = c.trace_record(obs.get(c.idx, []))
        if rec is None:
            raise core.ToolError(f"{tag}: behaviour {c.idx} has {len(obs.get(c.idx, []))} observations for {len(c.beh['steps'])} steps")
        recs.append(rec)
        byidx[c.idx] = (c, rec)
    verdicts, st, tr = judge(recs, tag)
    t2 = time.time()
    stats = {"behaviours": len(concs), "cleanups": 0, "nontrivial": 0, "deleting": 0, "withfail": 0, "partial": 0, "deleted_logs": 0,
             "drift": 0, "expbad": 0, "envdrift": 0, "violating": 0, "known": 0, "trace_states": st, "trace_transitions": tr,
             "distinct_nontrivial": set()}
    for idx, v in verdicts.items():
        c, rec = byidx[idx]
        f = v["feat"]
        stats["cleanups"] += f["cleanups"]
        stats["nontrivial"] += f["nontrivial"]
        stats["deleting"] += f["deleting"]
        stats["withfail"] += f["withfail"]
        stats["partial"] += f["partial"]
        stats["deleted_logs"] += f["deleted"]
        if f["nontrivial"] > 0:
            stats["distinct_nontrivial"].add(hashlib.sha1(json.dumps([rec["steps"], c.harness_input()["steps"]], sort_keys=True).encode()).hexdigest())
        replay = {"mode": mode, "src": src, "abstract": c.beh, "params": c.params, "harness": c.harness_input(), "verdict": v,
                  "observations": rec["obs"]}
        if not v["ok"]:
            fails = sorted({x for b in v["bad"] for x in b["fails"]})
            desc = f"{src}: cleanup step(s) {sorted(b['k'] for b in v['bad'])} violate {fails}"
            if c.use_other and set(fails) <= {"P1-deleted-without-complete-archive", "P2-deleted-although-an-archive-failed"}:
                if chk.classify([F_CUSTOM_DIR], desc, replay) == "known":
                    stats["known"] += 1
                    continue
            else:
                chk.violation(desc, replay)
            stats["violating"] += 1
            continue
        if c.use_other:
            continue
        envd = [k for k in v["drift"] if rec["steps"][k - 1]["op"] != "cleanup"]
        if envd:
            stats["envdrift"] += 1
            core.log(f"[C19] {tag}: harness/environment step disagrees with the model in {idx} at {envd}")
            chk.sample({"env_drift": replay}, cap=8)
        elif v["drift"] or v["expbad"]:
            stats["drift" if v["drift"] else "expbad"] += 1
            if stats["drift"] + stats["expbad"] <= 3:
                core.log(f"[C19] {tag}: property holds but the reference machine predicts something else in {idx}: "
                         f"drift={v['drift']} exp={v['expbad']}")
                p = chk.replay_dir / f"{PROP}-drift-{tag}-{stats['drift'] + stats['expbad']}.json"
                p.write_text(json.dumps({"property": PROP, "what": "model drift (not a violation)", "replay": replay}, indent=1))
    core.log(f"[C19] {tag}: {len(concs)} behaviours, run {t1 - t0:.1f}s, judge {t2 - t1:.1f}s, "
             f"cleanups={stats['cleanups']} deleting={stats['deleting']} withfail={stats['withfail']} partial={stats['partial']} "
             f"drift={stats['drift']}/{stats['expbad']} viol={stats['violating']} known={stats['known']}")
    return stats, concs


def backlog_behaviours():
    """A backlog of closed logs cleaned up in ONE pass (9-12 logs, healthy archive directory): written by hand because
    the generator enumerates fault patterns per log and does not scale beyond 6 logs.  The expectation is the reference
    machine's: every log below keep_from archived completely, then deleted; recovery returns every entry in log order."""
    out = []
    for n, kf in ((9, 9), (10, 10), (12, 12), (12, 10)):
        steps, entries = [], {}
        for l in range(n):
            es = [{"ts": 1 + (l % 5), "c": 1 + l % 3, "t": 1 + l % 2, "id": 10 * l + 1, "p": 1 + l % 4},
                  {"ts": 2 + (l % 5), "c": 1 + (l + 1) % 3, "t": 1 + (l + 1) % 2, "id": 10 * l + 2, "p": 1 + (l + 1) % 4}]
            entries[l] = es
            steps.append({"items": [{"k": "e", "e": e} for e in es], "l": l, "op": "addlog"})
        steps.append({"dir": "ok", "pre": [], "unblock": [], "block": [], "op": "fault"})
        steps.append({"kf": kf, "op": "cleanup", "via": "new"})
        arch = [{"n": [l, entries[l][0]["ts"], entries[l][1]["ts"]], "ok": True, "es": entries[l], "cnt": 2} for l in range(kf)]
        exp = [{"i": n + 1, "o": {"wal": list(range(n)), "vis": True, "arch": [], "recst": "ok", "rec": []}},
               {"i": n + 2, "o": {"wal": list(range(kf, n)), "vis": True, "arch": arch, "recst": "ok", "rec": [e for l in range(kf) for e in entries[l]]}}]
        out.append({"steps": steps, "exp": exp, "long_ids": True})
    return out


def run(tier):
    chk = core.Check(PROP, "model_checking", tier)
    bindir = core.build_harness(("vwalarch",))
    W.mkdir(parents=True, exist_ok=True)
    q = tier == "quick"
    rnd = random.Random(core.seed())
    states, trans = stage_m(chk, tier)

    plans = []
    # single cleanup: every population x fault pattern x keepFrom of the small model
    r = gen("single", N=3, InitN=3, Shapes=["empty", "two", "tornLast", "bad"] if q else ALL_SHAPES, GrowShapes=["one"],
            DirFaults=ALL_DIRS, PreKinds=["garbage", "stale"], MaxSteps=1, StepKinds=["cleanup"],
            Stride=2 if q else 1, Phase=core.seed())
    plans.append(("R-single", "direct", r.printed("BEH")))
    states += r.distinct
    trans += r.generated
    # several steps: failure, heal, cleanup again, logs added in between
    r = gen("multi", N=3, InitN=3, Shapes=["two", "bad"], GrowShapes=["one", "bad"], DirFaults=["noRoot", "shardFile"],
            PreKinds=["stale"], MaxSteps=3, StepKinds=["cleanup", "heal", "addlog"], Stride=6 if q else 1, Phase=core.seed())
    plans.append(("R-multi", "direct", r.printed("BEH")))
    plans.append(("R-backlog", "direct", backlog_behaviours()))
    states += r.distinct
    trans += r.generated
    # the real flush path
    r = gen("flush", N=4, InitN=0, Mode="flush", MaxSteps=3, StepKinds=[], Stride=2 if q else 1, Phase=core.seed())
    flush = r.printed("BEH")
    states += r.distinct
    trans += r.generated
    if not q:
        r = gen("flush4", N=5, InitN=0, Mode="flush", MaxSteps=4, StepKinds=[], Stride=6, Phase=core.seed())
        flush += r.printed("BEH")
        states += r.distinct
        trans += r.generated
    plans.append(("R-flush", "engine", flush))
    # larger random behaviours (TLC simulation of the same machine)
    r = gen("sim", simulate=150 if q else 600, depth=12, N=6, InitN=2, Shapes=ALL_SHAPES + ["full"], GrowShapes=ALL_SHAPES + ["full"],
            DirFaults=ALL_DIRS, PreKinds=["garbage", "stale"], MaxSteps=7, StepKinds=["cleanup", "heal", "addlog", "fault"],
            Stride=16, Phase=core.seed())
    sim = r.printed("BEH")
    seen, uniq = set(), []
    for b in sim:
        k = json.dumps(b["steps"], sort_keys=True)
        if k not in seen:
            seen.add(k)
            uniq.append(b)
    plans.append(("T-sim", "direct", uniq))
    # the cleaner constructed with a WAL directory that is not the configured one
    plans.append(("T-custom-dir", "direct", [b for b in uniq if any(s["op"] == "cleanup" and s["kf"] > 0 for s in b["steps"])][:40 if q else 300]))

    total = {"behaviours": 0, "cleanups": 0, "nontrivial": 0, "deleting": 0, "withfail": 0, "partial": 0, "deleted_logs": 0,
             "drift": 0, "expbad": 0, "envdrift": 0, "violating": 0, "known": 0, "trace_states": 0, "trace_transitions": 0}
    distinct = set()
    per = {}
    for src, mode, behs in plans:
        if not behs:
            raise core.ToolError(f"{src}: the generator produced no behaviour")
        stats, concs = campaign(chk, bindir, behs, mode, src, src.lower(), rnd)
        distinct |= stats.pop("distinct_nontrivial")
        per[src] = dict(stats)
        for k in total:
            total[k] += stats[k]
        for c in concs[:1]:
            chk.sample({"src": src, "abstract_steps": c.beh["steps"], "harness_steps": json.loads(json.dumps(c.harness_input()["steps"]))[:6]})
    if total["envdrift"]:
        raise core.ToolError(f"{total['envdrift']} behaviours: an environment step (addlog/fault) of the harness disagrees with the model")
    if per["R-flush"]["deleting"] == 0 or per["R-single"]["partial"] == 0 or per["R-single"]["deleting"] == 0:
        raise core.ToolError("vacuous campaign: no deleting cleanup / no partial archive failure was exercised")
    chk.cov["states"] = states
    chk.cov["transitions"] = trans
    chk.cov["traces_validated_against_impl"] = total["behaviours"]
    chk.cov["trace_spec_states"] = total["trace_states"]
    chk.cov["evaluations"] = total["cleanups"]
    chk.cov["distinct_nontrivial"] = len(distinct)
    chk.cov["rule"] = ("one evaluation = one cleanup step (WalCleaner::cleanup_up_to, directly or through the flush worker) of a "
                       "TLC-generated behaviour executed on the real code and judged by WalArchiveTrace (P1, P2, P3a, P3b); "
                       "distinct_nontrivial = distinct (abstract steps, concrete harness steps) behaviours containing at least one "
                       "cleanup with a non-empty eligible set")
    chk.cov["per_source"] = per
    chk.cov["cleanups_deleting"] = total["deleting"]
    chk.cov["cleanups_with_failed_archive"] = total["withfail"]
    chk.cov["cleanups_with_partial_failure"] = total["partial"]
    chk.cov["log_files_deleted"] = total["deleted_logs"]
    chk.cov["model_drift_behaviours"] = total["drift"] + total["expbad"]
    chk.cov["exhaustive"] = False
    chk.assumptions += [
        "archive failures are injected without hooks: archive root / shard directory is a regular file, a directory, a dangling "
        "symlink or a symlink to /dev/full sits at the deterministic archive file name, a log file is not valid UTF-8; "
        "short writes / fsync errors of a regular file are not injected",
        "log ids below 100000 (the archive name pads the id to 5 digits; recovery orders archives by file name)",
        "flush path: one shard, capacity 2, auto flush only (segment id = WAL log id), the flush worker is parked at "
        "flush.passive_cleared while the harness reads the closed log and changes the fault state",
        "a WAL line counts as an entry iff it parses as a WalEntry; lines are the ones the WAL writer can produce",
    ]
    if total["drift"] + total["expbad"]:
        core.log(f"[C19] note: {total['drift'] + total['expbad']} behaviours satisfy the property but differ from the reference machine "
                 f"(see {chk.replay_dir}/C19-drift-*.json)")
    return chk.finish()


def replay(path):
    d = json.load(open(path))["replay"]
    bindir = core.build_harness(("vwalarch",))
    c = Conc("replay-0", d["abstract"], random.Random(0), d["mode"], d["src"], params=d["params"])
    obs = (run_engine if d["mode"] == "engine" else run_direct)(bindir, [c], "replay")
    for o in obs.get(c.idx, []):
        print(json.dumps({k: o[k] for k in o if k != "beh"})[:1500])
    rec = c.trace_record(obs.get(c.idx, []))
    verdicts, _, _ = judge([rec], "replay")
    v = verdicts[c.idx]
    print(json.dumps({"verdict_now": v, "recorded_verdict": d["verdict"]}))
    return 0 if v["ok"] else 1
