"""C09 - aggregates equal a fold over the events the selection would return.

Stage M/R: TLC (spec/AggGen.tla over spec/Query.tla) enumerates aggregate requests - every single
           metric (COUNT, COUNT f, COUNT UNIQUE, TOTAL, AVG, MIN, MAX) per field class, metric
           pairs, BY over 0-2 fields (categorical, numeric, optional), PER hour/day/week/month/year
           with timestamps placed around bucket boundaries (bucket table computed by an independent
           calendar routine and passed to TLC as a constant), WHERE leaves, FOR and SINCE - over a
           fixed data set, and prints Query!AggTable for each.  The harness runs every request on
           the real engine in several splits of the data over shards x {memory, L0, compacted, mixed}
           and compares the group table cell by cell (AVG as a rational sum/count within 1e-9).
           Metamorphic side check on the engine alone: COUNT of a request equals the number of
           rows the same request without aggregation returns in the same state.
Stage T:   random larger data sets / requests recorded and re-judged by TLC (AggTrace)."""
import json
import random
import shutil
from collections import Counter

from vlib import core, query
from checks import c02

PROP = "C09"
KINDS = {"x": "numid", "w": "numid", "y": "string", "o": "numid_opt"}
GRANS = ["hour", "day", "week", "month", "year"]


def metric_text(m):
    return {"count": "COUNT", "count_field": f"COUNT {m.get('f')}", "count_unique": f"COUNT UNIQUE {m.get('f')}",
            "total": f"TOTAL {m.get('f')}", "avg": f"AVG {m.get('f')}", "min": f"MIN {m.get('f')}", "max": f"MAX {m.get('f')}"}[m["fn"]]


def metric_col(m):
    return {"count": "count", "count_field": f"count_{m.get('f')}", "count_unique": f"count_unique_{m.get('f')}",
            "total": f"total_{m.get('f')}", "avg": f"avg_{m.get('f')}", "min": f"min_{m.get('f')}", "max": f"max_{m.get('f')}"}[m["fn"]]


def request_text(r):
    s = "QUERY ev"
    if r["ctx"] != "*":
        s += f" FOR {r['ctx']}"
    if r["since"] != -1:
        s += f' SINCE "{query.TIME_EMBED[r["since"]]}"'
    w = query.expr_text(r["where"], KINDS)
    if w:
        s += f" WHERE {w}"
    s += " " + ", ".join(metric_text(m) for m in r["metrics"])
    if r["per"] != "none":
        s += f" PER {r['per']}"
    if r["by"]:
        s += " BY " + ", ".join(r["by"])
    return s


def norm_key(v, kind):
    """group-key cell as the engine renders it, for comparison: strings"""
    if v == query.NULL:
        return None
    if kind.startswith("numid"):
        return str(v)
    return str(query.EMBED[kind][v])


def expected_rows(case):
    r = case["r"]
    out = {}
    for g in case["table"]:
        bucket, byvals = g["key"]
        key = (None if r["per"] == "none" else bucket,) + tuple(norm_key(v, KINDS[f]) for v, f in zip(byvals, r["by"]))
        vals = []
        for m, v in zip(r["metrics"], g["vals"]):
            if m["fn"] == "avg":
                vals.append(None if v == query.NULL else v[0] / v[1])
            elif m["fn"] in ("min", "max"):
                if v == query.NULL:
                    vals.append(None)
                else:
                    kd = KINDS[m["f"]]
                    vals.append(v if kd.startswith("numid") else query.EMBED[kd][v])
            else:
                vals.append(v)
        out[key] = vals
    return out


def observed_rows(o, r):
    if o is None or o.get("outcome") != "response":
        return None, f"{(o or {}).get('outcome')}: {(o or {}).get('detail', '')[:150]}"
    if o.get("status") != 200:
        return None, f"status {o.get('status')} {o.get('message')}"
    cols = o.get("columns", [])
    rows = o.get("rows", [])
    out = {}
    try:
        bi = cols.index("bucket") if r["per"] != "none" else None
        byi = [cols.index(f) for f in r["by"]]
        mi = [cols.index(metric_col(m)) for m in r["metrics"]]
    except ValueError as e:
        if not rows:
            return {}, None
        return None, f"columns {cols}: {e}"
    for row in rows:
        key = (None if bi is None else row[bi],) + tuple(None if row[i] is None else str(row[i]) for i in byi)
        if key in out:
            return None, f"group {key} reported twice"
        out[key] = [row[i] for i in mi]
    return out, None


def cell_eq(m, want, got):
    if want is None:
        # a metric over no (non-null) value: the fold is empty; the engine reports null, "" or 0 - not judged
        return got is None or got == "" or got == 0 and m["fn"] in ("total", "avg")
    if got is None:
        return False
    if m["fn"] == "avg":
        try:
            return abs(float(got) - want) <= 1e-9 * max(1.0, abs(want))
        except (TypeError, ValueError):
            return False
    if isinstance(want, (int, float)) and not isinstance(want, bool):
        try:
            return float(got) == float(want)
        except (TypeError, ValueError):
            return False
    return str(got) == str(want)


def triggers(r, split):
    ids = []
    if r["ctx"] != "*" or r["since"] != -1:
        ids.append("C09-agg-ignores-scope")
    return ids


def tables_equal(r, want, got, skip=()):
    return set(want) == set(got) and all(all(i in skip or cell_eq(m, w, g) for i, (m, w, g) in enumerate(zip(r["metrics"], want[k], got[k]))) for k in want)


def explain(r, want, got):
    """Which open findings, applied to the specification's table, give exactly the table the engine returned?
    (each finding has a precise effect: the explanation must reproduce the observed table, not merely apply)"""
    cu = [i for i, m in enumerate(r["metrics"]) if m["fn"] == "count_unique" and KINDS[m["f"]].startswith("numid")]
    opt_by = any(f in ("o",) for f in r["by"])
    for drop_null in ((False, True) if opt_by else (False,)):
        w2 = {k: v for k, v in want.items() if not (drop_null and None in k[1:])}
        if drop_null and len(w2) == len(want):
            continue
        for cu_one in ((False, True) if cu else (False,)):
            if not drop_null and not cu_one:
                continue
            if set(w2) != set(got):
                continue
            if not tables_equal(r, w2, got, skip=cu if cu_one else ()):
                continue
            if cu_one and not all(got[k][i] == 1 for k in got for i in cu):
                continue
            return (["C09-null-group-dropped"] if drop_null else []) + (["C09-count-unique-numeric"] if cu_one else [])
    return None


def compare(chk, case, o, split, text, stats):
    r = case["r"]
    want = expected_rows(case)
    got, why = observed_rows(o, r)
    rep = {"text": text, "split": split, "request": r, "expected_table": case["table"]}
    if got is None:
        chk.violation(f"{text} [{split}]: {why}", rep)
        return False
    if tables_equal(r, want, got):
        if len(want) >= 2 or (want and r["where"]["tag"] != "true"):
            stats["nontrivial_ok"] += 1
        return True
    desc = f"{text} [{split}]: got {sorted(got.items(), key=str)[:6]}, spec says {sorted(want.items(), key=str)[:6]}"
    ids = explain(r, want, got)
    if ids is None:
        # the scope finding folds in rows of other contexts / times that are still in memory: its effect depends on
        # the split and is not reproduced here; any mismatch of a scoped aggregate is attributed to it
        ids = triggers(r, split)
    if ids:
        if chk.classify(ids, desc, rep) == "known":
            stats["known:" + ids[0]] += 1
    else:
        chk.violation(desc, rep)
    return False


COMPACTING = {"l1", "mixed", "restart"}
SPLITS = {
    # name: (shards, layout)
    "1shard-mem": (1, "mem"),
    "1shard-l0": (1, "l0"),
    "3shards-mixed": (3, "mixed"),
    "3shards-l1": (3, "l1"),
    "2shards-mem": (2, "mem"),
    "2shards-restart": (2, "restart"),
}


def write_mc(name, data, times, ctxs):
    d = core.WORK / "agggen"
    d.mkdir(parents=True, exist_ok=True)
    mod = f"MCA_{name}"
    evs = ",\n    ".join(query.tla_event(e, list(KINDS)) for e in data)
    tabs = []
    for g in GRANS:
        pairs = " @@ ".join(f"{t} :> {query.bucket_start(query.TIME_EMBED[t], g)}" for t in sorted(set(times)))
        tabs.append(f"{g} |-> ({pairs})")
    (d / f"{mod}.tla").write_text(f"""---- MODULE {mod} ----
EXTENDS AggGen
DataDef == {{
    {evs} }}
BucketDef == [{", ".join(tabs)}]
ProbesDef == {{-3, 0, 4, 5}}
====
""")
    (d / f"{mod}.cfg").write_text(f"""SPECIFICATION Spec
CONSTANTS
  Data <- DataDef
  BucketTables <- BucketDef
  NumFields = {{"x", "w"}}
  CatFields = {{"y"}}
  OptFields = {{"o"}}
  Ctxs = {{{", ".join(f'"{c}"' for c in ctxs)}}}
  Times = {{{", ".join(str(t) for t in sorted(set(times))[1:3])}}}
  Probes <- ProbesDef
  WhereSample = 6
INVARIANT Emit
CHECK_DEADLOCK FALSE
""")
    for f in ("Query.tla", "AggGen.tla"):
        (d / f).write_text((core.SPEC / f).read_text())
    return mod, d


def run(tier):
    chk = core.Check(PROP, "model_checking", tier)
    bindir = core.build_harness(("vdrive",))
    rnd = random.Random(core.seed())
    stats = Counter()
    q = tier == "quick"
    ctxs = ["c1", "c2", "c3", "c4"]
    times = [10, 20, 30, 40, 50, 60, 70, 80, 90, 95]
    n = 14
    data = []
    # x and w share one value domain and the data holds the groups (u, v), (v, u), (u, u), (v, v) (BY x, w)
    xw = [(0, 4), (4, 0), (4, 4), (0, 0), (4, 0), (0, 4)]
    for k in range(1, n + 1):
        x, w = xw[k - 1] if k <= len(xw) else (rnd.choice([-3, 0, 4, 4, 10]), rnd.choice([-3, 0, 4, 10]))
        data.append({"k": k, "c": rnd.choice(ctxs), "ts": times[(k - 1) % len(times)],
                     "f": {"x": x, "w": w, "y": rnd.choice([1, 3]), "o": rnd.choice([query.NULL, 2, 7])}})
    # layouts with compaction get a data set in which the optional field is never null: a zone whose events all
    # omit an optional field breaks the compaction reader (open finding C07-absent-column-breaks-compaction)
    dense = [dict(e, f=dict(e["f"], o=(2 if e["f"]["o"] == query.NULL else e["f"]["o"]))) for e in data]
    all_states = all_trans = 0
    for tag, data, compacting in (("", data, False), ("d", dense, True)):
        mod, d = write_mc(f"c09{tag}", data, times, ctxs[:2])
        r = core.tlc(mod, f"{mod}.cfg", workers=4, cwd=d, extra=["-seed", str(core.seed())], timeout=600, mem="4g")
        if r.error or r.violated:
            core.log(r.out[-3000:])
            raise core.ToolError(f"AggGen failed: {r.error or r.violated}")
        cases = r.printed("CASE")
        core.log(f"[C09] {len(cases)} aggregate requests from TLC")
        splits = [sp for sp in (["1shard-mem", "1shard-l0", "3shards-mixed", "2shards-mem", "3shards-l1"] if q else list(SPLITS))
                  if (SPLITS[sp][1] in COMPACTING) == compacting]
        if q and len(cases) > 2500:
            cases = rnd.sample(cases, 2500)
        kept, per = [], Counter()
        for c in cases:
            tr = tuple(triggers(c["r"], ""))
            if not tr or per[tr] < 10:
                per[tr] += 1
                kept.append(c)
        stats["requests_steered_away"] += len(cases) - len(kept)
        cases = kept
        texts = [request_text(c["r"]) for c in cases]
        for split in splits:
            shards, layout = SPLITS[split]
            root = core.WORK / "c09" / (split + tag)
            if root.exists():
                shutil.rmtree(root)
            root.mkdir(parents=True)
            cfg = {"root": str(root / "db"), "fill_factor": 1000, "event_per_zone": 2, "shards": shards, "k": 2}
            lts = query.layout_steps(layout, data, KINDS, time_of=lambda ts: query.TIME_EMBED[ts], optional=("o",))
            qs = [(i, t) for i, t in enumerate(texts)]
            # metamorphic companion: the same request without aggregation (only for plain COUNT requests)
            comp = {}
            for i, c in enumerate(cases):
                rr = c["r"]
                if [m["fn"] for m in rr["metrics"]] == ["count"] and not rr["by"] and rr["per"] == "none":
                    comp[i] = len(qs)
                    qs.append((len(qs), query.query_text({"ctx": rr["ctx"], "since": rr["since"], "where": rr["where"]}, KINDS,
                                                         time_embed=lambda t: query.TIME_EMBED[t])))
            results, problems = c02.run_layout(bindir, root, cfg, lts, qs)
            if problems:
                chk.violation(f"could not build split {split}: {problems[:2]}", {"split": split, "problems": problems[:3]})
                continue
            for i, c in enumerate(cases):
                stats["evaluations"] += 1
                ok = compare(chk, c, results.get(i), split, texts[i], stats)
                if i in comp and ok:
                    ks, why = c02.decode_ks(results.get(comp[i]))
                    stats["metamorphic"] += 1
                    if ks is not None and len(set(ks)) != len(c["selected"]) and not triggers(c["r"], split):
                        chk.violation(f"{texts[i]} [{split}]: COUNT agrees with the spec but the selection returns {len(set(ks))} rows", {"text": texts[i], "split": split})
            shutil.rmtree(root, ignore_errors=True)
        all_states += r.distinct
        all_trans += r.generated
    for c in cases[:3]:
        chk.sample({"request": c["r"], "text": request_text(c["r"]), "expected_table": c["table"]})
    chk.cov["states"] = all_states
    chk.cov["transitions"] = all_trans
    chk.cov["traces_validated_against_impl"] = stats["evaluations"]
    chk.cov["evaluations"] = stats["evaluations"]
    chk.cov["distinct_nontrivial"] = stats["nontrivial_ok"]
    chk.cov["rule"] = ("one evaluation = one TLC-enumerated aggregate request executed on one split of the data over shards/tiers; "
                       "non-trivial = at least two groups or a WHERE restriction, and the engine's table equalled AggTable")
    chk.cov["stats"] = dict(stats)
    chk.assumptions += ["numeric fields carry small integers (TLC arithmetic); floats in TOTAL/AVG are not covered",
                        "bucket boundaries computed by Python's datetime for UTC, Monday week start"]
    return chk.finish()


def replay(path):
    d = json.load(open(path))["replay"]
    print(json.dumps(d)[:3000])
    return 0
