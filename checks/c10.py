"""C10 - ORDER BY, LIMIT and OFFSET return the right slice in the right order.

Stage M/R: TLC (spec/SliceGen.tla over spec/Query.tla) enumerates ORDER BY f [DESC] LIMIT n OFFSET m
           for every n, m in 0..N+1 (beyond the result size included), several sort fields with
           duplicate keys, with and without WHERE / FOR, plus unordered LIMIT requests, over a fixed
           data set, and prints the expected sequence of sort keys (Query!SliceKeys; ties arbitrary,
           key sequence determined) resp. the expected number of distinct matching rows.  Every
           request runs on the real engine over several splits of the rows across 1-3 shards x
           memory / L0 / compacted / mixed tiers and zone sizes 1-3, through several typed
           embeddings of the sort key (int incl. negatives, u64, string, datetime).
           OFFSET without LIMIT must be rejected with a client-error status."""
import json
import random
import shutil
from collections import Counter

from vlib import core, query, storage
from checks import c02

PROP = "C10"


def request_text(r, kinds):
    s = "QUERY ev"
    if r["ctx"] != "*":
        s += f" FOR {r['ctx']}"
    w = query.expr_text(r["where"], kinds)
    if w:
        s += f" WHERE {w}"
    if r["kind"] == "ordered":
        s += f" ORDER BY {r['f']}" + (" DESC" if r["desc"] else "")
        if r["lim"] != -1:
            s += f" LIMIT {r['lim']}"
        if r["off"] > 0:
            s += f" OFFSET {r['off']}"
    else:
        s += f" LIMIT {r['lim']}"
    return s


def write_mc(name, data, fields, sort_fields, where_field, ctxs, maxn):
    d = core.WORK / "slicegen"
    d.mkdir(parents=True, exist_ok=True)
    mod = f"MCS_{name}"
    evs = ",\n    ".join(query.tla_event(e, fields) for e in data)
    (d / f"{mod}.tla").write_text(f"""---- MODULE {mod} ----
EXTENDS SliceGen
DataDef == {{
    {evs} }}
====
""")
    (d / f"{mod}.cfg").write_text(f"""SPECIFICATION Spec
CONSTANTS
  Data <- DataDef
  SortFields = {{{", ".join(f'"{f}"' for f in sort_fields)}}}
  Ctxs = {{{", ".join(f'"{c}"' for c in ctxs)}}}
  Probes = {{1, 2, 3}}
  MaxN = {maxn}
  WhereField = "{where_field}"
INVARIANT Emit
CHECK_DEADLOCK FALSE
""")
    for f in ("Query.tla", "SliceGen.tla"):
        (d / f).write_text((core.SPEC / f).read_text())
    return mod, d


SPLITS = {
    "1shard-mem-z2": (1, "mem", 2),
    "1shard-l0x3-z1": (1, "l0x3", 1),
    "3shards-mixed-z2": (3, "mixed", 2),
    "3shards-l1-z3": (3, "l1", 3),
    "2shards-restart-z1": (2, "restart", 1),
    "3shards-mem-z2": (3, "mem", 2),
}


def run(tier):
    chk = core.Check(PROP, "model_checking", tier)
    bindir = core.build_harness(("vdrive",))
    rnd = random.Random(core.seed())
    stats = Counter()
    q = tier == "quick"
    ctxs = ["c1", "c2", "c3"]
    n = 7
    plans = [
        {"name": "int-str", "kinds": {"x": "int", "y": "string", "w": "int"}, "sort": ["x", "y"]},
        {"name": "u64-dt", "kinds": {"x": "u64s", "y": "datetime", "w": "int"}, "sort": ["x", "y"]},
        {"name": "big-str", "kinds": {"x": "int3", "y": "string2", "w": "int"}, "sort": ["x", "y"]},
    ]
    if not q:
        plans.append({"name": "int2-str2", "kinds": {"x": "int2", "y": "string2", "w": "int"}, "sort": ["x", "y"]})
    states = trans = 0
    for pl in plans:
        kinds = pl["kinds"]
        fields = list(kinds)
        data = []
        for k in range(1, n + 1):
            data.append({"k": k, "c": rnd.choice(ctxs), "ts": 10,
                         "f": {"x": rnd.choice([0, 1, 1, 2, 3, 4]), "y": rnd.choice([0, 1, 2, 2, 4]), "w": rnd.choice([1, 2, 3])}})
        mod, d = write_mc(pl["name"].replace("-", "_"), data, fields, pl["sort"], "w", ctxs[:2], n + 1)
        r = core.tlc(mod, f"{mod}.cfg", workers=4, cwd=d, extra=["-seed", str(core.seed())], timeout=600, mem="4g")
        if r.error or r.violated:
            core.log(r.out[-3000:])
            raise core.ToolError(f"SliceGen failed: {r.error or r.violated}")
        cases = r.printed("CASE")
        states += r.distinct
        trans += r.generated
        if q and len(cases) > 1500:
            cases = rnd.sample(cases, 1500)
        core.log(f"[C10] plan {pl['name']}: {len(cases)} requests from TLC")
        texts = [request_text(c["r"], kinds) for c in cases]
        splits = ["1shard-mem-z2", "1shard-l0x3-z1", "3shards-mixed-z2"] if q else list(SPLITS)
        for split in splits:
            shards, layout, epz = SPLITS[split]
            root = core.WORK / "c10" / f"{pl['name']}-{split}"
            if root.exists():
                shutil.rmtree(root)
            root.mkdir(parents=True)
            cfg = {"root": str(root / "db"), "fill_factor": 1000, "event_per_zone": epz, "shards": shards, "k": 2}
            lts = query.layout_steps(layout, data, kinds)
            qs = [(i, t) for i, t in enumerate(texts)]
            qs.append((len(qs), "QUERY ev OFFSET 2"))
            qs.append((len(qs), f"QUERY ev ORDER BY {pl['sort'][0]} OFFSET 1"))
            results, problems = c02.run_layout(bindir, root, cfg, lts, qs)
            if problems:
                chk.violation(f"could not build split {split}: {problems[:2]}", {"split": split, "problems": problems[:3]})
                continue
            for qi in (len(qs) - 2, len(qs) - 1):
                o = results.get(qi)
                stats["offset_without_limit"] += 1
                if o is None or o.get("outcome") != "response" or not (400 <= (o.get("status") or 0) < 500):
                    chk.violation(f"{qs[qi][1]} [{split}]: OFFSET without LIMIT must be rejected with a client error, got {None if o is None else (o.get('outcome'), o.get('status'))}",
                                  {"text": qs[qi][1], "split": split})
            for i, c in enumerate(cases):
                o = results.get(i)
                rr, exp = c["r"], c["exp"]
                stats["evaluations"] += 1
                rep = {"text": texts[i], "split": split, "kinds": kinds, "data": data, "request": rr, "expected": exp}
                if o is None or o.get("outcome") != "response" or o.get("status") != 200:
                    chk.violation(f"{texts[i]} [{split}]: {None if o is None else (o.get('outcome'), o.get('status'), o.get('message'), o.get('detail', '')[:100])}", rep)
                    continue
                cols, rows = o.get("columns", []), o.get("rows", [])
                ks = [row[cols.index("k")] for row in rows] if rows else []
                if len(ks) != len(set(ks)):
                    chk.violation(f"{texts[i]} [{split}]: a row was returned twice: {ks}", rep)
                    continue
                if not set(ks) <= set(exp["selected"]):
                    chk.violation(f"{texts[i]} [{split}]: returned rows {sorted(set(ks) - set(exp['selected']))} do not match the request", rep)
                    continue
                if rr["kind"] == "unordered":
                    if len(ks) != exp["count"]:
                        chk.violation(f"{texts[i]} [{split}]: {len(ks)} rows, expected min(limit, matches) = {exp['count']}", rep)
                    elif 0 < exp["count"] < len(exp["selected"]):
                        stats["nontrivial_ok"] += 1
                    continue
                want = [query.EMBED[kinds[rr["f"]]][v] for v in exp["keys"]]
                got = [row[cols.index(rr["f"])] for row in rows] if rows else []
                if got != want:
                    if topk_trigger(rr, layout):
                        chk.classify(["C10-topk-preselection-ignores-filters"], f"{texts[i]} [{split}]: sort keys returned {got}, expected {want}", rep)
                    else:
                        chk.violation(f"{texts[i]} [{split}]: sort keys returned {got}, expected {want}", rep)
                elif len(want) >= 2 and len(want) < len(exp["selected"]):
                    stats["nontrivial_ok"] += 1
            shutil.rmtree(root, ignore_errors=True)
        if cases:
            c = cases[len(cases) // 3]
            chk.sample({"plan": pl["name"], "request": c["r"], "text": request_text(c["r"], kinds), "expected": c["exp"]})
    stage_t(chk, tier, bindir, rnd, stats)
    chk.cov["states"] = states
    chk.cov["transitions"] = trans
    chk.cov["traces_validated_against_impl"] = stats["evaluations"]
    chk.cov["evaluations"] = stats["evaluations"]
    chk.cov["distinct_nontrivial"] = stats["nontrivial_ok"]
    chk.cov["rule"] = ("one evaluation = one TLC-enumerated ORDER/LIMIT/OFFSET request on one split of the rows over shards and tiers; "
                       "non-trivial = the slice is a proper, >= 2 element part of the matches and the key sequence was right")
    chk.cov["stats"] = dict(stats)
    chk.assumptions += ["ties are broken arbitrarily: only the sequence of sort keys is compared", "rows with a missing sort key are not generated"]
    return chk.finish()


def topk_trigger(r, layout):
    """open finding: ORDER BY + LIMIT over flushed data combined with a filter (WHERE / FOR)"""
    return (r["kind"] == "ordered" and r["lim"] != -1 and layout != "mem"
            and (r["where"]["tag"] != "true" or r["ctx"] != "*"))


def stage_t(chk, tier, bindir, rnd, stats):
    """larger random data over more shards / zones; recorded and re-judged by TLC (SliceTrace)"""
    q = tier == "quick"
    runs = [({"x": "int", "y": "string", "w": "int"}, 150, 3, 3, "mixed"), ({"x": "u64s", "y": "datetime", "w": "int"}, 120, 2, 5, "l1"),
            # large zones and deep pages without filters: the top-k zone pre-selection has to keep every
            # zone that can contribute to rows m..m+n
            ({"x": "int2", "y": "string2", "w": "int"}, 480, 8, 3, "deep-l0"), ({"x": "int", "y": "string", "w": "int"}, 640, 16, 2, "deep-mixed")]
    # lopsided: the flushed bulk lives on ONE shard, the newest events are in memory on the OTHER shards (the zone planner of
    # ORDER BY .. LIMIT sees zones on one shard only; the fan-out must still reach the shards that hold rows in memory only)
    runs.append(({"x": "int", "y": "string", "w": "int"}, 120, 4, 3, "lopsided-l0mem"))
    if not q:
        runs += [({"x": "int2", "y": "string2", "w": "int"}, 400, 3, 8, lay) for lay in ("mixed", "l0x3", "restart")]
    routes = storage.probe_routing(bindir, 3)
    trace = core.WORK / "c10" / "trace.ndjson"
    trace.parent.mkdir(parents=True, exist_ok=True)
    recs, meta = [], {}
    rid = 0
    for (kinds, n, epz, shards, layout) in runs:
        ctxs = [f"c{i}" for i in range(1, 7)]
        data = [{"k": k, "c": rnd.choice(ctxs), "ts": 10,
                 "f": {"x": rnd.choice([0, 1, 2, 3, 4]), "y": rnd.choice([0, 1, 2, 3, 4]), "w": rnd.choice([1, 2, 3])}} for k in range(1, n + 1)]
        lopsided = layout.startswith("lopsided")
        if lopsided:
            layout = layout[len("lopsided-"):]
            home = max(routes, key=lambda sh: len(routes[sh]))
            others = [c for sh in routes if sh != home for c in routes[sh]]
            cut = (n * 85) // 100
            for e in data:
                e["c"] = rnd.choice(routes[home][:3]) if e["k"] <= cut else others[e["k"] % len(others)]
                if e["k"] > cut:
                    e["f"]["x"] = rnd.choice([0, 4])          # the in-memory rows belong at both ends of the order
        recs.append({"data": data})
        reqs = []
        if lopsided:
            for _ in range(40 if q else 150):
                reqs.append({"kind": "ordered", "f": rnd.choice(["x", "y"]), "desc": rnd.random() < 0.5, "off": rnd.choice([0, 0, 1, 3]),
                             "lim": rnd.choice([1, 2, 3, 5]), "where": {"tag": "true"}, "ctx": rnd.choice(["*", "*"] + others[:2])})
        deep = layout.startswith("deep")
        if deep:
            layout = layout[len("deep-"):]
            for _ in range(50 if q else 200):
                lim = rnd.choice([1, 1, 2, 3, 5])
                off = rnd.choice([0, 7, 20, 40, 41, 64, 100, 200])
                reqs.append({"kind": "ordered", "f": rnd.choice(["x", "y"]), "desc": rnd.random() < 0.5, "off": off, "lim": lim,
                             "where": {"tag": "true"}, "ctx": "*"})
        for _ in range(0 if (deep or lopsided) else (60 if q else 200)):
            where = rnd.choice([{"tag": "true"}, {"tag": "cmp", "f": "w", "op": rnd.choice(["<", ">=", "="]), "v": rnd.choice([1, 2, 3])}])
            if rnd.random() < 0.8:
                lim = rnd.choice([-1, 0, 1, 2, 5, 17, 50, n, n + 5])
                off = 0 if lim == -1 else rnd.choice([0, 0, 1, 3, 10, 49, n])
                reqs.append({"kind": "ordered", "f": rnd.choice(["x", "y"]), "desc": rnd.random() < 0.5, "off": off, "lim": lim,
                             "where": where, "ctx": rnd.choice(["*", "*", "c1"])})
            else:
                reqs.append({"kind": "unordered", "lim": rnd.choice([0, 1, 7, 40, n + 3]), "where": where, "ctx": rnd.choice(["*", "c2"])})
        root = core.WORK / "c10" / f"T-{layout}-{n}"
        if root.exists():
            shutil.rmtree(root)
        root.mkdir(parents=True)
        cfg = {"root": str(root / "db"), "fill_factor": 1000, "event_per_zone": epz, "shards": shards, "k": 2}
        lts = query.layout_steps(layout, data, kinds)
        texts = [(rid + i, request_text(r, kinds)) for i, r in enumerate(reqs)]
        results, problems = c02.run_layout(bindir, root, cfg, lts, texts)
        if problems:
            chk.violation(f"stage T: could not build layout {layout}: {problems[:2]}", {"layout": layout})
            continue
        for i, r in enumerate(reqs):
            o = results.get(rid + i)
            if o is None or o.get("outcome") != "response" or o.get("status") != 200:
                chk.violation(f"stage T: {texts[i][1]} [{layout}]: {None if o is None else (o.get('outcome'), o.get('status'))}", {"text": texts[i][1]})
                continue
            cols, rows = o.get("columns", []), o.get("rows", [])
            ks = [row[cols.index("k")] for row in rows] if rows else []
            keys = []
            if r["kind"] == "ordered" and rows:
                emb = query.EMBED[kinds[r["f"]]]
                try:
                    keys = [emb.index(row[cols.index(r["f"])]) for row in rows]
                except ValueError:
                    chk.violation(f"stage T: {texts[i][1]}: a sort key that was never stored came back", {"text": texts[i][1], "rows": rows[:5]})
                    continue
            recs.append({"id": rid + i, "r": r, "keys": keys, "ks": ks})
            meta[rid + i] = (texts[i][1], layout)
        rid += len(reqs)
        shutil.rmtree(root, ignore_errors=True)
    with open(trace, "w") as f:
        for r in recs:
            f.write(json.dumps(r) + "\n")
    r = core.tlc("SliceTrace", "SliceTrace.cfg", workers=1, env={"TRACE": str(trace)}, timeout=1200, xss=True, mem="4g")
    if r.error or r.rc != 0:
        core.log(r.out[-3000:])
        raise core.ToolError(f"SliceTrace failed: {r.error} rc={r.rc}")
    bad = judged = None
    bad = r.printed_last("BAD")
    judged = r.printed_int("JUDGED")
    if bad is None or judged is None:
        raise core.ToolError("SliceTrace produced no verdict")
    stats["trace_records_judged_by_tlc"] = judged
    by_id = {r["id"]: r for r in recs if "id" in r}
    for b in bad:
        text, layout = meta.get(b, ("?", "?"))
        rr = by_id[b]["r"]
        if topk_trigger(rr, layout):
            if chk.classify(["C10-topk-preselection-ignores-filters"], f"stage T: {text} [{layout}]: slice differs from SliceKeys (keys {by_id[b]['keys']})",
                            {"id": b, "text": text, "trace": str(trace)}) == "known":
                stats["known_topk"] += 1
            continue
        chk.violation(f"stage T (TLC SliceTrace): {text} [{layout}] returned a slice that differs from SliceKeys / UnorderedCount", {"id": b, "text": text, "trace": str(trace)})
    chk.cov["trace_validation"] = {"records": judged, "rejected": len(bad)}


def replay(path):
    d = json.load(open(path))["replay"]
    print(json.dumps(d)[:3000])
    return 0
