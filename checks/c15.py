"""C15 - sequence queries return exactly the linked, correctly ordered pairs.

Stage M/R: TLC (spec/SeqGen.tla) draws populations of <= 2 head events and <= 3 partner events over
           2 link values (+ absent), 3 time values (equal and distinct) and a payload flag, and for
           every direction (FOLLOWED BY / PRECEDED BY) x WHERE form (none, head-side, partner-side,
           both) computes the set of qualifying pairs and the set of heads that must be matched.
           Each population becomes a pair of event types in a real engine (core timestamps injected
           through the clock hook; 2 shards; in memory and flushed), every request is issued with
           LIMIT none/1/2, and: every returned pair qualifies; the matched heads are exactly the
           heads with a qualifying partner (LIMIT: min(n, heads) sequences); the unprefixed
           ambiguous WHERE is a client error; results do not depend on placement."""
import json
import random
import shutil
from collections import Counter

from vlib import core
from checks import c02

PROP = "C15"
T0 = 1_700_000_000


def gen(cfg, seed):
    r = core.tlc("SeqGen", cfg, workers=4, extra=["-seed", str(seed)], timeout=600)
    if r.error or r.violated:
        core.log(r.out[-2000:])
        raise core.ToolError(f"SeqGen failed: {r.error or r.violated}")
    return r.printed("POP"), r


def where_text(w, i):
    return {"none": "", "a": f" WHERE a{i}.p = 1", "b": f" WHERE b{i}.p = 1", "ab": f" WHERE a{i}.p = 1 AND b{i}.p = 1"}[w]


def run_pops(bindir, root, pops, layout, shards, time_mode="core"):
    """time_mode "core": the model's time is the core timestamp (clock hook).  "payload": the model's time is a payload
    datetime field `at` named by USING TIME; events of a type are stored latest-first and the core timestamps run the
    other way, so neither ingestion order nor the core timestamp agrees with the time the query must use."""
    if root.exists():
        shutil.rmtree(root)
    root.mkdir(parents=True)
    cfg = {"root": str(root / "db"), "fill_factor": 100000, "event_per_zone": 2, "shards": shards, "k": 2}
    steps = []
    for i, p in enumerate(pops):
        for t in ("a", "b"):
            at = ', at: "datetime"' if time_mode == "payload" else ""
            steps.append({"op": "cmd", "text": f'DEFINE {t}{i} FIELDS {{ k: "int", u: "string | null", p: "int"{at} }}', "tag": ["define"]})
    for i, p in enumerate(pops):
        evs = [("a", j + 1, e) for j, e in enumerate(p["pop"]["a"])] + [("b", j + 11, e) for j, e in enumerate(p["pop"]["b"])]
        if time_mode == "payload":
            evs.sort(key=lambda x: (x[0], -x[2]["ts"], -x[1]))
        for (t, k, e) in evs:
            payload = {"k": k, "p": e["p"]}
            if e["link"] != -1:
                payload["u"] = f"u{e['link']}"
            if time_mode == "payload":
                payload["at"] = T0 + e["ts"]
                steps.append({"op": "clock_secs", "t": T0 + 1000 - e["ts"]})
            else:
                steps.append({"op": "clock_secs", "t": T0 + e["ts"]})
            steps.append({"op": "cmd", "text": f"STORE {t}{i} FOR c{k} PAYLOAD {json.dumps(payload)}", "tag": ["store", k]})
    if layout == "flushed":
        steps.append({"op": "cmd", "text": "FLUSH", "tag": ["flush"]})
    qs, keys = [], []
    for i, p in enumerate(pops):
        for c in p["cases"]:
            kw = "FOLLOWED BY" if c["dir"] == "followed" else "PRECEDED BY"
            for lim in (None, 1, 2):
                text = (f"QUERY a{i} {kw} b{i} LINKED BY u" + (" USING TIME at" if time_mode == "payload" else "") + where_text(c['where'], i)
                        + (f" LIMIT {lim}" if lim else ""))
                keys.append((i, c["dir"], c["where"], lim))
                qs.append((len(qs), text))
        keys.append((i, "ambiguous", None, None))
        qs.append((len(qs), f"QUERY a{i} FOLLOWED BY b{i} LINKED BY u WHERE p = 1"))
    results, problems = c02.run_layout(bindir, root, cfg, [steps], qs)
    shutil.rmtree(root, ignore_errors=True)
    return {k: (results.get(q[0]), q[1]) for k, q in zip(keys, qs)}, problems


def decode_pairs(o, i):
    """rows come flattened: head row, partner row, head row, partner row ..."""
    if o is None or o.get("outcome") != "response":
        return None, f"{(o or {}).get('outcome')}: {(o or {}).get('detail', '')[:150]}"
    if o.get("status") != 200:
        return None, f"status {o.get('status')} {o.get('message')}"
    cols, rows = o.get("columns", []), o.get("rows", [])
    if not rows:
        return [], None
    it, ik = cols.index("event_type"), cols.index("k")
    if len(rows) % 2:
        return None, f"odd number of rows {len(rows)}"
    pairs = []
    for j in range(0, len(rows), 2):
        r1, r2 = rows[j], rows[j + 1]
        ra = r1 if r1[it] == f"a{i}" else r2
        rb = r2 if r1[it] == f"a{i}" else r1
        if ra[it] != f"a{i}" or rb[it] != f"b{i}":
            return None, f"pair {j // 2} is not (a, b): {r1[it]}, {r2[it]}"
        pairs.append((ra[ik], rb[ik] - 10))
    return pairs, None


def run(tier):
    chk = core.Check(PROP, "model_checking", tier)
    bindir = core.build_harness(("vdrive",))
    stats = Counter()
    pops, r = gen("SeqGen_q.cfg" if tier == "quick" else "SeqGen_t.cfg", core.seed())
    placements = ([("mem", 2, "core"), ("flushed", 2, "core"), ("mem", 2, "payload"), ("flushed", 2, "payload")] if tier == "quick" else
                  [("mem", 1, "core"), ("mem", 3, "core"), ("flushed", 1, "core"), ("flushed", 3, "core"), ("mem", 3, "payload"), ("flushed", 1, "payload"), ("flushed", 3, "payload")])
    per_placement = {}
    for (layout, shards, time_mode) in placements:
        batch = 60
        for b0 in range(0, len(pops), batch):
            sub = pops[b0:b0 + batch]
            res, problems = run_pops(bindir, core.WORK / "c15" / f"{layout}-{shards}-{time_mode}-{b0}", sub, layout, shards, time_mode)
            if problems:
                chk.violation(f"could not build populations ({layout}, {shards} shards): {problems[:2]}", {"problems": problems[:3]})
                continue
            for i, p in enumerate(sub):
                o, text = res[(i, "ambiguous", None, None)]
                stats["ambiguous_probes"] += 1
                if o is None or o.get("outcome") != "response" or not (400 <= (o.get("status") or 0) < 500):
                    chk.violation(f"{text}: an unprefixed field that exists in both event types must be a client error, got {None if o is None else (o.get('outcome'), o.get('status'))}",
                                  {"text": text})
                for c in p["cases"]:
                    valid = {(a, b) for (a, b) in c["pairs"]}
                    heads = set(c["heads"])
                    for lim in (None, 1, 2):
                        o, text = res[(i, c["dir"], c["where"], lim)]
                        stats["evaluations"] += 1
                        rep = {"text": text, "layout": layout, "shards": shards, "population": p["pop"], "case": c, "limit": lim}
                        pairs, why = decode_pairs(o, i)
                        if pairs is None:
                            chk.violation(f"{text} [{layout}/{shards}]: {why}", rep)
                            continue
                        bad = [pr for pr in pairs if pr not in valid]
                        valid_ab = {(a, b) for (a, b) in c["pairs_ab"]}
                        heads_ab = set(c["heads_ab"])
                        got_h = {a for (a, _b) in pairs}
                        design_ok = (not bad) and ((lim is None and got_h == heads) or (lim is not None and len(got_h) == min(lim, len(heads))))
                        # the open finding concerns only events whose link field is absent: judge the rest
                        absent = {j + 1 for j, e in enumerate(p["pop"]["a"]) if e["link"] == -1}
                        rest = [pr for pr in pairs if pr[0] not in absent]
                        rest_h = {a for (a, _b) in rest}
                        asbuilt_ok = (all(pr in valid_ab for pr in pairs) and all(pr in valid for pr in rest) and (
                            (lim is None and rest_h == heads) or
                            (lim is not None and len(got_h) <= lim and (len(got_h) == lim or rest_h == heads))))
                        if not design_ok and asbuilt_ok and valid_ab != valid:
                            if chk.classify(["C15-absent-link-grouped"], f"{text} [{layout}/{shards}]: pairs {pairs} - valid only if an absent link value links events (property: {sorted(valid)})", rep) == "known":
                                stats["known_absent_link"] += 1
                            continue
                        got_heads = {a for (a, _b) in pairs} if c["dir"] == "followed" else {a for (a, _b) in pairs}
                        n_seq = len(pairs)
                        if bad:
                            chk.violation(f"{text} [{layout}/{shards}]: returned pairs {bad} do not qualify (valid: {sorted(valid)})", rep)
                        elif lim is None and got_heads != heads:
                            chk.violation(f"{text} [{layout}/{shards}]: matched heads {sorted(got_heads)}, but exactly {sorted(heads)} have a qualifying partner", rep)
                        elif lim is not None and (len(got_heads) > lim or len(got_heads) != min(lim, len(heads))):
                            chk.violation(f"{text} [{layout}/{shards}]: {len(got_heads)} matched sequences, expected min({lim}, {len(heads)})", rep)
                        else:
                            if heads and len(heads) < len(p["pop"]["a"]):
                                stats["nontrivial_ok"] += 1
                            per_placement.setdefault((b0 + i, c["dir"], c["where"], lim), set()).add(tuple(sorted(got_heads)))
                        stats["sequences_returned"] += n_seq
    for key, outcomes in per_placement.items():
        if key[3] is None and len(outcomes) > 1:
            chk.violation(f"population {key[0]} {key[1]}/{key[2]}: matched heads differ between placements: {sorted(outcomes)}", {"key": list(map(str, key))})
    if pops:
        chk.sample({"population": pops[0]["pop"], "one_case": pops[0]["cases"][0]})
    chk.cov["states"] = r.distinct
    chk.cov["transitions"] = r.generated
    chk.cov["traces_validated_against_impl"] = stats["evaluations"]
    chk.cov["evaluations"] = stats["evaluations"]
    chk.cov["distinct_nontrivial"] = stats["nontrivial_ok"]
    chk.cov["rule"] = ("one evaluation = one sequence request (direction x WHERE form x LIMIT) on one TLC-drawn population in one placement; "
                       "non-trivial = some but not all heads have a qualifying partner and the engine matched exactly those")
    chk.cov["stats"] = dict(stats)
    chk.assumptions += ["time = core timestamp injected through the clock hook, or a payload datetime field named by USING TIME with ingestion order and core timestamps running against it",
                        "one link field; sequences of exactly two event types"]
    return chk.finish()


def replay(path):
    d = json.load(open(path))["replay"]
    print(json.dumps(d)[:3000])
    return 0
