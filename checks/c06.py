"""C06 - STORE accepts exactly the payloads that conform to the defined schema; a rejected STORE leaves
no trace; a DEFINE answered with an error leaves the old schema in force.

Stage M: Ingest.tla - sanity ASSUMEs of the judgement (Accept), exhaustive run of the DEFINE machine
         with the invariant DefineErrorKeepsSchema.
Stage R: TLC enumerates the cases and computes the verdicts
           slot  : every kind x every value class (single-field schema), every representative
           env   : every kind x {extra, misspelled key} x {object, array, scalar} x context forms x undefined type
           multi : every schema of 2..3 kinds (as a set) x a role per field (good/absent/null/wrong/nested)
           def   : DEFINE / erroring DEFINE / restart / crash histories with probe STOREs
         Python spells each class (2-5 representatives), runs the STOREs on the real engine and compares the
         status class with the verdict; every case is then read back in memory, after a crash (WAL recovery),
         after FLUSH and after a restart: a rejected STORE must never show up, an accepted one always.
Stage T: larger random cases (any class in any slot of random schemas) and all of the above are recorded
         and re-judged by TLC (IngestTrace.tla)."""
import itertools
import json
import random
import time

from vlib import core, ingest as ing

PROP = "C06"
TYPES_PER_GROUP = 30
CASES_PER_GROUP = 2500


class Plan:
    def __init__(self, name, kinds):
        self.name = name
        self.kinds = list(kinds)
        self.fields = [(f"f{i + 1}", k) for i, k in enumerate(kinds)]
        self.cases = []
        self.noflush = False


class Case:
    __slots__ = ("idx", "plan", "slots", "reps", "extra", "shape", "ctxk", "defined", "verdict", "built", "defects", "src",
                 "ctx", "text", "tname", "status", "seen", "memrow", "detail")

    def abstract(self):
        return {"kinds": self.plan.kinds, "slots": self.slots, "extra": self.extra, "shape": self.shape,
                "ctx": self.ctxk, "defined": self.defined}


def make_case(idx, plan, slots, rnd, *, extra="none", shape="object", ctxk="word", defined=True, verdict=None, built=None,
              defects=(), src="", reps=None):
    c = Case()
    c.idx, c.plan, c.slots, c.extra, c.shape, c.ctxk, c.defined = idx, plan, list(slots), extra, shape, ctxk, defined
    c.verdict, c.built, c.defects, c.src = verdict, built, list(defects), src
    c.reps = reps if reps is not None else [None if s == "absent" else ing.pick(s, rnd) for s in slots]
    c.ctx = {"word": f"c{idx}", "quoted": f"q:{idx} é", "empty": "", "blank": "  "}[ctxk]
    c.tname = plan.name if defined else f"undef{idx}"
    pairs = []
    miss = rnd.randrange(len(slots)) if extra == "misspelled" else -1
    for i, ((fname, _k), rep) in enumerate(zip(plan.fields, c.reps)):
        if rep is None:
            continue
        key = fname
        if i == miss:
            key = rnd.choice([fname.upper(), fname + "x", "_" + fname])
        pairs.append((key, rep.text))
    if extra == "misspelled" and c.reps[miss] is None:
        pairs.append((plan.fields[miss][0].upper(), "1"))       # the optional field is absent: only the near-miss key is there
    if extra == "extra":
        pairs.insert(rnd.randrange(len(pairs) + 1), ("zz", rnd.choice(["1", '"x"', "null", "true"])))
    obj = ing.payload_text(pairs)
    if shape == "array":
        body = rnd.choice(["[" + obj + "]", "[1, 2]", "[]"])
    elif shape == "scalar":
        body = rnd.choice(["5", '"str"', "null", "true", "1.5"])
    else:
        body = obj
    c.text = f"STORE {c.tname} FOR {ing.ctx_text(c.ctx)} PAYLOAD {body}"
    c.status, c.seen, c.memrow, c.detail = None, [], None, None
    return c


# --------------------------------------------------------------------------- one group = one root, three lifetimes
def run_group(args):
    bindir, gname, plans, rnd_seed = args
    flush = not gname.startswith("nf")
    rnd = random.Random(rnd_seed)
    root = ing.fresh_root("c06", gname)
    t0 = time.time()
    cases = [c for p in plans for c in p.cases]
    s1 = []
    for p in plans:
        s1.append(ing.cmd(ing.define_text(p.name, p.fields, rnd), ["def", p.name]))
    for c in cases:
        s1.append(ing.cmd(c.text, ["s", c.idx]))
        if c.ctx.strip():
            s1.append(ing.cmd(f"REPLAY {c.tname} FOR {ing.ctx_text(c.ctx)}", ["r", c.idx]))
            if not c.defined:
                s1.append(ing.cmd(f"REPLAY FOR {ing.ctx_text(c.ctx)}", ["rw", c.idx]))
    for p in plans:
        s1.append(ing.cmd(f"QUERY {p.name}", ["qm", p.name]))
    s1 += ing.DRAIN + [{"op": "crash"}]
    rc1, o1, e1 = ing.run_life(bindir, root, "l1", s1, epz=500)
    accepted = sum(1 for o in o1 if o.get("op") == "cmd" and o.get("text", "").startswith("STORE") and ing.status_class(o) == "accept")
    if ing.wal_lines(o1) is not None and ing.wal_lines(o1) < accepted:
        # the asynchronous WAL writer had not caught up when the process was killed: machinery, not the property
        ing.drop_root(root)
        return gname, {}, False, (f"WAL held {ing.wal_lines(o1)} lines for {accepted} accepted STOREs at the crash", rc1)
    s2 = [ing.cmd(f"QUERY {p.name}", ["qw", p.name]) for p in plans]
    if flush:
        s2 += [ing.cmd("FLUSH", ["flush"]), {"op": "flush_wait"}]
        for p in plans:
            s2.append(ing.cmd(f"QUERY {p.name}", ["qd", p.name]))
            s2.append(ing.cmd(f"QUERY {p.name} COUNT", ["cd", p.name]))
        undef = [c.idx for c in cases if not c.defined and c.ctx.strip()][:8]   # (reads of unknown types over segments take ~0.4 s each)
        for c in cases:
            if c.ctx.strip() and (c.idx % 7 == 0 and c.defined or c.idx in undef):
                s2.append(ing.cmd(f"REPLAY {c.tname} FOR {ing.ctx_text(c.ctx)}", ["rd", c.idx]))
        s2.append({"op": "shutdown"})
    else:
        # these events would never leave FLUSH (see C06-out-of-range-time-accepted): memory and WAL recovery only
        s2 += ing.DRAIN + [{"op": "crash"}]
    rc2, o2, e2 = ing.run_life(bindir, root, "l2", s2, epz=500)
    s3 = [ing.cmd(f"QUERY {p.name}", ["qr", p.name]) for p in plans]
    for c in [c for c in cases if not c.defined][:8]:
        s3.append(ing.cmd(f"QUERY {c.tname}", ["qru", c.idx]))
    rc3, o3, e3 = ing.run_life(bindir, root, "l3", s3, epz=500)
    core.log(f"[c06] group {gname}: {len(plans)} types {len(cases)} cases in {time.time() - t0:.1f}s")
    t = {}
    for o in (o1, o2, o3):
        t.update(ing.by_tag(o))
    ing.drop_root(root)
    ok = (bool(o1) and o1[-1].get("op") == "crash" and bool(o2) and o2[-1].get("op") in ("shutdown", "crash")
          and rc3 == 0 and bool(o3) and o3[-1].get("op") == "done")
    return gname, t, ok, (rc1, rc2, rc3, (e1 + e2 + e3)[-400:])


def ctx_rows(o):
    rows = ing.rows_of(o)
    return [] if rows is None else rows


def evaluate_group(chk, plans, t, stats, records, slot_lines):
    """Fill status / seen of every case; per-type multiset checks. Returns nothing; problems go to chk."""
    for p in plans:
        d = t.get(("def", p.name))
        if ing.status_class(d) != "accept":
            raise core.ToolError(f"DEFINE of a valid schema failed: {d and d.get('text')} -> {d and (d.get('message') or d.get('detail'))}")
        tiers = {"mem_query": ("qm", p.name), "wal_query": ("qw", p.name), "disk_query": ("qd", p.name), "restart_query": ("qr", p.name)}
        if p.noflush:
            del tiers["disk_query"]
        rows_by = {nm: ctx_rows(t.get(tag)) for nm, tag in tiers.items()}
        for c in p.cases:
            so = t.get(("s", c.idx))
            c.status = ing.status_class(so)
            c.detail = so and (so.get("message") or so.get("detail"))
            c.seen = []
            if ("r", c.idx) in t:
                rr = [r for r in ctx_rows(t[("r", c.idx)]) if r.get("context_id") == c.ctx]
                c.seen.append(["mem_replay", len(rr) > 0])
                c.memrow = rr[0] if rr else None
            if ("rw", c.idx) in t:
                c.seen.append(["mem_replay_any_type", len(ctx_rows(t[("rw", c.idx)])) > 0])
            if ("rd", c.idx) in t:
                c.seen.append(["disk_replay", any(r.get("context_id") == c.ctx for r in ctx_rows(t[("rd", c.idx)]))])
            if ("qru", c.idx) in t:
                c.seen.append(["restart_query_undefined_type", len(ctx_rows(t[("qru", c.idx)])) > 0])
            if c.defined:
                for nm in tiers:
                    c.seen.append([nm, any(r.get("context_id") == c.ctx for r in rows_by[nm])])
        # the type as a whole: exactly one row per accepted STORE, nothing else, in every tier
        want = sorted(c.ctx for c in p.cases if c.defined and c.status == "accept")
        for nm in tiers:
            got = sorted(r.get("context_id") for r in rows_by[nm])
            stats["type_reads"] += 1
            if got != want:
                extra = [x for x in got if x not in want][:3]
                missing = [x for x in want if x not in got][:3]
                chk.violation(f"type {p.name} ({p.kinds}) {nm}: rows do not match the accepted STOREs: "
                              f"{len(got)} rows for {len(want)} accepted; unexpected {extra} missing {missing}",
                              {"group_type": p.name, "kinds": p.kinds, "tier": nm,
                               "stores": [c.text for c in p.cases][:200]})
        if p.noflush:
            continue
        cd = t.get(("cd", p.name))
        cnt = None
        if cd and cd.get("rows"):
            cnt = cd["rows"][0][0]
        elif cd is not None and ing.status_class(cd) == "accept":
            cnt = 0
        stats["type_reads"] += 1
        if cnt != len(want) and not (cnt is None and not want):
            chk.violation(f"type {p.name}: COUNT after FLUSH = {cnt} for {len(want)} accepted STOREs",
                          {"group_type": p.name, "kinds": p.kinds, "stores": [c.text for c in p.cases][:200]})


def judge_cases(chk, cases, stats, slot_by_kind, records, flagged, distinct):
    """Stage R comparison (equality with TLC's verdicts) + trace records for Stage T."""
    for c in cases:
        rec = dict(c.abstract(), t="case", status=c.status, seen=c.seen)
        records.append((rec, c))
        stats["cases"] += 1
        if c.verdict is None:
            continue        # random case: judged by TLC in Stage T only
        stats["stage_r"] += 1
        replay = {"store": c.text, "define_kinds": c.plan.kinds, "case": c.abstract(), "expected": c.verdict,
                  "status": c.status, "detail": c.detail, "seen": c.seen}
        if c.status == "other":
            flagged.add(c.idx)
            chk.violation(f"STORE neither accepted nor rejected: {c.text[:160]} -> {c.detail}", replay)
            continue
        okv = c.verdict == "open" or c.status == c.verdict
        if not okv:
            okb = c.built == "open" or c.status == c.built
            what = f"STORE {c.status}ed, expected {c.verdict}: kinds={c.plan.kinds} slots={c.slots} {c.text[:160]} -> {c.detail}"
            flagged.add(c.idx)
            if okb and c.defects:
                chk.classify([ing.FINDING[d] for d in c.defects], what, replay)
                stats["known"] += 1
            else:
                chk.violation(what, replay)
            continue
        bad = [s for s in c.seen if s[1] != (c.status == "accept")]
        if bad:
            flagged.add(c.idx)
            kind = "a rejected STORE left a trace" if c.status == "reject" else "an accepted STORE is not readable"
            chk.violation(f"{kind}: {bad} kinds={c.plan.kinds} slots={c.slots} {c.text[:160]}", replay)
            continue
        if c.verdict != "open":
            distinct.add((tuple(c.plan.kinds), tuple(c.slots), c.extra, c.shape, c.ctxk, c.defined, tuple(r.text if r else None for r in c.reps)))
        stats[c.status + "ed"] += 1
        # an accepted one is readable: its cells in memory (values proper are C07's business across tiers)
        if c.status == "accept" and c.memrow is not None and c.shape == "object":
            for (fname, kind), cls, rep in zip(c.plan.fields, c.slots, c.reps):
                line = slot_by_kind[kind]
                mode = line["read"][cls]
                cell = c.memrow.get(fname, ing.MISSING)
                if cell is ing.MISSING:
                    chk.violation(f"accepted STORE read back without column {fname}: {c.text[:160]}", replay)
                    continue
                rel = ing.relations(cell, rep, kind)
                records.append(({"t": "cell", "kind": kind, "class": cls, "tier": "mem", "rel": rel}, c))
                stats["cells"] += 1
                if not rel[mode]:
                    b = line["readmem"][cls]
                    what = (f"accepted value read back differently in memory: field {fname} kind {kind} class {cls} "
                            f"stored {rep.text[:60] if rep else 'absent'} got {json.dumps(cell)[:60]}")
                    if b["defect"] != "none" and rel[b["mode"]]:
                        chk.classify([ing.FINDING[b["defect"]]], what, replay)
                    else:
                        chk.violation(what, replay)


# --------------------------------------------------------------------------- DEFINE histories
DEF_SCHEMA = {"A": [("f1", "int")], "B": [("f1", "string"), ("f2", "obool")]}
PROBE = {"pa": '{"f1": 7}', "pb": '{"f1": "seven"}'}
BAD_DEF = {"empty_fields": "DEFINE {t} FIELDS {{ }}", "nested_type": 'DEFINE {t} FIELDS {{ f1: {{ "x": "int" }} }}',
           "empty_enum": "DEFINE {t} FIELDS {{ f1: [] }}", "nonstring_enum": "DEFINE {t} FIELDS {{ f1: [1, 2] }}"}


def run_def_history(args):
    bindir, n, beh, seed = args
    rnd = random.Random(seed)
    root = ing.fresh_root("c06", "def", f"b{n}")
    lives, cur = [], []
    pc = 0
    for i, st in enumerate(beh):
        if st["act"] in ("restart", "crash"):
            cur += ing.DRAIN + [{"op": "crash"}] if st["act"] == "crash" else [{"op": "shutdown"}]
            lives.append(cur)
            cur = []
        elif st["act"] == "define":
            ver = rnd.choice([None, None, 2, 7]) if st["outcome"] == "error" else None
            cur.append(ing.cmd(ing.define_text(st["type"], DEF_SCHEMA[st["schema"]], rnd, version=ver), ["d", i]))
        else:
            cur.append(ing.cmd(BAD_DEF[st["bad"]].format(t=st["type"]), ["d", i]))
        for t in ("t", "u"):
            for p in ("pa", "pb"):
                pc += 1
                cur.append(ing.cmd(f"STORE {t} FOR p{pc} PAYLOAD {PROBE[p]}", ["p", i, t, p]))
    lives.append(cur + [{"op": "shutdown"}])
    tags = {}
    for j, steps in enumerate(lives):
        rc, obs, err = ing.run_life(bindir, root, f"l{j}", steps)
        if not obs or obs[-1].get("op") not in ("crash", "shutdown"):
            return n, None, f"lifetime {j} did not finish: rc={rc} {err[-300:]}"
        tags.update(ing.by_tag(obs))
    ing.drop_root(root)
    out = []
    for i, st in enumerate(beh):
        o = dict(act=st["act"])
        if st["act"] in ("define", "bad_define"):
            d = tags.get(("d", i))
            sc = ing.status_class(d)
            o.update(type=st["type"], outcome="ok" if sc == "accept" else ("error" if sc == "reject" else "other"),
                     text=d and d.get("text"), detail=d and (d.get("message") or d.get("detail")))
            if st["act"] == "define":
                o["schema"] = st["schema"]
            else:
                o["bad"] = st["bad"]
        o["probes"] = {t: {p: ing.status_class(tags.get(("p", i, t, p))) for p in ("pa", "pb")} for t in ("t", "u")}
        out.append(o)
    return n, out, None


def def_features(beh):
    f = set()
    defined = set()
    err_seen = False
    for i, st in enumerate(beh):
        a = st["act"]
        if a == "define":
            f.add(f"define:{st['outcome']}")
            if st["outcome"] == "error":
                err_seen = True
            defined.add(st["type"])
        elif a == "bad_define":
            f.add(f"bad:{st['bad']}:{'defined' if st['type'] in defined else 'fresh'}")
            err_seen = True
        else:
            f.add(a)
            if err_seen:
                f.add(f"{a}-after-error")
        if i:
            f.add(f"{beh[i - 1]['act']}>{a}")
    return f


def select(behs, limit, feat):
    feats = [feat(b) for b in behs]
    chosen, covered, rest = [], set(), list(range(len(behs)))
    while rest and len(chosen) < limit:
        best = max(rest, key=lambda i: len(feats[i] - covered))
        if not feats[best] - covered:
            break
        chosen.append(best)
        covered |= feats[best]
        rest.remove(best)
    for i in rest:
        if len(chosen) >= limit:
            break
        chosen.append(i)
    return [behs[i] for i in chosen]


# --------------------------------------------------------------------------- the check
def build_cases(tier, rnd, slot_lines, env_lines, multi_lines):
    q = tier == "quick"
    plans, idx = [], itertools.count(1)
    slot_by_kind = {l["kind"]: l for l in slot_lines}
    # slot: every kind x class x every representative
    for l in slot_lines:
        k = l["kind"]
        p = Plan(f"s_{k}", [k])
        plans.append(p)
        for cls in ing.CLASSES:
            rs = [None] if cls == "absent" else ing.reps(cls)
            for rep in rs:
                p.cases.append(make_case(next(idx), p, [cls], rnd, verdict=l["verdict"][cls], built=l["built"][cls],
                                         defects=l["defects"][cls], src="slot", reps=[rep]))
    # env
    env_plans = {}
    for l in env_lines:
        k = l["kind"]
        p = env_plans.get(k)
        if p is None:
            p = env_plans[k] = Plan(f"e_{k}", [k])
            plans.append(p)
        p.cases.append(make_case(next(idx), p, [l["class"]], rnd, extra=l["extra"], shape=l["shape"], ctxk=l["ctx"],
                                 defined=l["defined"], verdict=l["verdict"], built=l["built"], src="env"))
    # multi: TLC's verdict list is indexed by the role tuple number (first field most significant)
    lines = list(multi_lines)
    rnd.shuffle(lines)
    budget_schemas = 260 if q else len(lines)
    for n, l in enumerate(lines[:budget_schemas]):
        ks = l["kinds"]
        p = Plan(f"m{n}_" + "_".join(x[:3] for x in ks), ks)
        plans.append(p)
        tuples = list(itertools.product(l["roles"], repeat=len(ks)))
        assert len(tuples) == len(l["v"])
        order = list(range(len(tuples)))
        if q:
            # always the all-good tuple and every "exactly one field off" tuple would be too many: sample, but keep all-good
            rnd.shuffle(order)
            order = [0] + [i for i in order if i != 0][:5]
        for i in order:
            roles = tuples[i]
            slots = [slot_by_kind[k]["roles"][r] for k, r in zip(ks, roles)]
            p.cases.append(make_case(next(idx), p, slots, rnd, verdict=l["v"][i], built=l["b"][i], src="multi"))
    # random (Stage T only): any class anywhere, random envelope
    n_schema, per = (120, 12) if q else (1500, 20)
    for n in range(n_schema):
        ks = [rnd.choice(ing.KINDS) for _ in range(rnd.randint(1, 3))]
        p = Plan(f"r{n}_" + "_".join(x[:3] for x in ks), ks)
        plans.append(p)
        line = [slot_by_kind[k] for k in ks]
        for _ in range(per):
            slots = []
            for k, l in zip(ks, line):
                # half of the slots conforming so that whole payloads are accepted often enough
                good = [c for c in ing.CLASSES if l["slot"][c] != "no"]
                slots.append(rnd.choice(good) if rnd.random() < 0.6 else rnd.choice(ing.CLASSES))
            env = rnd.random()
            kw = {}
            if env < 0.08:
                kw["extra"] = rnd.choice(["extra", "misspelled"])
            elif env < 0.12:
                kw["shape"] = rnd.choice(["array", "scalar"])
            elif env < 0.18:
                kw["ctxk"] = rnd.choice(["quoted", "empty", "blank"])
            elif env < 0.21:
                kw["defined"] = False
            p.cases.append(make_case(next(idx), p, slots, rnd, src="random", **kw))
    return plans, slot_by_kind


def poison(c):
    """Accepted by the pinned code although out of range, and then FLUSH never returns (steering, see the finding)."""
    return any(ing.base(k) in ("datetime", "date") and s in ("i_huge", "f_max") for k, s in zip(c.plan.kinds, c.slots))


def split_noflush(plans):
    out, nf = [], []
    for p in plans:
        bad = [c for c in p.cases if poison(c)]
        if bad:
            p2 = Plan(p.name + "_nf", p.kinds)
            p2.noflush = True
            for c in bad:
                c.plan = p2
                if c.defined:
                    c.tname = p2.name
                    c.text = c.text.replace(f"STORE {p.name} FOR", f"STORE {p2.name} FOR", 1)
            p2.cases = bad
            p.cases = [c for c in p.cases if not poison(c)]
            nf.append(p2)
        out.append(p)
    return out, nf


def groups_of(plans):
    out, cur, n = [], [], 0
    for p in plans:
        if cur and (len(cur) >= TYPES_PER_GROUP or n + len(p.cases) > CASES_PER_GROUP):
            out.append(cur)
            cur, n = [], 0
        cur.append(p)
        n += len(p.cases)
    if cur:
        out.append(cur)
    return out


def run(tier):
    chk = core.Check(PROP, "model_checking", tier)
    ing.cap_violations(chk)
    bindir = core.build_harness(("vdrive",))
    rnd = random.Random(core.seed())
    q = tier == "quick"
    # ---- TLC: cases with verdicts, DEFINE machine
    slot_lines, r_slot = ing.case_lines("slot")
    env_lines, r_env = ing.case_lines("env")
    multi_lines, r_multi = ing.case_lines("multi", max_len=3)
    r_def = ing.model_check("def", gen_len=4 if q else 5, invariants=("DefineErrorKeepsSchema",),
                            must_take=("DefineAct", "BadDefineAct", "RestartAct"))
    behs, r_gen = ing.histories("def", gen_len=6, n=1500 if q else 6000, seed=core.seed())
    behs = select(behs, 60 if q else 400, def_features)
    core.log(f"[c06] TLC done at {time.time() - chk.t0:.1f}s")
    chk.cov["states"] = r_slot.distinct + r_env.distinct + r_multi.distinct + r_def.distinct
    chk.cov["transitions"] = r_def.generated
    chk.cov["model"] = {"slot_units": r_slot.distinct, "env_units": r_env.distinct, "multi_schemas": r_multi.distinct,
                        "multi_cases": sum(len(l["v"]) for l in multi_lines),
                        "define_machine_states": r_def.distinct, "define_action_coverage": r_def.action_cov,
                        "define_histories_generated": len(behs)}
    # ---- cases on the engine
    plans, slot_by_kind = build_cases(tier, rnd, slot_lines, env_lines, multi_lines)
    plans, nf_plans = split_noflush(plans)
    groups = groups_of(plans)
    nf_groups = groups_of(nf_plans)
    core.log(f"[c06] {sum(len(p.cases) for p in plans + nf_plans)} cases, {len(plans) + len(nf_plans)} types, {len(groups)}+{len(nf_groups)} groups")
    jobs = [(bindir, f"g{i}", g, core.seed() * 1000 + i) for i, g in enumerate(groups)]
    jobs += [(bindir, f"nf{i}", g, core.seed() * 1000 + 500 + i) for i, g in enumerate(nf_groups)]
    groups = groups + nf_groups
    plans = plans + nf_plans
    results = ing.parallel(run_group, jobs)
    stats = {"cases": 0, "stage_r": 0, "known": 0, "accepted": 0, "rejected": 0, "cells": 0, "type_reads": 0, "def_histories": 0, "def_probes": 0}
    records = []
    flagged = set()
    distinct = set()
    for g, (gname, t, ok, info) in zip(groups, results):
        if not ok:
            raise core.ToolError(f"group {gname} did not run to completion: {info}")
        evaluate_group(chk, g, t, stats, records, slot_lines)
        judge_cases(chk, [c for p in g for c in p.cases], stats, slot_by_kind, records, flagged, distinct)
    core.log(f"[c06] groups done at {time.time() - chk.t0:.1f}s")
    # ---- DEFINE histories on the engine
    dres = ing.parallel(run_def_history, [(bindir, n, b, core.seed() * 7919 + n) for n, b in enumerate(behs)])
    for (n, out, err), beh in zip(dres, behs):
        if out is None:
            raise core.ToolError(f"DEFINE history {n}: {err}")
        stats["def_histories"] += 1
        rec = {"t": "def", "steps": [{k: v for k, v in s.items() if k in ("act", "type", "schema", "outcome", "probes", "bad")} for s in out]}
        records.append((rec, ("def", n, out)))
        # Stage R: equality with the machine's prediction, as long as the DEFINE outcomes are the documented ones
        for i, (st, ob) in enumerate(zip(beh, out)):
            if st["act"] == "define" and st["outcome"] == "ok" and ob["outcome"] != "ok":
                raise core.ToolError(f"first DEFINE of a valid schema failed: {ob.get('text')} -> {ob.get('detail')}")
            if st["act"] != "restart" and st["act"] != "crash" and ob["outcome"] != st["outcome"]:
                break                       # undocumented outcome: the trace spec follows the observed branch
            for t in ("t", "u"):
                for p in ("pa", "pb"):
                    stats["def_probes"] += 1
                    if ob["probes"][t][p] != st["probes"][t][p]:
                        chk.violation(f"after step {i} ({st['act']} {st.get('type', '')} {st.get('schema', st.get('bad', ''))} -> "
                                      f"{ob.get('outcome', '')}) STORE {t} {p} was {ob['probes'][t][p]}, expected {st['probes'][t][p]}",
                                      {"history": beh, "observed": out})
    core.log(f"[c06] define histories done at {time.time() - chk.t0:.1f}s")
    # ---- Stage T: TLC re-judges everything that was executed
    n, notok = ing.validate_trace([r for r, _ in records], "c06")
    tstats = {"ok": n - len(notok), "known": 0, "bad": 0}
    for i, verdict in notok:
        rec, src = records[i]
        if verdict.startswith("known:"):
            tstats["known"] += 1
            fid = ing.FINDING[verdict[6:]]
            what = f"{rec['t']} {json.dumps({k: rec[k] for k in rec if k in ('kinds', 'slots', 'kind', 'class', 'tier', 'status')})}"
            if isinstance(src, Case):
                what += " " + src.text[:120]
            chk.classify([fid], what, {"record": rec, "store": src.text if isinstance(src, Case) else None})
        elif verdict == "unmodelled":
            raise core.ToolError(f"trace record outside the model: {json.dumps(rec)[:400]}")
        else:
            tstats["bad"] += 1
            if isinstance(src, Case):
                if src.idx in flagged and rec["t"] == "case":
                    continue            # already reported by the Stage R comparison above
                chk.violation(f"TLC rejects the recorded STORE: status={src.status} seen={src.seen} kinds={src.plan.kinds} "
                              f"slots={src.slots} {src.text[:160]} -> {src.detail}",
                              {"store": src.text, "define_kinds": src.plan.kinds, "case": src.abstract(), "status": src.status,
                               "seen": src.seen, "detail": src.detail})
            else:
                chk.violation(f"TLC rejects the recorded DEFINE history {src[1]}", {"observed": src[2]})
    core.log(f"[c06] trace validation done at {time.time() - chk.t0:.1f}s")
    chk.cov["traces_validated_against_impl"] = n
    chk.cov["trace_verdicts"] = tstats
    chk.cov["evaluations"] = stats["cases"] + stats["def_probes"]
    chk.cov["distinct_nontrivial"] = len(distinct)
    if stats["accepted"] < 200 or stats["rejected"] < 200:
        raise core.ToolError(f"vacuity: {stats['accepted']} accepted / {stats['rejected']} rejected STOREs")
    chk.cov["rule"] = ("one evaluation = one STORE whose status class is compared with the TLC verdict and whose presence is checked in "
                       "4 tiers (memory, WAL recovery, after FLUSH, after restart) or one probe STORE of a DEFINE history; non-trivial = "
                       "verdict accept or reject (not open), status and all reads as expected; distinct by schema, classes, envelope and "
                       "representative values")
    chk.cov["engine"] = stats
    for c in [c for p in plans for c in p.cases][:2000:400]:
        chk.sample({"store": c.text[:200], "kinds": c.plan.kinds, "slots": c.slots, "verdict": c.verdict, "status": c.status, "seen": c.seen})
    chk.assumptions += ["value classes are enumerated, the values inside a class are 2-5 hand-picked representatives",
                        "schemas of more than one field use one canonical class per role (good/absent/null/wrong/nested); "
                        "arbitrary classes in several slots are sampled (Stage T)",
                        "one shard, authentication bypassed, commands through parse_command + dispatch_command"]
    return chk.finish()


def replay(path):
    d = json.load(open(path))["replay"]
    bindir = core.build_harness(("vdrive",))
    rnd = random.Random(1)
    root = ing.fresh_root("c06", "replay")
    if "store" in d and d["store"]:
        kinds = d.get("define_kinds") or d["record"].get("kinds") or [d["record"]["kind"]]
        fields = [(f"f{i + 1}", k) for i, k in enumerate(kinds)]
        tname = d["store"].split()[1]
        ctx = d["store"].split(" FOR ", 1)[1].split(" PAYLOAD ", 1)[0]
        steps = [ing.cmd(ing.define_text(tname, fields, rnd)), ing.cmd(d["store"]), ing.cmd(f"REPLAY {tname} FOR {ctx}"),
                 ing.cmd(f"QUERY {tname}"), ing.cmd("FLUSH"), {"op": "flush_wait"}, ing.cmd(f"QUERY {tname}"), {"op": "shutdown"}]
        if not d.get("case", {}).get("defined", True):
            steps = steps[1:]
        rc, obs, err = ing.run_life(bindir, root, "l1", steps)
        for o in obs:
            if o.get("op") == "cmd":
                print(o["text"][:200], "->", o.get("outcome"), o.get("status"), o.get("message") or o.get("detail"), json.dumps(o.get("rows"))[:300])
    elif "history" in d:
        n, out, err = run_def_history((bindir, 0, d["history"], 1))
        print(json.dumps(out, indent=1), err)
    else:
        print(json.dumps(d)[:2000])
    return 0
