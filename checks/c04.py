"""C04 - REPLAY returns a context's events in the order they were appended.

Stage M: TLC checks ReplayInOrder on the design parameterisation of Storage.tla.
Stage R: TLC-generated histories (as-built parameterisation; appends of two contexts and two types
         interleaved with FLUSH / compaction / clean restart / crash between commands, so that a
         context spans memory, several L0 segments and compacted segments whose ids sort after
         newer L0 ids) are replayed; after every command REPLAY <type> FOR <ctx> and the wildcard
         REPLAY FOR <ctx> are compared with the append order.
Stage N: narrowing by SINCE and RETURN: spec/ReplayGen.tla (Query!Eval) gives the expected membership of
         REPLAY <type> FOR <ctx> SINCE t for times on and between the stored (repeated) timestamps; run in six
         layouts with zone sizes 2-7; append order within a single source (memory, one segment), RETURN keeps the core fields."""
import json
import random

from vlib import core, storage

PROP = "C04"
TYPES = ["a", "b"]
CTXS = ["c1", "c2"]


def groups_update(groups, m):
    """Assign every event the id of the L0 directory it was first flushed into (the source within
    which the code preserves order: one memtable, written context by context in bucket order)."""
    gen = groups.setdefault("__gen__", {})       # segment id -> generation (ids are re-used after restarts)
    prev = groups.setdefault("__prev__", set())
    now = {s for (s, _t, _rows) in m["dirrows"] if s < 10000}
    for s in now - prev:
        gen[s] = gen.get(s, 0) + 1
    groups["__prev__"] = now
    for (s, _t, rows) in m["dirrows"]:
        if s < 10000:
            for (k, _c) in rows:
                groups.setdefault(k, ("seg", s, gen.get(s, 0)))


def explainable_by_sources(real_ks, design_ks, groups, mem_ks, l0_now=None):
    """As-built order guarantee: two events that went through the same memtable (same L0 flush,
    or both still in memory) keep their append order; anything else may be reordered (fan-in of
    the memory and segment flows, lexical segment order, heap ties in compaction)."""
    pos = {k: i for i, k in enumerate(real_ks)}
    for i, x in enumerate(design_ks):
        for y in design_ks[i + 1:]:
            gx = ("mem",) if x in mem_ks else groups.get(x)
            gy = ("mem",) if y in mem_ks else groups.get(y)
            # once a segment has been compacted its rows went through the merge heap, which
            # orders by context id only (ties between cursors - also between two zones of one
            # input - are arbitrary): no order guarantee is left for them
            if l0_now is not None and gx is not None and gx[0] == "seg" and gx[1] not in l0_now:
                continue
            if gx is not None and gx == gy and pos[x] > pos[y]:
                return False, (x, y, gx)
    return True, None


def judge(chk, beh, recs, problems, cfgdesc, stats):
    replay = {"behaviour": beh, "config": cfgdesc}
    groups = {}
    for rec in recs:
        i, c, real = rec["i"], rec["cmd"], rec["real"]
        if real is None:
            if any(p["problem"].startswith("crash point not reached") for p in problems):
                stats["drift"] += 1
                return
            chk.violation(f"no observation after command {i} ({c['cmd']}): {problems[:1]}", replay)
            return
        m = c["obs"]
        groups_update(groups, m)
        fired = sorted(m["fired"])
        for ctx in CTXS:
            for t in TYPES:
                design = [k for (k, cc) in storage.design_rows(beh, i, t) if cc == ctx]
                rows = real["replay"].get(f"{t}|{ctx}")
                if rows is None:
                    chk.violation(f"REPLAY {t} FOR {ctx} gave no decodable response after command {i}", replay)
                    return
                got = [r[0] for r in rows]
                stats["replays"] += 1
                if any(r[1] != ctx or r[2] != t for r in rows):
                    chk.violation(f"REPLAY {t} FOR {ctx} returned a row of another context/type after command {i}: {rows}", replay)
                    return
                if got == design:
                    if len(design) >= 2:
                        stats["ordered_nontrivial"] += 1
                    continue
                desc = f"REPLAY {t} FOR {ctx} after command {i} ({c['cmd']}): got {got}, append order is {design}"
                if sorted(got) != sorted(design):
                    # membership differs: that is the storage-level finding (C01 family), explained
                    # only if the as-built model predicts exactly this set
                    asb = sorted({k for (k, cc) in m["rows"][t]["seg"] + m["rows"][t]["mem"] if cc == ctx})
                    if sorted(got) == asb:
                        if chk.classify([f"C01-{f}" for f in fired], desc, replay) == "violation":
                            return
                        stats["known_membership"] += 1
                        continue
                    if "output-id-reuse" in fired:
                        chk.classify(["C01-output-id-reuse"], desc, replay)
                        return
                    chk.violation(desc + f"; as-built model predicts members {asb} fired={fired}", replay)
                    return
                mem_ks = {k for (k, cc) in m["rows"][t]["mem"] if cc == ctx}
                model_ks = [k for (k, cc) in m["rows"][t]["seg"] + m["rows"][t]["mem"] if cc == ctx]
                if len(model_ks) != len(set(model_ks)):
                    # the as-built model holds some of these events more than once (storage-level
                    # findings): the response writer keeps whichever copy arrives first, so no
                    # order guarantee is left to check
                    if chk.classify(["C04-order-across-sources"] + [f"C01-{f}" for f in fired], desc, replay) == "violation":
                        return
                    stats["known_order_with_duplicates"] += 1
                    continue
                if "output-id-reuse" in fired:
                    chk.classify(["C01-output-id-reuse"], desc, replay)
                    return
                l0_now = {s2 for (s2, _t2, _r2) in m["dirrows"] if s2 < 10000}
                ok, why = explainable_by_sources(got, design, groups, mem_ks, l0_now)
                if ok:
                    if chk.classify(["C04-order-across-sources"], desc, replay) == "violation":
                        return
                    stats["known_order"] += 1
                else:
                    chk.violation(desc + f"; events {why[0]} and {why[1]} went through the same memtable {why[2]} and are still inverted", replay)
                    return
            # wildcard form
            allrows = real["replay_all"].get(ctx)
            design_all = [cc["k"] for cc in beh[: i + 1] if cc["cmd"] == "store" and cc["c"] == ctx]
            if allrows is None:
                chk.violation(f"REPLAY FOR {ctx} gave no decodable response after command {i}", replay)
                return
            got_all = [r[0] for r in allrows]
            stats["wildcard_replays"] += 1
            if got_all != design_all:
                types_present = {cc["t"] for cc in beh[: i + 1] if cc["cmd"] == "store" and cc["c"] == ctx}
                on_disk = bool(m["segs"])
                desc = f"REPLAY FOR {ctx} after command {i}: got {got_all}, append order is {design_all}"
                if set(got_all) < set(design_all) and on_disk and len({r[2] for r in allrows}) <= 1:
                    # every row of one type: the documented one-type-on-disk defect
                    if chk.classify(["C04-wildcard-replay-on-disk"], desc, replay) == "violation":
                        return
                    stats["known_wildcard"] += 1
                elif sorted(got_all) == sorted(design_all):
                    if chk.classify(["C04-order-across-sources"], desc, replay) == "violation":
                        return
                    stats["known_order"] += 1
                elif fired:
                    # membership already off at storage level in this behaviour; judged per type above
                    stats["wildcard_skipped_storage_defect"] += 1
                elif len(types_present) > 1 and on_disk:
                    if chk.classify(["C04-wildcard-replay-on-disk"], desc, replay) == "violation":
                        return
                    stats["known_wildcard"] += 1
                else:
                    chk.violation(desc, replay)
                    return
    stats["complete"] += 1


def stage_n(chk, tier, bindir):
    """Narrowing clause: REPLAY <type> FOR <ctx> [SINCE t] [RETURN [..]] over data sets with repeated timestamps, in every
    layout and with zone sizes that are and are not multiples of 4; expected membership from spec/ReplayGen.tla
    (Query!Eval, SINCE inclusive); order must agree with the un-narrowed REPLAY of the same state."""
    import shutil
    from collections import Counter
    from vlib import query
    rnd = random.Random(core.seed() + 404)
    stats = Counter()
    kinds = {"x": "int"}
    ctxs = ["c1", "c2", "c3"]
    times = (10, 20, 30, 40)
    probes = [5, 10, 15, 20, 30, 40, 45]
    rounds = 2 if tier == "quick" else 10
    layouts = ["mem", "l0", "l0x3", "l1", "mixed", "restart"]
    for rd in range(rounds):
        data = query.random_data(rnd, 26, ["x"], ctxs, times=times)
        d = core.WORK / "qgen"
        d.mkdir(parents=True, exist_ok=True)
        mod = f"MCR_c04_{rd}"
        evs = ",\n    ".join(query.tla_event(e, ["x"]) for e in data)
        (d / f"{mod}.tla").write_text(f"---- MODULE {mod} ----\nEXTENDS ReplayGen\nDataDef == {{\n    {evs} }}\n====\n")
        (d / f"{mod}.cfg").write_text("SPECIFICATION Spec\nCONSTANTS\n  Data <- DataDef\n  Ctxs = {" + ", ".join(f'"{c}"' for c in ctxs) + "}\n  Times = {"
                                      + ", ".join(str(t) for t in probes) + "}\nINVARIANT Emit\nCHECK_DEADLOCK FALSE\n")
        for f in ("Query.tla", "ReplayGen.tla"):
            (d / f).write_text((core.SPEC / f).read_text())
        r = core.tlc(mod, f"{mod}.cfg", workers=2, cwd=d, timeout=300)
        if r.error or r.violated:
            core.log(r.out[-2000:])
            raise core.ToolError(f"ReplayGen failed: {r.error or r.violated}")
        cases = r.printed("CASE")
        if len(cases) != len(ctxs) * (len(probes) + 1):
            raise core.ToolError(f"ReplayGen printed {len(cases)} cases")
        stats["states"] += r.distinct
        for li, layout in enumerate(layouts):
            epz = [3, 5, 6, 4, 7, 2][(li + rd) % 6]
            root = core.WORK / "c04" / f"n{rd}-{layout}"
            if root.exists():
                shutil.rmtree(root)
            root.mkdir(parents=True)
            cfg = {"root": str(root / "db"), "fill_factor": 1000, "event_per_zone": epz, "shards": 1, "k": 2}
            lts = query.layout_steps(layout, data, kinds)
            for ci, c in enumerate(cases):
                q = c["q"]
                since = "" if q["since"] == -1 else f' SINCE "{1_700_000_000 + q["since"]}"'
                lts[-1].append({"op": "cmd", "text": f'REPLAY ev FOR {q["ctx"]}{since}', "tag": ["n", ci, "plain"]})
                lts[-1].append({"op": "cmd", "text": f'REPLAY ev FOR {q["ctx"]}{since} RETURN [x]', "tag": ["n", ci, "ret"]})
            by = {}
            failed = None
            for i, steps in enumerate(lts):
                rc, obs, err = core.run_vdrive(bindir, {"config": cfg, "out": str(root / f"o{i}.ndjson"), "steps": steps}, timeout=180)
                if rc != 0:
                    failed = f"lifetime {i} ended with {rc}: {err[-200:]}"
                for o in obs:
                    t = o.get("tag")
                    if isinstance(t, list) and t and t[0] == "n":
                        by[(t[1], t[2])] = o
            rep = {"layout": layout, "event_per_zone": epz, "data": data}
            if failed:
                chk.violation(f"narrowing stage, layout {layout}: {failed}", rep)
                continue
            full = {}
            for ci, c in enumerate(cases):
                if c["q"]["since"] == -1:
                    o = by.get((ci, "plain"))
                    if o and o.get("outcome") == "response" and o.get("status") == 200:
                        cols = o.get("columns", [])
                        full[c["q"]["ctx"]] = [row[cols.index("k")] for row in o.get("rows", [])] if o.get("rows") else []
            ts_of = {e["k"]: e["ts"] for e in data}
            for ci, c in enumerate(cases):
                q = c["q"]
                exp = sorted(c["exp"])
                text = f'REPLAY ev FOR {q["ctx"]}' + ("" if q["since"] == -1 else f' SINCE "{1_700_000_000 + q["since"]}"')
                where = f"{text} [{layout}, {epz} events per zone]"
                o = by.get((ci, "plain"))
                stats["replays"] += 1
                if not o or o.get("outcome") != "response" or o.get("status") != 200:
                    chk.violation(f"{where}: no result: {None if o is None else (o.get('outcome'), o.get('status'), o.get('message'))}", {**rep, "case": c})
                    continue
                cols = o.get("columns", [])
                rows = o.get("rows", []) or []
                got = [row[cols.index("k")] for row in rows] if rows else []
                if sorted(got) != exp:
                    chk.violation(f"{where}: returned k = {sorted(got)}, the context's events with time >= {q['since']} are {exp} "
                                  f"(times {[ts_of[k] for k in exp]})", {**rep, "case": c})
                    continue
                if rows and any(row[cols.index("context_id")] != q["ctx"] or row[cols.index("event_type")] != "ev" for row in rows):
                    chk.violation(f"{where}: a row of another context / type was returned", {**rep, "case": c})
                    continue
                # order: with a single source (memory only, or one flushed segment) the result must be in append order;
                # across several sources the order is not guaranteed and varies between two commands (open finding
                # C04-order-across-sources), so only membership is judged there
                if layout in ("mem", "l0") and got != sorted(got):
                    chk.violation(f"{where}: returned in the order {got}, append order is {sorted(got)}", {**rep, "case": c})
                    continue
                o2 = by.get((ci, "ret"))
                stats["replays_with_return"] += 1
                if not o2 or o2.get("outcome") != "response" or o2.get("status") != 200:
                    chk.violation(f"{text} RETURN [x] [{layout}]: no result", {**rep, "case": c})
                    continue
                cols2 = o2.get("columns", [])
                rows2 = o2.get("rows", []) or []
                if rows2:
                    need = {"context_id", "event_type", "timestamp", "event_id", "x"}
                    if not need <= set(cols2) or "k" in cols2:
                        chk.violation(f"{text} RETURN [x] [{layout}]: columns {cols2} (core fields and x expected, k not)", {**rep, "case": c})
                        continue
                    ids_plain = [row[cols.index("event_id")] for row in rows]
                    ids_ret = [row[cols2.index("event_id")] for row in rows2]
                    if (ids_plain != ids_ret) if layout in ("mem", "l0") else (sorted(ids_plain) != sorted(ids_ret)):
                        chk.violation(f"{text} RETURN [x] [{layout}]: rows differ from the replay without RETURN ({len(ids_ret)} vs {len(ids_plain)})", {**rep, "case": c})
                        continue
                elif rows:
                    chk.violation(f"{text} RETURN [x] [{layout}]: no rows, the replay without RETURN has {len(rows)}", {**rep, "case": c})
                    continue
                if q["since"] != -1 and exp and any(ts_of[k] == q["since"] for k in exp):
                    stats["since_on_a_timestamp_ok"] += 1
            shutil.rmtree(root, ignore_errors=True)
    chk.cov["narrowing"] = dict(stats)
    return stats


def run(tier):
    chk = core.Check(PROP, "model_checking", tier)
    bindir = core.build_harness(("vdrive",))
    storage.model_stage_m(chk, "Storage_design_c04.cfg" if tier == "quick" else "Storage_design_c04_t.cfg", "C04",
                          must_take=("Store", "ManualFlush", "Compact", "CrashRestart", "CleanRestart"))
    rnd = random.Random(core.seed())
    q = tier == "quick"
    gen = {"flush_crash": [], "compact_crash": [], "quiescent_crash": True, "clean_restarts": True,
           "max_compact": 3, "max_flush": 3, "max_crash": 2}
    plans = [
        {"name": "c04-cap2k2", "cap": 2, "k": 2, "gen_len": 10, "n_sim": 500, "n_rep": 40 if q else 400, "gen": gen},
        {"name": "c04-cap3k2-z1", "cap": 3, "k": 2, "gen_len": 12, "n_sim": 400, "n_rep": 25 if q else 300, "gen": gen,
         "run": {"fill": 3, "epz": 1}},
        {"name": "c04-cap4k3", "cap": 4, "k": 3, "gen_len": 14, "n_sim": 400, "n_rep": 15 if q else 200, "gen": gen},
    ]
    stats = storage.campaign(chk, "C04", plans, TYPES, CTXS, bindir, judge, rnd)
    sn = stage_n(chk, tier, bindir)
    chk.cov["evaluations"] = stats["replays"] + stats["wildcard_replays"] + sn["replays"] + sn["replays_with_return"]
    chk.cov["distinct_nontrivial"] = stats["ordered_nontrivial"] + stats["known_order"] + sn["since_on_a_timestamp_ok"]
    chk.cov["rule"] = ("one evaluation = one REPLAY (per type and wildcard) after a command of a TLC-generated history; "
                       "non-trivial = the context holds >= 2 events of the type at that point")
    chk.assumptions += ["one client per history, so apply order = issue order", "one shard; 2 types x 2 contexts; zone sizes 1 and 2 in the history stage; narrowing stage: 1 type x 3 contexts, zone sizes 2-7, timestamps repeated"]
    return chk.finish()


def replay(path):
    d = json.load(open(path))
    beh = d["replay"]["behaviour"]
    cfg = d["replay"]["config"]
    bindir = core.build_harness(("vdrive",))
    recs, problems = storage.run_behaviour(bindir, beh, root=core.WORK / "c04" / "replay", cap=cfg["cap"], k=cfg["k"],
                                           types=TYPES, ctxs=CTXS, keep=True)
    for rec in recs:
        c = rec["cmd"]
        print(json.dumps({"i": rec["i"], "cmd": {x: c[x] for x in c if x != "obs"},
                          "real": None if rec["real"] is None else {k: [r[0] for r in v] for k, v in rec["real"]["replay"].items()},
                          "real_all": None if rec["real"] is None else {k: [r[0] for r in v] for k, v in rec["real"]["replay_all"].items()}}))
    print(json.dumps(problems))
    return 0
