"""C04 - REPLAY returns a context's events in the order they were appended.

Stage M: TLC checks ReplayInOrder on the design parameterisation of Storage.tla.
Stage R: TLC-generated histories (as-built parameterisation; appends of two contexts and two types
         interleaved with FLUSH / compaction / clean restart / crash between commands, so that a
         context spans memory, several L0 segments and compacted segments whose ids sort after
         newer L0 ids) are replayed; after every command REPLAY <type> FOR <ctx> and the wildcard
         REPLAY FOR <ctx> are compared with the append order."""
import json
import random

from vlib import core, storage

PROP = "C04"
TYPES = ["a", "b"]
CTXS = ["c1", "c2"]


def groups_update(groups, m):
    """Assign every event the id of the L0 directory it was first flushed into (the source within
    which the code preserves order: one memtable, written context by context in bucket order)."""
    gen = groups.setdefault("__gen__", {})       # segment id -> generation (ids are re-used after restarts)
    prev = groups.setdefault("__prev__", set())
    now = {s for (s, _t, _rows) in m["dirrows"] if s < 10000}
    for s in now - prev:
        gen[s] = gen.get(s, 0) + 1
    groups["__prev__"] = now
    for (s, _t, rows) in m["dirrows"]:
        if s < 10000:
            for (k, _c) in rows:
                groups.setdefault(k, ("seg", s, gen.get(s, 0)))


def explainable_by_sources(real_ks, design_ks, groups, mem_ks, l0_now=None):
    """As-built order guarantee: two events that went through the same memtable (same L0 flush,
    or both still in memory) keep their append order; anything else may be reordered (fan-in of
    the memory and segment flows, lexical segment order, heap ties in compaction)."""
    pos = {k: i for i, k in enumerate(real_ks)}
    for i, x in enumerate(design_ks):
        for y in design_ks[i + 1:]:
            gx = ("mem",) if x in mem_ks else groups.get(x)
            gy = ("mem",) if y in mem_ks else groups.get(y)
            # once a segment has been compacted its rows went through the merge heap, which
            # orders by context id only (ties between cursors - also between two zones of one
            # input - are arbitrary): no order guarantee is left for them
            if l0_now is not None and gx is not None and gx[0] == "seg" and gx[1] not in l0_now:
                continue
            if gx is not None and gx == gy and pos[x] > pos[y]:
                return False, (x, y, gx)
    return True, None


def judge(chk, beh, recs, problems, cfgdesc, stats):
    replay = {"behaviour": beh, "config": cfgdesc}
    groups = {}
    for rec in recs:
        i, c, real = rec["i"], rec["cmd"], rec["real"]
        if real is None:
            if any(p["problem"].startswith("crash point not reached") for p in problems):
                stats["drift"] += 1
                return
            chk.violation(f"no observation after command {i} ({c['cmd']}): {problems[:1]}", replay)
            return
        m = c["obs"]
        groups_update(groups, m)
        fired = sorted(m["fired"])
        for ctx in CTXS:
            for t in TYPES:
                design = [k for (k, cc) in storage.design_rows(beh, i, t) if cc == ctx]
                rows = real["replay"].get(f"{t}|{ctx}")
                if rows is None:
                    chk.violation(f"REPLAY {t} FOR {ctx} gave no decodable response after command {i}", replay)
                    return
                got = [r[0] for r in rows]
                stats["replays"] += 1
                if any(r[1] != ctx or r[2] != t for r in rows):
                    chk.violation(f"REPLAY {t} FOR {ctx} returned a row of another context/type after command {i}: {rows}", replay)
                    return
                if got == design:
                    if len(design) >= 2:
                        stats["ordered_nontrivial"] += 1
                    continue
                desc = f"REPLAY {t} FOR {ctx} after command {i} ({c['cmd']}): got {got}, append order is {design}"
                if sorted(got) != sorted(design):
                    # membership differs: that is the storage-level finding (C01 family), explained
                    # only if the as-built model predicts exactly this set
                    asb = sorted({k for (k, cc) in m["rows"][t]["seg"] + m["rows"][t]["mem"] if cc == ctx})
                    if sorted(got) == asb:
                        if chk.classify([f"C01-{f}" for f in fired], desc, replay) == "violation":
                            return
                        stats["known_membership"] += 1
                        continue
                    if "output-id-reuse" in fired:
                        chk.classify(["C01-output-id-reuse"], desc, replay)
                        return
                    chk.violation(desc + f"; as-built model predicts members {asb} fired={fired}", replay)
                    return
                mem_ks = {k for (k, cc) in m["rows"][t]["mem"] if cc == ctx}
                model_ks = [k for (k, cc) in m["rows"][t]["seg"] + m["rows"][t]["mem"] if cc == ctx]
                if len(model_ks) != len(set(model_ks)):
                    # the as-built model holds some of these events more than once (storage-level
                    # findings): the response writer keeps whichever copy arrives first, so no
                    # order guarantee is left to check
                    if chk.classify(["C04-order-across-sources"] + [f"C01-{f}" for f in fired], desc, replay) == "violation":
                        return
                    stats["known_order_with_duplicates"] += 1
                    continue
                if "output-id-reuse" in fired:
                    chk.classify(["C01-output-id-reuse"], desc, replay)
                    return
                l0_now = {s2 for (s2, _t2, _r2) in m["dirrows"] if s2 < 10000}
                ok, why = explainable_by_sources(got, design, groups, mem_ks, l0_now)
                if ok:
                    if chk.classify(["C04-order-across-sources"], desc, replay) == "violation":
                        return
                    stats["known_order"] += 1
                else:
                    chk.violation(desc + f"; events {why[0]} and {why[1]} went through the same memtable {why[2]} and are still inverted", replay)
                    return
            # wildcard form
            allrows = real["replay_all"].get(ctx)
            design_all = [cc["k"] for cc in beh[: i + 1] if cc["cmd"] == "store" and cc["c"] == ctx]
            if allrows is None:
                chk.violation(f"REPLAY FOR {ctx} gave no decodable response after command {i}", replay)
                return
            got_all = [r[0] for r in allrows]
            stats["wildcard_replays"] += 1
            if got_all != design_all:
                types_present = {cc["t"] for cc in beh[: i + 1] if cc["cmd"] == "store" and cc["c"] == ctx}
                on_disk = bool(m["segs"])
                desc = f"REPLAY FOR {ctx} after command {i}: got {got_all}, append order is {design_all}"
                if set(got_all) < set(design_all) and on_disk and len({r[2] for r in allrows}) <= 1:
                    # every row of one type: the documented one-type-on-disk defect
                    if chk.classify(["C04-wildcard-replay-on-disk"], desc, replay) == "violation":
                        return
                    stats["known_wildcard"] += 1
                elif sorted(got_all) == sorted(design_all):
                    if chk.classify(["C04-order-across-sources"], desc, replay) == "violation":
                        return
                    stats["known_order"] += 1
                elif fired:
                    # membership already off at storage level in this behaviour; judged per type above
                    stats["wildcard_skipped_storage_defect"] += 1
                elif len(types_present) > 1 and on_disk:
                    if chk.classify(["C04-wildcard-replay-on-disk"], desc, replay) == "violation":
                        return
                    stats["known_wildcard"] += 1
                else:
                    chk.violation(desc, replay)
                    return
    stats["complete"] += 1


def run(tier):
    chk = core.Check(PROP, "model_checking", tier)
    bindir = core.build_harness(("vdrive",))
    storage.model_stage_m(chk, "Storage_design_c04.cfg" if tier == "quick" else "Storage_design_c04_t.cfg", "C04",
                          must_take=("Store", "ManualFlush", "Compact", "CrashRestart", "CleanRestart"))
    rnd = random.Random(core.seed())
    q = tier == "quick"
    gen = {"flush_crash": [], "compact_crash": [], "quiescent_crash": True, "clean_restarts": True,
           "max_compact": 3, "max_flush": 3, "max_crash": 2}
    plans = [
        {"name": "c04-cap2k2", "cap": 2, "k": 2, "gen_len": 10, "n_sim": 500, "n_rep": 40 if q else 400, "gen": gen},
        {"name": "c04-cap3k2-z1", "cap": 3, "k": 2, "gen_len": 12, "n_sim": 400, "n_rep": 25 if q else 300, "gen": gen,
         "run": {"fill": 3, "epz": 1}},
        {"name": "c04-cap4k3", "cap": 4, "k": 3, "gen_len": 14, "n_sim": 400, "n_rep": 15 if q else 200, "gen": gen},
    ]
    stats = storage.campaign(chk, "C04", plans, TYPES, CTXS, bindir, judge, rnd)
    chk.cov["evaluations"] = stats["replays"] + stats["wildcard_replays"]
    chk.cov["distinct_nontrivial"] = stats["ordered_nontrivial"] + stats["known_order"]
    chk.cov["rule"] = ("one evaluation = one REPLAY (per type and wildcard) after a command of a TLC-generated history; "
                       "non-trivial = the context holds >= 2 events of the type at that point")
    chk.assumptions += ["one client per history, so apply order = issue order", "one shard; 2 types x 2 contexts; zone sizes 1 and 2"]
    return chk.finish()


def replay(path):
    d = json.load(open(path))
    beh = d["replay"]["behaviour"]
    cfg = d["replay"]["config"]
    bindir = core.build_harness(("vdrive",))
    recs, problems = storage.run_behaviour(bindir, beh, root=core.WORK / "c04" / "replay", cap=cfg["cap"], k=cfg["k"],
                                           types=TYPES, ctxs=CTXS, keep=True)
    for rec in recs:
        c = rec["cmd"]
        print(json.dumps({"i": rec["i"], "cmd": {x: c[x] for x in c if x != "obs"},
                          "real": None if rec["real"] is None else {k: [r[0] for r in v] for k, v in rec["real"]["replay"].items()},
                          "real_all": None if rec["real"] is None else {k: [r[0] for r in v] for k, v in rec["real"]["replay_all"].items()}}))
    print(json.dumps(problems))
    return 0
