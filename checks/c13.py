"""C13 - no data command runs without authentication and the required permission.

Stage M: TLC checks Auth.tla itself (Expected total over the request space, only intact
         credentials of existing active users authenticate, least privilege, the documented
         priority rule never allows more than the property text, revocation / expiry effective
         and monotone) over every reachable set-up state of small constants.
Stage R: TLC (AuthGen) generates histories of management actions (create with a role set, grant /
         revoke per type, revoke key, AUTH on persistent connections, token expiry); AuthProbe
         prints, for every state on them, the probe requests with the expected class and the
         event types whose data the answer may contain.  Each history is one lifetime of the real
         front ends (TCP, HTTP /command and /json-command, WebSocket, Unix socket; vauth); after
         every action the server's user table is compared with the model state and the probes are
         sent in the real wire formats; class, data seen and side effect are compared.
Stage T: everything that was executed (the probes, plus randomly drawn well-formed requests that
         no table lists) is written as a trace and re-judged by TLC (AuthTrace) in the state at the
         time of the request.
Verdict: executing / showing data / leaving a side effect without Expected = Executed is a
         violation (or a listed finding when it has exactly that finding's shape); a server that is
         stricter than documented is counted, not condemned."""
import json
import random
import re
import shutil
import time
from collections import Counter
from concurrent.futures import ThreadPoolExecutor

from vlib import auth, core

PROP = "C13"

# handlers that compare the user id with the reserved string (src/command/handlers/{store,define,auth,permissions}.rs,
# query/handler.rs)
BYPASS_KINDS = {"store", "store_tokpayload", "store_sigpayload", "json_store", "query", "find", "count", "agg", "json_query",
                "seq", "define", "create_user", "revoke_key", "list_users", "grant", "revoke", "show_perms"}
# dispatcher arms that drop the user identity (src/command/dispatcher.rs)
NOIDENT_KINDS = {"replay", "replay_all", "json_replay", "compare", "remember", "show"}
AGG_KINDS = {"agg", "count", "compare"}
READ_ONLY_KINDS = {"query", "find", "count", "agg", "seq", "compare", "json_query", "replay", "json_replay", "replay_all",
                   "show", "ping", "list_users", "show_perms"}
RESERVED_IDS = {"byp", "noa"}     # abstract subject ids whose concrete strings the code treats specially
INCONCLUSIVE = {"timeout", "connect_error", "sentinel_unavailable", "framing_timeout"}


# --------------------------------------------------------------------------- selection of behaviours
def features(beh):
    f = {"sid:" + beh["sid"]}
    prev = "init"
    for s in beh["steps"]:
        a = s["act"]
        name = a["a"]
        if name == "create":
            f.add("roles:" + ",".join(sorted(a["roles"])))
        if name in ("grant", "revoke"):
            name += ":" + "".join(sorted(a["p"]))
            st = s["st"]
            f.add(f"{name}|roles:{','.join(sorted(st['roles']))}")
        f.add(f"{prev}>{name}")
        f.add(f"{beh['sid']}|{name}")
        prev = name
        st = s["st"]
        if st["act"]:
            for t in auth.TYPES:
                p = st["perms"][t]
                f.add(f"perm:{','.join(sorted(st['roles']))}|{int(p['set'])}{int(p['r'])}{int(p['w'])}")
        if not st["act"] and any(v for v in st["conn"].values()):
            f.add("revoked-with-open-conn")
        if "dead" in st["tok"].values() and st["act"]:
            f.add("expired-token-active-user")
    return f


def select(behs, limit, rnd):
    behs = list(behs)
    rnd.shuffle(behs)
    feats = [features(b) for b in behs]
    chosen, covered, remaining = [], set(), list(range(len(behs)))
    while remaining and len(chosen) < limit:
        best = max(remaining, key=lambda i: len(feats[i] - covered))
        if not (feats[best] - covered):
            break
        chosen.append(best)
        covered |= feats[best]
        remaining.remove(best)
    for i in remaining:
        if len(chosen) >= limit:
            break
        chosen.append(i)
    allf = set().union(*feats) if feats else set()
    return [behs[i] for i in chosen], len(covered), len(allf)


# --------------------------------------------------------------------------- drawing requests
def silent_on_ws(row):
    """Requests the WebSocket front end does not answer at all (refused authentication): each costs a grace period."""
    return row["fe"] == "ws" and row.get("e", "Unauthenticated") == "Unauthenticated"


def random_row(rnd, cmds, st):
    """A well-formed request (Auth!WellFormed) drawn from the full product, without expectation."""
    for _ in range(50):
        k, t, t2 = rnd.choice(cmds)
        is_json = k.startswith("json_")
        form = rnd.choice(["inline", "inline", "header", "authconn", "conn", "token", "none"])
        c = "-"
        who = rnd.choice(["subj", "subj", "subj", "adm", "u2", "ghost"])
        if form == "inline":
            fe = rnd.choice(["tcp", "ws", "unix", "http"])
            cred = rnd.choice(["valid", "valid", "wrongkey", "othersig", "othercmd", "truncated", "extended", "empty"])
        elif form == "header":
            fe = "httpjson" if is_json else "http"
            cred = rnd.choice(["valid", "valid", "wrongkey", "othersig", "othercmd", "truncated", "extended", "empty"])
        elif form == "authconn":
            fe = rnd.choice(["tcp", "ws"])
            cred = rnd.choice(["valid", "valid", "wrongkey", "othercmd", "truncated", "badauth", "nosig"])
        elif form == "conn":
            cs = [x for x in ("c1", "w1") if st["conn"][x]]
            if not cs:
                continue
            c = rnd.choice(cs)
            fe = "ws" if c == "w1" else "tcp"
            who = "subj"
            cred = rnd.choice(["valid", "valid", "wrongkey", "othercmd", "truncated", "nosig"])
        elif form == "token":
            cs = [x for x in ("c1", "w1") if st["tok"][x] != "none"]
            if not cs:
                continue
            c = rnd.choice(cs)
            fe = rnd.choice(["tcp", "ws"])
            who = "subj"
            cred = rnd.choice(["valid", "valid", "truncated", "flipped"])
            # half of the token requests travel over the very connection whose AUTH minted the token (while it is open):
            # the answer must not depend on the connection - not even after REVOKE KEY or expiry
            same_conn = c == "c1" and st["conn"]["c1"] and rnd.random() < 0.6
            if same_conn:
                fe = "tcp"
        else:
            fe = rnd.choice(["tcp", "ws", "unix", "http", "httpjson"])
            cred = "none"
        if (fe == "httpjson") != is_json:
            continue
        if cred == "othersig" and who == "u2":
            continue
        if k == "batch_store" and not (form in ("inline", "header", "none") and fe in ("tcp", "http")):
            continue
        row = {"fe": fe, "form": form, "cred": cred, "who": who, "c": c, "k": k, "t": t, "t2": t2}
        if form == "token" and same_conn:
            row["same_conn"] = True
        return row
    return None


def build_life(name, beh, tables, static, rnd, *, quick, tick=False, memseed=False):
    life = auth.Life(name, beh["sid"], tick=tick, memseed=memseed)
    life.setup()
    life.state_keys = {}
    cmds = sorted({(r["k"], r["t"], r["t2"]) for r in static} | {(r["k"], r["t"], r["t2"]) for r in tables[auth.state_key(beh["steps"][-1]["st"])]})
    ws_budget = [10 if quick else 30]
    n_cred = 22 if quick else 60
    n_extra = 8 if quick else 24

    def ok_kind(row):
        if memseed:
            return row["k"] in READ_ONLY_KINDS and row["k"] != "show"
        return True

    done_variants = Counter()

    def variant(r):
        return (r["fe"], r["form"], r["cred"], r["who"], r["k"])

    def take(ck, rows, origin, limit=None):
        rows = [r for r in rows if ok_kind(r)]
        rnd.shuffle(rows)
        n = 0
        # variants this lifetime has sent least often first; FLUSH last (keeps as much as possible in
        # memory for the other probes of the checkpoint)
        rows.sort(key=lambda r: (r["k"] == "flush", done_variants[variant(r)] if limit is not None else 0))
        for r in rows:
            if limit is not None and n >= limit:
                break
            if r["fe"] == "ws" and (silent_on_ws(r) or origin == "extra"):
                if ws_budget[0] <= 0:
                    continue
                ws_budget[0] -= 1
            life.request(ck, r, origin)
            done_variants[variant(r)] += 1
            n += 1

    def checkpoint(ck, st):
        life.subject_live = st["ex"] and st["act"]
        key = auth.state_key(st)
        life.state_keys[ck] = key
        rows = [auth.row_dict(r) for r in tables[key]]
        # every other TCP token request of the table travels over the connection whose AUTH minted the token (while that
        # connection is open): what a token is worth must not depend on the connection it arrives on
        n_tok = 0
        for r in rows:
            if r["form"] == "token" and r["c"] == "c1" and r["fe"] == "tcp" and st["conn"]["c1"]:
                n_tok += 1
                if n_tok % 2 == 1:
                    r["same_conn"] = True
        # ... and a few of them with a valid token are sent at every checkpoint, whatever else is sampled (the interesting
        # ones are those of a subject that has been revoked or whose token has expired)
        must = [r for r in rows if r.get("same_conn") and r["cred"] == "valid" and ok_kind(r)][:3]
        for r in must:
            life.request(ck, r, "table")
        rows = [r for r in rows if r not in must]
        kind_rows = [r for r in rows if r["cred"] == "valid" and r["who"] == "subj"
                     and (r["fe"], r["form"]) in (("tcp", "inline"), ("httpjson", "header"))]
        cred_rows = [r for r in rows if r not in kind_rows]
        if tick:
            kind_rows = [r for r in kind_rows if r["k"] in ("store", "query", "replay", "define")]
            tc = [r for r in cred_rows if r["form"] in ("token", "conn")]
            cred_rows = tc + rnd.sample([r for r in cred_rows if r not in tc], min(6, len(cred_rows) - len(tc)))
            # tokens first: they live for one to two seconds
            cred_rows.sort(key=lambda r: r["form"] != "token")
            for r in cred_rows[:40]:
                if r["fe"] == "ws" and silent_on_ws(r):
                    if ws_budget[0] <= 0:
                        continue
                    ws_budget[0] -= 1
                life.request(ck, r, "table")
            take(ck, kind_rows, "table")
            return
        live = st["ex"] and st["act"]
        take(ck, kind_rows, "table", None if live else 10)
        take(ck, cred_rows, "table", n_cred if live else n_cred // 2)
        extras = [x for x in (random_row(rnd, cmds, st) for _ in range(n_extra)) if x]
        take(ck, extras, "extra")

    if not tick:
        b = auth.blank_state(beh["sid"])
        checkpoint(0, b)
        srows = [auth.row_dict(r) for r in static]
        take(0, srows, "static", None if not quick else 45)
    else:
        life.state_keys[0] = auth.state_key(auth.blank_state(beh["sid"]))
    for i, s in enumerate(beh["steps"], start=1):
        life.action(i, s["act"], s["st"])
        checkpoint(i, s["st"])
    return life


# --------------------------------------------------------------------------- judging
class Judge:
    def __init__(self, chk, tables, static):
        self.chk = chk
        self.tables = tables
        self.static = [auth.row_dict(r) for r in static]
        self.stats = Counter()
        self.soft = Counter()
        self.reported = set()
        self.pairs = set()
        self.nontrivial = set()

    @staticmethod
    def _pos(life, rid):
        return next(i for i, s in enumerate(life.steps) if s.get("op") == "req" and s.get("id") == rid)

    def first_type_readable(self, life, ck, who, t):
        rows = self.static if who in ("adm", "u2") else [auth.row_dict(r) for r in self.tables[life.state_keys[ck]]]
        for r in rows:
            if r["who"] == who and r["k"] == "query" and r["t"] == t and r["fe"] == "tcp" and r["form"] == "inline" and r["cred"] == "valid":
                return r["e"] == "Executed"
        return False

    def finding_for(self, life, meta, exp, leak_only):
        row = meta["row"]
        k = row["k"]
        if exp == "Forbidden":
            if k in NOIDENT_KINDS:
                return "C13-read-commands-without-identity"
            if row["who"] == "subj" and life.subject == "bypass" and k in BYPASS_KINDS:
                return "C13-bypass-user-id"
            if k == "seq" and self.first_type_readable(life, meta["ck"], row["who"], row["t"]):
                return "C13-sequence-checks-first-type-only"
        if exp == "Executed" and leak_only and life.memseed and k in AGG_KINDS:
            return "C09-agg-ignores-scope"
        return None

    def hard(self, life, meta, obs, exp, see, why, stage):
        key = (life.name, meta["rid"])
        if key in self.reported:
            return
        self.reported.add(key)
        row = meta["row"]
        replay = {"life": life.name, "sid": life.sid, "subject": life.subject, "tick": life.tick, "memseed": life.memseed,
                  # the set-up, the management actions and this request (other probes do not change what it may do)
                  "steps": [s for s in life.steps[: self._pos(life, meta["rid"])] if s.get("op") != "req"] + [life.steps[self._pos(life, meta["rid"])]],
                  "request": row, "expected": {"class": exp, "may_see": see},
                  "observed": {k: obs.get(k) for k in ("class", "status", "first", "seen", "effect", "effect_before", "outcome", "head")}}
        what = (f"{why} [{stage}]: {row['k']}({row['t']},{row['t2']}) by {row['who']}={life._principal(row['who'])} via {row['fe']}/{row['form']}/{row['cred']}: "
                f"expected {exp} may_see={see}, server: {obs['class']} seen={obs['seen']} effect={auth.effect_of(obs)} '{obs['first'][:80]}'")
        fid = self.finding_for(life, meta, exp, leak_only=(why == "data of a type the principal may not read"))
        self.stats["hard"] += 1
        if fid:
            if self.chk.classify([fid], what, replay) == "known":
                self.stats["hard_known"] += 1
                self.stats["known:" + fid] += 1
        else:
            self.chk.violation(what, replay)

    def stage_r(self, life, meta, obs):
        """Equality of (class, data seen, side effect) with the printed expectation of a table row."""
        row = meta["row"]
        exp, see = row["e"], row["see"]
        self.stats["r_compared"] += 1
        eff = auth.effect_of(obs)
        if obs["class"] == "Executed" and exp != "Executed":
            self.hard(life, meta, obs, exp, see, "executed without authentication / permission", "R")
        elif eff == "yes" and exp != "Executed":
            self.hard(life, meta, obs, exp, see, "side effect of a request that was answered with a denial", "R")
        elif not set(obs["seen"]) <= set(see):
            self.hard(life, meta, obs, exp, see, "data of a type the principal may not read", "R")
        elif obs["class"] == exp and (eff == "na" or (eff == "yes") == (exp == "Executed")):
            self.stats["r_equal"] += 1
        elif obs["class"] == "NoResponse" and exp == "Unauthenticated":
            self.stats["r_equal_ws_silent"] += 1
        else:
            self.stats["r_stricter_or_other"] += 1
            self.soft[f"{row['k']}|{row['fe']}/{row['form']}|exp={exp}|got={obs['class']}"] += 1


def run(tier):
    chk = core.Check(PROP, "model_checking", tier)
    q = tier == "quick"
    bindir = core.build_harness(("vauth",))
    rnd = random.Random(core.seed())
    work = core.WORK / "c13" / f"run-{tier}"
    shutil.rmtree(work, ignore_errors=True)
    work.mkdir(parents=True, exist_ok=True)

    # ---- Stage M
    t0 = time.time()
    rm = core.tlc("Auth", "Auth_m_q.cfg" if q else "Auth_m.cfg", workers=8, coverage=True, timeout=1500)
    core.tlc_ok(rm, "Auth (Stage M)")
    acov = {m.group(1): int(m.group(2)) for m in
            re.finditer(r"^<(Do\w+) line [^>]*of module Auth(?: \([\d ]+\))?>: (\d+):\d+", rm.out, re.M)}
    must = ("DoCreate", "DoGrant", "DoRevoke", "DoRevokeKey", "DoAuth", "DoTick", "DoRestart")
    if rm.distinct < 100 or any(acov.get(a, 0) == 0 for a in must):
        raise core.ToolError(f"Stage M explored too little: {rm.distinct} states, action coverage {acov}")
    core.log(f"[C13] stage M: {rm.distinct} states / {rm.generated} transitions in {time.time()-t0:.0f}s")

    # ---- Stage R: histories
    t0 = time.time()
    behs, g1 = auth.gen_behaviours("AuthGen.cfg", 120 if q else 900, 7, core.seed())
    tbehs, g2 = auth.gen_behaviours("AuthGen_tick.cfg", 200 if q else 800, 5, core.seed())
    tbehs = [b for b in tbehs if any(s["act"]["a"] == "tick" for s in b["steps"])]
    n_norm, n_tick, n_mem = (28, 4, 2) if q else (260, 28, 6)
    sel, cov, allf = select(behs, n_norm, rnd)
    tsel, _, _ = select(tbehs, n_tick, rnd)
    msel = [b for b in behs if b not in sel and any(s["st"]["act"] and not s["st"]["roles"] and
            (s["st"]["perms"]["ta"]["r"] != s["st"]["perms"]["tb"]["r"]) for s in b["steps"])][:n_mem]
    states = [s["st"] for b in sel + tsel + msel for s in b["steps"]] + [auth.blank_state(sid) for sid in auth.SUBJECT_IDS]
    tables, static, rp = auth.probe_tables(states, work)
    core.log(f"[C13] generated {len(behs)}+{len(tbehs)} histories, selected {len(sel)}+{len(tsel)}+{len(msel)} "
             f"({cov}/{allf} feature classes), {len(tables)} probe tables in {time.time()-t0:.0f}s")

    lives = []
    for i, b in enumerate(sel):
        lives.append(build_life(f"n{i}", b, tables, static, rnd, quick=q))
    for i, b in enumerate(tsel):
        lives.append(build_life(f"t{i}", b, tables, static, rnd, quick=q, tick=True))
    for i, b in enumerate(msel):
        lives.append(build_life(f"m{i}", b, tables, static, rnd, quick=q, memseed=True))

    t0 = time.time()
    with ThreadPoolExecutor(max_workers=6) as ex:
        results = list(ex.map(lambda lf: auth.run_life(bindir, lf, work), lives))
    core.log(f"[C13] {len(lives)} server lifetimes, {sum(len(l.steps) for l in lives)} steps in {time.time()-t0:.0f}s")

    # ---- judge Stage R, write the trace for Stage T
    J = Judge(chk, tables, static)
    trace_path = work / "trace.ndjson"
    index = []           # trace line number (1-based) -> (life, meta, obs)
    with open(trace_path, "w") as tf:
        def put(rec, ref):
            tf.write(json.dumps(rec) + "\n")
            index.append(ref)
        for life, (obs, opened) in zip(lives, results):
            put({"k": "life", "sid": life.sid}, None)
            if set(opened.get("users", {})) != {auth.ADMIN}:
                raise core.ToolError(f"{life.name}: server did not start with exactly the bootstrap admin: {opened}")
            pending_act = None
            for st, meta, o in zip(life.steps, life.meta, obs):
                kind = meta["kind"]
                if kind in ("admin", "mint"):
                    if (kind == "admin" and o.get("class") != "Executed") or (kind == "mint" and not o.get("ok")):
                        raise core.ToolError(f"{life.name}: set-up step failed: {st} -> {o}")
                elif kind == "act":
                    pending_act = (meta, o)
                    if meta["act"]["a"] == "auth" and not o.get("ok"):
                        J.stats["auth_action_refused"] += 1
                    J.stats["actions"] += 1
                elif kind == "snapshot":
                    snap = auth.abstract_snapshot(o["users"], life.subject)
                    model = auth.model_snapshot(meta["model"])
                    if (meta["act"]["a"] == "create" and life.sid in RESERVED_IDS and not snap["ex"]
                            and pending_act and pending_act[1].get("class") != "Executed"):
                        # the server refuses to create a reserved id: then it is not an id "the system lets an
                        # admin create" and the rest of this history says nothing (everything before it was judged)
                        J.stats["reserved_id_not_creatable"] += 1
                        break
                    J.stats["state_compared"] += 1
                    if snap != model:
                        chk.violation(f"user table after {meta['act']} differs from the model: server {snap}, model {model} "
                                      f"(answer to the action: {pending_act[1] if pending_act else None})",
                                      {"life": life.name, "sid": life.sid, "steps": life.steps[: life.steps.index(st) + 1],
                                       "server": snap, "model": model})
                    a = dict(meta["act"])
                    a.update({"k": "act", "snap": snap})
                    put(a, (life, meta, o))
                elif kind == "req":
                    row = meta["row"]
                    J.stats["requests"] += 1
                    if o["outcome"] in INCONCLUSIVE or o.get("pre_ok") is False:
                        J.stats["inconclusive"] += 1
                        continue
                    pair = (life.state_keys[meta["ck"]] if row["who"] == "subj" else "static", row["fe"], row["form"], row["cred"], row["who"],
                            row["c"], row["k"], row["t"], row["t2"])
                    J.pairs.add(pair)
                    if row["cred"] == "valid":
                        J.nontrivial.add(pair)
                    if o.get("undo_ok") is False:
                        J.stats["undo_failed"] += 1
                    if meta["origin"] != "extra":
                        J.stage_r(life, meta, o)
                    put({"k": "req", "id": meta["rid"], "fe": row["fe"], "form": row["form"], "cred": row["cred"], "who": row["who"],
                         "c": row["c"], "cmd": {"k": row["k"], "t": row["t"], "t2": row["t2"]}, "cls": o["class"],
                         "seen": sorted(o["seen"]), "eff": auth.effect_of(o)}, (life, meta, o))
    if J.stats["inconclusive"] > 0.05 * max(1, J.stats["requests"]):
        raise core.ToolError(f"too many inconclusive requests: {J.stats['inconclusive']} of {J.stats['requests']}")

    # ---- Stage T
    t0 = time.time()
    rt = core.tlc("AuthTrace", "AuthTrace.cfg", workers=1, env={"TRACE": str(trace_path)}, timeout=1500, mem="6g")
    core.tlc_ok(rt, "AuthTrace (Stage T)")
    if rt.distinct < len(index):
        raise core.ToolError(f"AuthTrace consumed {rt.distinct} of {len(index)} trace records")
    for v in rt.printed("STATE"):
        life, meta, o = index[v["i"] - 1]
        chk.violation(f"trace record {v['i']}: management action {meta['act']} not enabled in the model or user table differs: {v}",
                      {"life": life.name, "sid": life.sid, "steps": life.steps, "verdict": v})
    for v in rt.printed("JUDGE"):
        life, meta, o = index[v["i"] - 1]
        J.stats["t_verdicts"] += 1
        if not v["wf"]:
            raise core.ToolError(f"trace record {v['i']} is not a well-formed request: {meta['row']}")
        if v["exec"]:
            J.hard(life, meta, o, v["exp"], sorted(v["see"]), "executed without authentication / permission", "T")
        elif v["eff"]:
            J.hard(life, meta, o, v["exp"], sorted(v["see"]), "side effect of a request that was answered with a denial", "T")
        elif v["leak"]:
            J.hard(life, meta, o, v["exp"], sorted(v["see"]), "data of a type the principal may not read", "T")
        else:
            J.stats["t_soft"] += 1
            if meta["origin"] == "extra" and not (o["class"] == "NoResponse" and v["exp"] == "Unauthenticated"):
                row = meta["row"]
                J.soft[f"{row['k']}|{row['fe']}/{row['form']}|exp={v['exp']}|got={o['class']}"] += 1
    core.log(f"[C13] stage T: {rt.distinct} trace states judged in {time.time()-t0:.0f}s")

    executed_ok = sum(1 for (life, (obs, _)) in zip(lives, results) for m, o in zip(life.meta, obs)
                      if m["kind"] == "req" and o["class"] == "Executed")
    if executed_ok < 50:
        raise core.ToolError(f"only {executed_ok} requests were executed at all: the harness is not exercising the server")

    chk.cov["states"] = rm.distinct
    chk.cov["transitions"] = rm.generated
    chk.cov["stage_m"] = {"cfg": "Auth_m_q.cfg" if q else "Auth_m.cfg", "states": rm.distinct, "transitions": rm.generated,
                          "invariants": ["TypeOK", "ExpectedTotal", "RefinesPropertyText", "OnlyValidCredentials", "LeastPrivilege"],
                          "action_properties": ["RevocationMonotone", "KeyRevocationEffective", "ExpiryEffective", "PermRevocationEffective", "RestartChangesNothing"],
                          "distinct_states_per_action": acov}
    chk.cov["histories_generated"] = len(behs) + len(tbehs)
    chk.cov["histories_replayed"] = len(lives)
    chk.cov["history_feature_classes"] = {"covered": cov, "of": allf}
    chk.cov["probe_tables"] = len(tables)
    chk.cov["probe_table_states_tlc"] = rp.distinct
    chk.cov["traces_validated_against_impl"] = len(lives)
    chk.cov["trace_records_judged_by_tlc"] = rt.distinct
    chk.cov["evaluations"] = J.stats["requests"]
    chk.cov["distinct_nontrivial"] = len(J.nontrivial)
    chk.cov["distinct_state_request_pairs"] = len(J.pairs)
    chk.cov["rule"] = ("one evaluation = one request sent to the real front ends in a TLC-generated set-up state and judged against "
                       "Auth!Expected / Auth!MaySee (Stage R table row or Stage T verdict); distinct = distinct (model state, front end, "
                       "form, credential class, principal, command kind, types); non-trivial = the request carries an intact credential "
                       "(so the outcome depends on the user's state, roles and permissions, not on the gate alone)")
    chk.cov["stats"] = dict(J.stats)
    chk.cov["requests_executed"] = executed_ok
    chk.cov["stricter_or_other_than_documented"] = dict(J.soft.most_common(40))
    fes = Counter(m["row"]["fe"] + "/" + m["row"]["form"] for l in lives for m in l.meta if m and m["kind"] == "req")
    chk.cov["requests_by_front_end_and_form"] = dict(fes)
    for life in lives[:2]:
        acts = [m["act"] for m in life.meta if m and m["kind"] == "act"]
        reqs = [{"row": m["row"], "wire": {k: v for k, v in s.items() if k in ("fe", "form", "user", "cmd", "tweak", "conn", "token")}}
                for s, m in zip(life.steps, life.meta) if m and m["kind"] == "req"][:3]
        chk.sample({"subject": life.subject, "history": acts, "some_requests": reqs})
    chk.assumptions += [
        "the four front ends run in-process on loopback with bypass_auth = false; HTTP requests always carry the server bearer token",
        "oracle = docs/src/commands/user_management.md (formats, role table, access-control priority) + the property text; REMEMBER is "
        "taken to need read on the remembered type, FLUSH / PING authentication only",
        "data seen = seed values of a type (marker string, TOTAL(k)) occurring in the raw answer; side effects read in-process "
        "(user table, schema registry, materialisation directory, admin QUERY)",
        "one subject user per history next to the bootstrap admin, a fixed second user and a never-created id; two event types",
        "token expiry exercised with session_token_expiry_seconds = 3 and real sleeps (4.15 s); a token that expired early only makes "
        "the server stricter, which is not judged",
        "a WebSocket answer that arrives more than 250 ms after a later sentinel was answered is missed",
    ]
    return chk.finish()


def replay(path):
    d = json.load(open(path))
    rp = d["replay"]
    bindir = core.build_harness(("vauth",))
    life = auth.Life(rp["life"] + "-replay", rp["sid"], tick=rp.get("tick", False), memseed=rp.get("memseed", False))
    life.steps = rp["steps"]
    life.meta = [None] * len(life.steps)
    work = core.WORK / "c13" / "replay"
    work.mkdir(parents=True, exist_ok=True)
    obs, _ = auth.run_life(bindir, life, work, keep=True)
    for st, o in zip(life.steps, obs):
        if st["op"] == "req":
            print(json.dumps({"request": {k: st.get(k) for k in ("fe", "form", "user", "cmd", "tweak", "conn", "token")},
                              "server": {k: o.get(k) for k in ("class", "status", "first", "seen", "effect", "outcome")}}))
        elif st["op"] in ("admin", "auth"):
            print(json.dumps({"action": st.get("cmd", st.get("op")), "answer": o.get("first", o.get("answer"))}))
    print(json.dumps({"expected": rp.get("expected"), "request": rp.get("request")}))
    return 0
