"""C08 - pruning structures never rule out a zone that holds a matching row.

Stage M/R: TLC (spec/ZoneGen.tla over spec/Query.tla) enumerates zone populations - which abstract
           values sit in which zone of a segment - and for every probe (operator x literal, literals
           inside, between and outside the data) the zones that MUST be candidates (ZoneMust) with
           the rows that make them so.  Every population becomes one event type of a real segment
           (rows placed into zones through sorted context ids, zone size = rows per zone), per field
           kind so that every structure is exercised: SuRF range filter (ordered kinds, < <= > >=),
           zone XOR / field XOR (=), enum bitmaps (= !=), temporal calendar + per-zone index
           (datetime payload field, core timestamp via SINCE), context index (FOR).  A single-leaf
           query cannot return a row of a zone that was pruned (rows are only re-checked inside
           candidate zones), so a missing row k is exactly a false negative for zone(k).
           Populations: all 3-zone populations over 2-3 values (exhaustive), 12-zone populations
           with >90 % hit rates (the filter fall-back path), flushed (L0) and compacted (L1).
Stage T:   random 30-60 zone segments with random probes are recorded (zone contents, probe,
           rows returned) and re-judged by TLC (ZoneTrace): must-zones all represented."""
import json
import random
import shutil
from collections import Counter

from vlib import core, query
from checks import c02

PROP = "C08"

# kind -> (ops probed, finding ids that explain a miss for (op, v))
KINDS = {
    "int": ["=", "!=", "<", "<=", ">", ">="],
    "int2": ["=", "!=", "<", "<=", ">", ">="],
    "u64s": ["=", "!=", "<", "<=", ">", ">="],
    "string": ["=", "!="],
    "string2": ["=", "!="],
    "enum": ["=", "!="],
    "datetime": ["=", "!=", "<", "<=", ">", ">="],
    "floati": ["=", "<", ">="],          # probe plan for the open float-literal finding
}


def explain(kind, op, v):
    if kind in ("float", "floati"):
        return ["C02-float-literal-ignored"]
    if kind == "enum" and op == "!=" and v == 4:
        return ["C02-enum-neq-undeclared-on-disk"]
    return []


def gen_pops(cfgname, seed):
    r = core.tlc("ZoneGen", cfgname, workers=4, extra=["-seed", str(seed)], timeout=600)
    if r.error or r.violated:
        core.log(r.out[-2000:])
        raise core.ToolError(f"ZoneGen failed: {r.error or r.violated}")
    return r.printed("POP"), r


def ctx_of(z, j):
    return f"z{z:02d}{j}"


def build_and_query(bindir, root, kind, pops, rows_per_zone, ops, compact, extra_queries=()):
    """One engine lifetime: every population is an event type p<i>; returns {(i, op, v): ks}."""
    if root.exists():
        shutil.rmtree(root)
    root.mkdir(parents=True)
    cfg = {"root": str(root / "db"), "fill_factor": 100000, "event_per_zone": rows_per_zone, "shards": 1, "k": 2}
    steps = []
    for i, p in enumerate(pops):
        et = f"p{i}"
        steps.append({"op": "cmd", "text": f'DEFINE {et} FIELDS {{ k: "int", v: {query.SCHEMA_TYPE[kind]} }}', "tag": ["define"]})
    flushes = 2 if compact else 1
    for part in range(flushes):
        for i, p in enumerate(pops):
            et = f"p{i}"
            nz = len(p["pop"])
            zs = range(1, nz + 1)
            if compact:
                zs = [z for z in zs if (z <= nz // 2) == (part == 0)]
            for z in zs:
                for j in range(1, rows_per_zone + 1):
                    val = p["pop"][z - 1][j - 1]
                    k = (z - 1) * rows_per_zone + j
                    payload = {"k": k, "v": query.json_val(kind, val)}
                    steps.append({"op": "cmd", "text": f"STORE {et} FOR {ctx_of(z, j)} PAYLOAD {json.dumps(payload, ensure_ascii=False)}", "tag": ["store", k]})
        steps.append({"op": "cmd", "text": "FLUSH", "tag": ["flush"]})
    if compact:
        steps.append({"op": "compact", "shard": None, "tag": ["compact"]})
    qs = []
    keys = []
    for i, p in enumerate(pops):
        for c in p["cases"]:
            if c["op"] not in ops or query.EMBED[kind][c["v"]] is None:
                continue
            keys.append((i, c["op"], c["v"]))
            qs.append((len(qs), f'QUERY p{i} RETURN [k] WHERE v {c["op"]} {query.lit(kind, c["v"])}'))
    for (i, z, j) in extra_queries:
        keys.append((i, "FOR", (z, j)))
        qs.append((len(qs), f"QUERY p{i} FOR {ctx_of(z, j)} RETURN [k]"))
    results, problems = c02.run_layout(bindir, root, cfg, [steps], qs)
    out = {}
    for (qid, text), key in zip(qs, keys):
        ks, why = c02.decode_ks(results.get(qid))
        out[key] = (ks, why, text)
    shutil.rmtree(root, ignore_errors=True)
    return out, problems


def judge(chk, stats, kind, pops, rows_per_zone, results, layout):
    for i, p in enumerate(pops):
        for c in p["cases"]:
            key = (i, c["op"], c["v"])
            if key not in results:
                continue
            ks, why, text = results[key]
            stats["probes"] += 1
            stats["must_zones"] += len(c["must"])
            rep = {"kind": kind, "layout": layout, "population": p["pop"], "probe": {"op": c["op"], "v": c["v"]}, "text": text,
                   "rows_per_zone": rows_per_zone, "must_zones": c["must"], "expected_rows": c["ks"]}
            if ks is None:
                ids = explain(kind, c["op"], c["v"])
                chk.classify(ids, f"{text} ({layout}): {why}", rep) if ids else chk.violation(f"{text} ({layout}): {why}", rep)
                continue
            missing = sorted(set(c["ks"]) - set(ks))
            if missing:
                zones = sorted({(k - 1) // rows_per_zone + 1 for k in missing})
                desc = (f"{text} ({layout}, {kind}): rows {missing} of zones {zones} are missing - those zones hold a matching row "
                        f"(zone contents {[p['pop'][z - 1] for z in zones]}) and were not candidates")
                ids = explain(kind, c["op"], c["v"])
                if ids:
                    if chk.classify(ids, desc, rep) == "known":
                        stats["known"] += 1
                else:
                    chk.violation(desc, rep)
            elif c["must"] and len(c["must"]) < len(p["pop"]):
                stats["selective_ok"] += 1
    return


def stage_t(chk, bindir, rnd, stats, tier):
    """random many-zone segments, recorded and re-judged by TLC (ZoneTrace)"""
    trace = core.WORK / "c08" / "trace.ndjson"
    trace.parent.mkdir(parents=True, exist_ok=True)
    recs = []
    rid = 0
    runs = [("int", 40, 2), ("u64s", 30, 3)] if tier == "quick" else [("int", 60, 2), ("u64s", 40, 3), ("int2", 50, 1), ("datetime", 40, 2), ("enum", 30, 2), ("string2", 30, 2)]
    for (kind, nz, rpz) in runs:
        ops = KINDS[kind]
        vals = [0, 1, 2, 3] if kind != "enum" else [0, 1, 2, 3]
        # skewed population so that some probes hit > 90 % of the zones
        pop = [[rnd.choice(vals if rnd.random() < 0.2 else [1, 2]) for _ in range(rpz)] for _ in range(nz)]
        cases = [{"op": op, "v": v, "must": [], "ks": []} for op in ops for v in range(5) if query.EMBED[kind][v] is not None]
        p = {"pop": pop, "cases": cases}
        results, problems = build_and_query(bindir, core.WORK / "c08" / f"T-{kind}", kind, [p], rpz, ops, compact=False)
        if problems:
            chk.violation(f"stage T: could not build {kind} segment: {problems[:2]}", {"kind": kind})
            continue
        for c in cases:
            ks, why, text = results[(0, c["op"], c["v"])]
            if explain(kind, c["op"], c["v"]):
                continue
            if ks is None:
                chk.violation(f"stage T: {text}: {why}", {"text": text})
                continue
            recs.append({"id": rid, "rpz": rpz, "pop": pop, "op": c["op"], "v": c["v"], "got": ks, "text": text})
            rid += 1
    with open(trace, "w") as f:
        for r in recs:
            f.write(json.dumps(r) + "\n")
    r = core.tlc("ZoneTrace", "ZoneTrace.cfg", workers=1, env={"TRACE": str(trace)}, timeout=900, xss=True, mem="4g")
    if r.error or r.rc != 0:
        core.log(r.out[-3000:])
        raise core.ToolError(f"ZoneTrace failed: {r.error} rc={r.rc}")
    bad = judged = None
    bad = r.printed_last("BAD")
    judged = r.printed_int("JUDGED")
    if bad is None or judged is None:
        raise core.ToolError("ZoneTrace produced no verdict")
    stats["trace_records_judged_by_tlc"] = judged
    by_id = {r["id"]: r for r in recs}
    for b in bad:
        rr = by_id.get(b, {})
        chk.violation(f"stage T (TLC ZoneTrace): {rr.get('text')} over {len(rr.get('pop', []))} zones misses a zone that must be a candidate",
                      {"record": rr, "trace": str(trace)})
    chk.cov["trace_validation"] = {"records": judged, "rejected": len(bad)}


def stage_x(chk, bindir, stats, tier):
    """Literals of another kind than the column that the row-level evaluator accepts (a number written as a string for
    an int field, a bare number for a string field holding that text): whatever rows the evaluator matches in memory
    must also be returned from flushed and compacted zones - an equality index keyed by the literal's spelling or kind
    would rule their zones out.  (Which cross-kind literals the evaluator coerces is its own business: the reference is the
    answer over the same rows held in memory, where no pruning structure is involved.)"""
    import shutil as _sh
    from vlib import query as _q
    rows = [(1, 5, "42"), (2, -8, "zeta"), (3, 10, "7"), (4, 5, "alpha"), (5, 0, "0"), (6, 123456789012, "42"), (7, -8, "-8"), (8, 77, "x y")]
    probes = [('n = "5"', {1, 4}), ('n = "-8"', {2, 7}), ('n = "10"', {3}), ('n = "0"', {5}), ('n = "123456789012"', {6}),
              ("name = 42", {1, 6}), ("name = 7", {3}), ("name = 0", {5}), ("name = -8", {7}), ('n = "99"', set()), ("name = 99", set())]
    in_memory = {}
    for layout in ("mem", "l0", "l1"):
        root = core.WORK / "c08" / f"x-{layout}"
        if root.exists():
            _sh.rmtree(root)
        root.mkdir(parents=True)
        cfg = {"root": str(root / "db"), "fill_factor": 1000, "event_per_zone": 2, "shards": 1, "k": 2}
        steps = [{"op": "cmd", "text": 'DEFINE ev FIELDS { k: "int", n: "int", name: "string" }', "tag": ["define"]}]
        for i, (k, n, name) in enumerate(rows):
            steps.append({"op": "cmd", "text": f'STORE ev FOR c{k % 3} PAYLOAD {json.dumps({"k": k, "n": n, "name": name})}', "tag": ["store", k]})
            if layout != "mem" and i in (3, 7):
                steps.append({"op": "cmd", "text": "FLUSH", "tag": ["flush"]})
        if layout == "l1":
            steps.append({"op": "compact", "shard": 0, "tag": ["compact"]})
        for pi, (w, _exp) in enumerate(probes):
            steps.append({"op": "cmd", "text": f"QUERY ev RETURN [k] WHERE {w}", "tag": ["x", pi]})
        rc, obs, err = core.run_vdrive(bindir, {"config": cfg, "out": str(root / "o.ndjson"), "steps": steps}, timeout=120)
        if rc != 0:
            chk.violation(f"cross-kind literal stage [{layout}]: engine ended with {rc}: {err[-200:]}", {"layout": layout})
            continue
        for o in obs:
            t = o.get("tag")
            if not (isinstance(t, list) and t[0] == "x"):
                continue
            w, exp = probes[t[1]]
            stats["cross_kind_probes"] += 1
            if o.get("outcome") != "response" or o.get("status") != 200:
                chk.violation(f"QUERY ev WHERE {w} [{layout}]: {(o.get('outcome'), o.get('status'), o.get('message'))}", {"layout": layout, "where": w})
                continue
            cols = o.get("columns", [])
            got = {r[cols.index("k")] for r in (o.get("rows") or [])} if "k" in cols else set()
            if layout == "mem":
                in_memory[t[1]] = got
                if got == exp and exp:
                    stats["cross_kind_coerced_in_memory"] += 1
                continue
            ref = in_memory.get(t[1])
            if ref is None:
                continue
            if got != ref:
                chk.violation(f"QUERY ev RETURN [k] WHERE {w} [{layout}]: returned {sorted(got)}, the same rows held in memory give {sorted(ref)}"
                              " - a pruning structure ruled out a zone holding a row the evaluator matches", {"layout": layout, "where": w, "rows": rows})
            elif ref:
                stats["cross_kind_ok"] += 1
        _sh.rmtree(root, ignore_errors=True)


def run(tier):
    chk = core.Check(PROP, "model_checking", tier)
    bindir = core.build_harness(("vdrive",))
    rnd = random.Random(core.seed())
    stats = Counter()
    q = tier == "quick"
    pops_small, r1 = gen_pops("ZoneGen_q.cfg" if q else "ZoneGen_t.cfg", core.seed())
    pops_big, r2 = gen_pops("ZoneGen_big.cfg", core.seed())
    states = r1.distinct + r2.distinct
    trans = r1.generated + r2.generated
    kinds = ["int", "string", "enum", "datetime", "u64s", "floati"] if q else list(KINDS)
    for kind in kinds:
        ops = KINDS[kind]
        for compact in ((False, True) if (not q or kind in ("int", "enum")) else (False,)):
            layout = "L1" if compact else "L0"
            sample = pops_small if (not q or kind in ("int", "enum", "string")) else rnd.sample(pops_small, min(24, len(pops_small)))
            extra = [(i, z, j) for i in range(min(4, len(sample))) for z in (1, 2, 3) for j in (1, 2)]
            res, problems = build_and_query(bindir, core.WORK / "c08" / f"{kind}-{layout}", kind, sample, 2, ops, compact, extra)
            if problems:
                chk.violation(f"could not build populations for {kind}/{layout}: {problems[:2]}", {"kind": kind, "problems": problems[:3]})
                continue
            judge(chk, stats, kind, sample, 2, res, layout)
            # context index: FOR the row's own context must return the row
            for (i, z, j) in extra:
                ks, why, text = res[(i, "FOR", (z, j))]
                stats["ctx_probes"] += 1
                k = (z - 1) * 2 + j
                if ks is None or k not in ks:
                    chk.violation(f"{text} ({layout}): row {k} not returned ({why or ks}) - the context index ruled out its zone",
                                  {"kind": kind, "layout": layout, "text": text, "population": sample[i]["pop"]})
        if kind in ("int", "u64s", "datetime", "enum") or not q:
            res, problems = build_and_query(bindir, core.WORK / "c08" / f"{kind}-big", kind, pops_big[: (6 if q else 12)], 2, ops, False)
            if problems:
                chk.violation(f"could not build 12-zone populations for {kind}: {problems[:2]}", {"kind": kind})
            else:
                judge(chk, stats, kind, pops_big[: (6 if q else 12)], 2, res, "L0-12zones")
    stage_t(chk, bindir, rnd, stats, tier)
    stage_x(chk, bindir, stats, tier)
    chk.sample({"population": pops_small[len(pops_small) // 2]["pop"], "one_case": pops_small[len(pops_small) // 2]["cases"][0]})
    chk.cov["states"] = states
    chk.cov["transitions"] = trans
    chk.cov["traces_validated_against_impl"] = stats["probes"]
    chk.cov["evaluations"] = stats["probes"] + stats["ctx_probes"]
    chk.cov["distinct_nontrivial"] = stats["selective_ok"]
    chk.cov["rule"] = ("one evaluation = one probe (op, literal) against one zone population of one field kind in one layout; "
                       "non-trivial = some but not all zones must be candidates and no row of a must-zone was lost")
    chk.cov["stats"] = dict(stats)
    chk.assumptions += ["soundness of the byte encodings over the whole 64-bit domain is sampled through the embeddings, not enumerated",
                        "false negatives are observed end to end (a pruned zone's rows cannot come back); structure-level attribution is by field kind and operator"]
    return chk.finish()


def replay(path):
    d = json.load(open(path))["replay"]
    print(json.dumps(d)[:2000])
    return 0
