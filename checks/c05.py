"""C05 - compaction changes layout, never content.

Stage M: TLC checks CompactionPreserves (action property) + Durable on the design parameterisation
         of Storage.tla, with crash points inside the compaction round.
Stage R: TLC-generated histories (as-built parameterisation, compaction-heavy: types present in
         different subsets of segments, fan-in 2 and 3, forced leftovers, cascades, crash at
         compact.output_written / compact.index_saved / before reclaim) are replayed on the real
         engine; after every compaction round (and after the restart that follows a crash inside
         one) every QUERY bag, COUNT and REPLAY membership must equal what it was before the round."""
import json
import random
from collections import Counter

from vlib import core, storage

PROP = "C05"
TYPES = ["a", "b"]
CTXS = ["c1", "c2"]


def answers(real):
    """Comparable projection of one observation point."""
    q = {t: sorted(Counter(r[0] for r in rows).items()) if rows is not None else None for t, rows in real["q"].items()}
    cnt = dict(real["count"])
    rep = {tc: sorted(Counter(r[0] for r in rows).items()) if rows is not None else None for tc, rows in real["replay"].items()}
    return {"q": q, "count": cnt, "replay": rep}


def model_answers(m, types, ctxs):
    q, cnt = {}, {}
    rep = {f"{t}|{c}": Counter() for c in ctxs for t in types}
    for t in types:
        rows = m["rows"][t]["seg"] + m["rows"][t]["mem"]
        q[t] = sorted(Counter({k: 1 for (k, _c) in rows}).items())          # selection is de-duplicated by event id
        cnt[t] = len(rows)
        for (k, c) in rows:
            rep[f"{t}|{c}"][k] = 1
    return {"q": q, "count": cnt, "replay": {tc: sorted(rep[tc].items()) for tc in rep}}


def judge(chk, beh, recs, problems, cfgdesc, stats, types=None):
    replay = {"behaviour": beh, "config": cfgdesc}
    prev = None
    for rec in recs:
        i, c, real = rec["i"], rec["cmd"], rec["real"]
        if real is None:
            if any(p["problem"].startswith("crash point not reached") for p in problems):
                stats["drift"] += 1
                return
            chk.violation(f"no observation after command {i} ({c['cmd']}): {problems[:1]}", replay)
            return
        if storage.partial_branch_mismatch(c, real):
            stats["partial_other_branch"] += 1
            return
        if any(p.get("problem") == "compaction failed" for p in problems) and c["cmd"] == "compact":
            chk.violation(f"compaction round {i} reported an error: {[p for p in problems if p.get('problem') == 'compaction failed'][:1]}", replay)
            return
        cur = answers(real)
        if types:
            # one shard's view of a two-shard run: only its own event types
            cur = {"q": {t: v for t, v in cur["q"].items() if t in types}, "count": {t: v for t, v in cur["count"].items() if t in types},
                   "replay": cur["replay"]}
        asb = model_answers(c["obs"], types or TYPES, CTXS)
        # two-shard behaviours: a round of the OTHER shard (cmd "other" of "compact") must leave this shard's answers alone too
        is_round = c["cmd"] == "compact" or (c["cmd"] == "other" and c.get("of") == "compact")
        if is_round and prev is not None:
            stats["rounds"] += 1
            if c.get("crash", c.get("other_crash", "none")) != "none":
                stats["rounds_crashed"] += 1
            if c["cmd"] == "other":
                stats["rounds_of_other_shard"] += 1
            if cur != prev["real"]:
                fired = sorted(c["obs"]["fired"])
                diff = {k: (prev["real"][k], cur[k]) for k in cur if cur[k] != prev["real"][k]}
                desc = (f"answers changed across compaction round at command {i} (crash={c.get('crash', 'none')}): "
                        f"{json.dumps(diff)[:400]}")
                if cur == asb:
                    if chk.classify([f"C01-{f}" for f in fired], desc, replay) == "violation":
                        return
                    stats["known_rounds"] += 1
                elif "output-id-reuse" in fired:
                    if chk.classify(["C01-output-id-reuse"], desc, replay) == "violation":
                        return
                    stats["known_rounds"] += 1
                    return
                else:
                    chk.violation(desc + f"; as-built model predicts {json.dumps(asb)[:300]} fired={fired}", replay)
                    return
            else:
                stats["preserved_rounds"] += 1
        elif cur != asb:
            # not a compaction step: the storage model itself must keep explaining the engine,
            # otherwise the 'before' state of later rounds means nothing
            fired = sorted(c["obs"]["fired"])
            if "output-id-reuse" in fired:
                return
            stats["drift"] += 1
            chk.sample({"drift_at": i, "cmd": c["cmd"], "real": cur, "model": asb})
            return
        prev = {"real": cur}
    stats["complete"] += 1


def has_compaction(beh):
    return any(c["cmd"] == "compact" for c in beh)


def many_segments_before_round(beh, n):
    """some compaction round starts with at least n L0 segments (several full batches of one type)"""
    prev = 0
    for c in beh:
        if c["cmd"] == "compact" and prev >= n:
            return True
        per_type = Counter()
        for (s, t, rows) in c["obs"]["dirrows"]:
            if s < 10000 and rows:
                per_type[t] += 1
        prev = max(per_type.values()) if per_type else 0
    return False


def run(tier):
    chk = core.Check(PROP, "model_checking", tier)
    bindir = core.build_harness(("vdrive",))
    storage.model_stage_m(chk, "Storage_design_c05.cfg" if tier == "quick" else "Storage_design_c05_t.cfg", "C05",
                          must_take=("Store", "ManualFlush", "Compact", "CleanRestart"))
    rnd = random.Random(core.seed())
    q = tier == "quick"
    gen = {"flush_crash": [], "compact_crash": storage.ALL_COMPACT_CRASH, "quiescent_crash": False,
           "clean_restarts": True, "max_compact": 4, "max_flush": 2, "max_crash": 2}
    plans = [
        {"name": "c05-cap2k2", "cap": 2, "k": 2, "gen_len": 10, "n_sim": 500, "n_rep": 30 if q else 400, "gen": gen, "filter": has_compaction},
        {"name": "c05-cap2k3", "cap": 2, "k": 3, "gen_len": 12, "n_sim": 500, "n_rep": 20 if q else 300, "gen": gen, "filter": has_compaction},
    ]
    # capacity 1: every STORE is a segment, so one round sees several full batches of one type
    gen1 = dict(gen, max_flush=0, max_crash=1)
    plans.append({"name": "c05-cap1k2", "cap": 1, "k": 2, "gen_len": 9, "n_sim": 300 if q else 1500, "n_rep": 12 if q else 200, "gen": gen1,
                  "filter": lambda b: has_compaction(b) and many_segments_before_round(b, 4)})
    plans.append({"name": "c05-cap1k3", "cap": 1, "k": 3, "gen_len": 11, "n_sim": 300 if q else 1500, "n_rep": 8 if q else 150, "gen": gen1,
                  "filter": lambda b: has_compaction(b) and many_segments_before_round(b, 6)})
    if not q:
        plans.append({"name": "c05-cap3k4", "cap": 3, "k": 4, "gen_len": 16, "n_sim": 400, "n_rep": 150, "gen": gen, "filter": has_compaction})
    stats = storage.campaign(chk, "C05", plans, TYPES, CTXS, bindir, judge, rnd)
    # two ACTIVE shards (spec/Storage2Gen.tla): rounds of either shard while the other holds data of its own; every round is
    # judged from both shards' views (the compacting shard's answers and the other shard's answers must both stay put)
    sp = storage.campaign2(chk, "C05", [{"name": "c05p-cap2k2", "cap": 2, "k": 2, "gen_len": 11, "n_sim": 500, "n_rep": 6 if q else 120},
                                        # lockstep: the same types, labels and input lists on both shards, a round of A followed by a round of B
                                        {"name": "c05p-lock-cap2k2", "cap": 2, "k": 2, "gen_len": 12, "n_sim": 400, "n_rep": 5 if q else 80, "lock": True}],
                           CTXS, bindir, judge, random.Random(core.seed() + 55), with_replay=True,
                           keep_if=lambda b: sum(1 for c in b if c["cmd"] == "compact") >= 1)
    chk.cov["traces_validated_against_impl"] += sp["behaviours"]
    stats["rounds"] += sp["rounds"]
    chk.cov["evaluations"] = stats["rounds"]
    chk.cov["distinct_nontrivial"] = stats["rounds"]
    chk.cov["rule"] = ("one evaluation = one compaction round of a TLC-generated history replayed on the real engine, "
                       "answers (QUERY bag, COUNT, REPLAY membership per type/context) compared before vs after the round; "
                       "non-trivial = the policy produced at least one plan (Compact is only enabled then)")
    chk.assumptions += ["process crash = abort(); one shard; 2 event types x 2 contexts; fan-in 2..4",
                        "compaction is triggered through CompactionWorker::run with the shard's own live list and flush lock"]
    return chk.finish()


def replay(path):
    d = json.load(open(path))
    beh = d["replay"]["behaviour"]
    cfg = d["replay"]["config"]
    bindir = core.build_harness(("vdrive",))
    recs, problems = storage.run_behaviour(bindir, beh, root=core.WORK / "c05" / "replay", cap=cfg["cap"], k=cfg["k"],
                                           types=TYPES, ctxs=CTXS, keep=True)
    for rec in recs:
        c = rec["cmd"]
        print(json.dumps({"i": rec["i"], "cmd": {x: c[x] for x in c if x != "obs"},
                          "model": model_answers(c["obs"], TYPES, CTXS),
                          "real": None if rec["real"] is None else answers(rec["real"])}))
    print(json.dumps(problems))
    return 0
