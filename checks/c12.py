"""C12 - all events of a context live on one shard; unscoped reads cover all shards.

Stage M: TLC checks RouteStable / ScopedComplete / FanOutComplete / OneShardPerCtx on spec/Routing.tla
         (the router is a function of the context id, unchanged by restarts).
Stage T: for shard counts 1, 2, 3, 5, 8 and context-id classes (plain, differing only in case,
         with leading / trailing / inner spaces, non-ASCII, very long, numeric-looking), histories of
         three process lifetimes (crash restarts between STOREs to the same contexts) are run on the
         real engine; recorded: every acknowledged STORE, the shard of every event as carried in
         its event id and as found in the per-shard WAL directories, the result of QUERY .. FOR c
         for every context in every lifetime, and the unscoped QUERY.  TLC (RoutingTrace) judges:
         a context's shard never changes, scoped reads return all of the context's events,
         unscoped reads return the union of all shards (also when some shards are empty)."""
import json
import random
import shutil
from collections import Counter

from vlib import core

PROP = "C12"
CTXS = ["c1", "C1", "ctx-2", "ctx_2", "0042", "ünïcödé", "x" * 120, " lead", "trail ", "in ner", "c1 "]


def ctx_lit(c):
    return c if c.replace("_", "").replace("-", "").isalnum() and c.isascii() and not c[0].isdigit() else json.dumps(c, ensure_ascii=False)


def run_history(bindir, root, shards, ctxs, rnd, per_life=2, lives=3):
    if root.exists():
        shutil.rmtree(root)
    root.mkdir(parents=True)
    cfg = {"root": str(root / "db"), "fill_factor": 1000, "event_per_zone": 2, "shards": shards, "k": 2}
    recs = []
    k = 0
    stored = []
    usable = list(ctxs)
    for life in range(lives):
        steps = []
        if life == 0:
            steps.append({"op": "cmd", "text": 'DEFINE ev FIELDS { k: "int" }', "tag": ["define"]})
        order = [c for c in usable for _ in range(per_life)]
        rnd.shuffle(order)
        new = []
        for c in order:
            k += 1
            new.append((k, c))
            steps.append({"op": "cmd", "text": f'STORE ev FOR {ctx_lit(c)} PAYLOAD {{"k": {k}}}', "tag": ["store", k]})
        steps.append({"op": "wal_drain"})
        for c in usable:
            steps.append({"op": "cmd", "text": f"QUERY ev FOR {ctx_lit(c)}", "tag": ["for", c]})
        steps.append({"op": "cmd", "text": "QUERY ev", "tag": ["all"]})
        steps.append({"op": "fs", "tag": ["fs"]})
        steps.append({"op": "crash"})
        rc, obs, err = core.run_vdrive(bindir, {"config": cfg, "out": str(root / f"obs{life}.ndjson"), "steps": steps}, timeout=180)
        if rc not in (-6, 134):
            return None, f"lifetime {life} ended with {rc}: {err[-200:]}"
        acked = set()
        refused = set()
        for o in obs:
            t = o.get("tag")
            if o.get("op") == "cmd" and isinstance(t, list) and t[0] == "store":
                if o.get("outcome") == "response" and o.get("status") == 200:
                    acked.add(t[1])
                else:
                    refused.add(t[1])
        for (kk, c) in new:
            if kk in acked:
                recs.append({"e": "store", "k": kk, "ctx": c, "life": life})
                stored.append(kk)
            elif life == 0 and c in usable:
                usable = [u for u in usable if u != c]     # this spelling of a context id is not accepted by the grammar
        for o in obs:
            t = o.get("tag")
            if o.get("op") == "cmd" and isinstance(t, list) and t[0] in ("for", "all"):
                if t[0] == "for" and t[1] not in usable:
                    continue
                if o.get("outcome") != "response" or o.get("status") != 200:
                    return None, f"read failed: {o.get('text')} -> {o.get('outcome')} {o.get('status')} {o.get('message')}"
                cols, rows = o.get("columns", []), o.get("rows", [])
                ks = [r[cols.index("k")] for r in rows] if rows else []
                if t[0] == "for":
                    recs.append({"e": "for", "ctx": t[1], "ks": ks, "life": life})
                else:
                    recs.append({"e": "all", "ks": ks, "life": life})
                    for r in rows:
                        eid = r[cols.index("event_id")]
                        recs.append({"e": "shard", "k": r[cols.index("k")], "shard": (eid >> 12) & 0x3FF, "src": "event_id", "life": life})
            if o.get("op") == "fs":
                for si, sh in enumerate(o["shards"]):
                    for fname, ks in sh["wal"].items():
                        for kk in (ks or []):
                            if isinstance(kk, int):
                                recs.append({"e": "shard", "k": kk, "shard": si, "src": "wal_dir", "life": life})
    shutil.rmtree(root, ignore_errors=True)
    return (recs, usable), None


def run(tier):
    chk = core.Check(PROP, "model_checking", tier)
    bindir = core.build_harness(("vdrive",))
    rnd = random.Random(core.seed())
    stats = Counter()
    r = core.tlc("MCRouting", "Routing.cfg", workers=4, timeout=300, coverage=True)
    core.tlc_ok(r, "Routing")
    all_recs = []
    counts = [1, 2, 3, 5, 8] if tier == "quick" else [1, 2, 3, 4, 5, 7, 8, 16]
    offset = 0
    for shards in counts:
        res, err = run_history(bindir, core.WORK / "c12" / f"s{shards}", shards, CTXS, rnd, per_life=2 if tier == "quick" else 4)
        if err:
            chk.violation(f"history with {shards} shards: {err}", {"shards": shards})
            continue
        recs, usable = res
        stats["histories"] += 1
        stats["contexts_accepted"] += len(usable)
        # keys are made unique across histories so that one TLC run judges them all
        for x in recs:
            x = dict(x)
            if "k" in x:
                x["k"] += offset
            if "ks" in x:
                x["ks"] = [v + offset for v in x["ks"]]
            if "ctx" in x:
                x["ctx"] = f"{shards}:{x['ctx']}"
            x["hist"] = shards
            all_recs.append(x)
        offset += 10000
    # unscoped reads must be judged per history: split the trace per history
    bad_total = Counter()
    judged = 0
    for shards in counts:
        sub = [x for x in all_recs if x["hist"] == shards]
        if not sub:
            continue
        for i, x in enumerate(sub):
            x["id"] = i
        trace = core.WORK / "c12" / f"trace{shards}.ndjson"
        trace.parent.mkdir(parents=True, exist_ok=True)
        with open(trace, "w") as f:
            for x in sub:
                f.write(json.dumps(x, ensure_ascii=False) + "\n")
        t = core.tlc("RoutingTrace", "RoutingTrace.cfg", workers=1, env={"TRACE": str(trace)}, timeout=600, xss=True)
        if t.error or t.rc != 0:
            core.log(t.out[-2000:])
            raise core.ToolError(f"RoutingTrace failed: {t.error} rc={t.rc}")
        verdict = {}
        for tag in ("UNSTABLE", "BADFOR", "BADALL"):
            v = t.printed_last(tag)
            if v is not None:
                verdict[tag] = v
        judged += t.printed_int("JUDGED") or 0
        if set(verdict) != {"UNSTABLE", "BADFOR", "BADALL"}:
            raise core.ToolError("RoutingTrace produced no verdict")
        for tag, ids in verdict.items():
            for i in ids:
                x = sub[i]
                bad_total[tag] += 1
                what = {"UNSTABLE": f"events of context {x.get('ctx', '?')!r} observed on different shards ({x.get('src')}, lifetime {x.get('life')})",
                        "BADFOR": f"QUERY ev FOR {x.get('ctx')!r} in lifetime {x.get('life')} returned {x.get('ks')} - not exactly the context's events",
                        "BADALL": f"unscoped QUERY in lifetime {x.get('life')} returned {len(x.get('ks', []))} rows - not the union of all shards"}[tag]
                chk.violation(f"{shards} shards: {what}", {"shards": shards, "record": x, "trace": str(trace)})
    stats["observations_judged_by_tlc"] = judged
    chk.sample({"contexts": CTXS[:6], "shard_counts": counts, "one_record": all_recs[0] if all_recs else None})
    chk.cov["states"] = r.distinct
    chk.cov["transitions"] = r.generated
    chk.cov["traces_validated_against_impl"] = stats["histories"]
    chk.cov["evaluations"] = judged
    chk.cov["distinct_nontrivial"] = stats["contexts_accepted"]
    chk.cov["rule"] = ("one evaluation = one observation judged by TLC (shard of an event by id / by WAL directory, a scoped read, an unscoped read) "
                       "over 3 process lifetimes; non-trivial count = (context id class x shard count) pairs the grammar accepted")
    chk.cov["stats"] = dict(stats)
    chk.assumptions += ["stability of the hash across Rust toolchain versions cannot be shown by a run on one toolchain",
                        "restarts are crash restarts (WAL replay); events stay in memory + WAL so that shard directories show them"]
    return chk.finish()


def replay(path):
    print(open(path).read()[:3000])
    return 0
