"""C02 - a query returns exactly the matching events, wherever they are stored.

Stage M/R: TLC (spec/QueryGen.tla over spec/Query.tla) enumerates every WHERE tree of depth <= 1
           (all leaves field x op x probe incl. values below/between/above the data, IN, NOT leaf,
           AND/OR of two leaves), random deeper trees, FOR and SINCE variants, over a fixed abstract
           data set, and prints each request with Eval(Data, request).  The harness concretises the
           abstract ordered domain through typed embeddings (int, u64, float, string, enum, bool),
           puts the data into every storage layout (memory, one L0 segment, several L0, compacted,
           mixed, after restart; zone sizes 1..3; 1 and 3 shards) and runs every request in every
           layout on the real engine.  real == expected, for every layout.
Stage T:   larger random data sets and random predicates (depth <= 4) are run on the real engine,
           recorded as NDJSON and re-judged by TLC with the same Eval (spec/QueryTrace.tla)."""
import json
import random
import shutil
from collections import Counter

from vlib import core, query

PROP = "C02"


def signature(case, kinds, layout, got, exp):
    """Finding ids that could explain a discrepancy of this shape (empty = unexplained)."""
    feats = query.expr_features(case["q"]["where"]) if case["q"]["where"]["tag"] != "true" else {"ops": set(), "tags": set(), "fields": set()}
    return feats


def run_layout(bindir, root, cfg, lifetimes, queries):
    """Execute lifetimes (list of step lists); queries (list of (id, text)) are appended to the last."""
    results = {}
    problems = []
    for li, steps in enumerate(lifetimes):
        steps = list(steps)
        if li == len(lifetimes) - 1:
            for qid, text in queries:
                steps.append({"op": "cmd", "text": text, "tag": ["q", qid], "timeout_ms": 20000})
        script = {"config": cfg, "out": str(root / f"obs{li}.ndjson"), "steps": steps}
        rc, obs, err = core.run_vdrive(bindir, script, timeout=900)
        for o in obs:
            tag = o.get("tag")
            if o.get("op") == "cmd" and isinstance(tag, list) and tag and tag[0] in ("store", "define", "flush"):
                if o.get("outcome") != "response" or o.get("status") != 200:
                    problems.append({"problem": "setup command failed", "obs": {k: o.get(k) for k in ("text", "outcome", "status", "message", "detail")}})
            if o.get("op") == "compact" and any(r != "ok" for r in o.get("results", [])):
                problems.append({"problem": "compaction failed", "obs": o})
            if o.get("op") == "cmd" and isinstance(tag, list) and tag and tag[0] == "q":
                results[tag[1]] = o
        if rc != 0:
            problems.append({"problem": f"exit {rc}", "stderr": err[-300:]})
    return results, problems


def decode_ks(o):
    if o is None:
        return None, "no observation"
    if o.get("outcome") != "response":
        return None, f"{o.get('outcome')}: {o.get('detail', '')[:200]}"
    if o.get("status") != 200:
        return None, f"status {o.get('status')} {o.get('message')}"
    cols = o.get("columns", [])
    if not o.get("rows"):
        return [], None
    if "k" not in cols:
        return None, f"no k column in {cols}"
    ik = cols.index("k")
    return [r[ik] for r in o["rows"]], None


def classify(chk, case, kinds, layout, zone, got, exp, why, replay, stats):
    desc = f"{replay['text']} in layout {layout} (zone size {zone}): got {sorted(got) if got is not None else why}, expected {sorted(exp)}"
    ids = FINDINGS.explain(case, kinds, layout, got, exp, why)
    if ids:
        r = chk.classify(ids, desc, replay)
        if r == "known":
            stats["known:" + ids[0]] += 1
        return r
    chk.violation(desc, replay)
    return "violation"


def leaves(x):
    t = x["tag"]
    if t in ("cmp", "in"):
        return [x]
    if t in ("and", "or"):
        return leaves(x["l"]) + leaves(x["r"])
    if t == "not":
        return leaves(x["e"])
    return []


def has_or(x, neg=False):
    """does the zone-level evaluation contain a union?  (OR, or NOT over AND by De Morgan)"""
    t = x["tag"]
    if t == "or":
        return True if not neg else (has_or(x["l"], neg) or has_or(x["r"], neg))
    if t == "and":
        return True if neg else (has_or(x["l"], neg) or has_or(x["r"], neg))
    if t == "not":
        return has_or(x["e"], not neg)
    return False


def has_or_any(x):
    t = x["tag"]
    if t == "or":
        return True
    if t == "and":
        return has_or_any(x["l"]) or has_or_any(x["r"])
    if t == "not":
        return has_or_any(x["e"]) or (x["e"]["tag"] == "and")
    return False


RANGE = ("<", "<=", ">", ">=")


class FindingRules:
    """Narrow signatures of the open findings of this property (see known_findings.jsonl).
    Each rule names the input shape that triggers the defect; a discrepancy is attributed only if
    the request contains that shape (and, where the defect is storage dependent, the layout has
    data on disk). Anything else is a violation."""

    def triggers(self, case, kinds, layout):
        w = case["q"]["where"]
        ls = leaves(w) if w["tag"] != "true" else []
        on_disk = layout != "mem"
        ids = []
        for l in ls:
            kd = kinds[l["f"]]
            if kd in ("string", "string2") and l["tag"] == "cmp" and l["op"] in RANGE:
                ids.append("C02-string-range-unsupported")
            if kd in ("float", "floati"):
                ids.append("C02-float-literal-ignored")
            if kd == "bool" and on_disk:
                ids.append("C02-bool-literal-on-disk")
            if kd == "u64":
                vals = [l["v"]] if l["tag"] == "cmp" else list(l["vs"])
                if any(query.EMBED["u64"][v] >= 2 ** 63 for v in vals):
                    ids.append("C02-u64-literal-beyond-i64")
                if on_disk:
                    ids.append("C02-u64-above-i64max-on-disk")
            if kd == "enum" and on_disk and l["tag"] == "cmp" and l["op"] == "!=" and l["v"] == 4:
                ids.append("C02-enum-neq-undeclared-on-disk")
        if on_disk and w["tag"] != "true" and has_or_any(w):
            ids.append("C02-or-loses-zones-on-disk")
        return sorted(set(ids))

    def explain(self, case, kinds, layout, got, exp, why):
        ids = self.triggers(case, kinds, layout)
        if got is None:
            # an error/panic instead of a result is only explained by the literal-overflow panic
            return ["C02-u64-literal-beyond-i64"] if ("C02-u64-literal-beyond-i64" in ids and "parse_error" in (why or "")) else []
        ids = [i for i in ids if i != "C02-u64-literal-beyond-i64"]
        if "C02-or-loses-zones-on-disk" in ids and not (set(got) < set(exp)):
            ids.remove("C02-or-loses-zones-on-disk")       # that finding only ever loses rows
        return ids


FINDINGS = FindingRules()
import os
MISLOG = open(core.WORK / "c02_mismatches.ndjson", "w") if os.environ.get("VERIF_MISLOG") else None


def plans(tier):
    q = tier == "quick"
    P = [
        # name, kinds, zone size, shards, n events, layouts, n2, n3
        {"name": "is", "kinds": {"x": "int", "y": "string"}, "epz": 2, "shards": 1, "n": 10, "n2": 60 if q else 600, "n3": 40 if q else 400,
         "layouts": ["mem", "l0", "l1", "mixed"] if q else query.LAYOUTS},
        {"name": "ie", "kinds": {"x": "int2", "y": "enum"}, "epz": 3, "shards": 1, "n": 9, "n2": 40 if q else 400, "n3": 30 if q else 300,
         "layouts": ["mem", "l0x3", "restart"] if q else query.LAYOUTS},
        {"name": "us", "kinds": {"x": "u64s", "y": "string2"}, "epz": 1, "shards": 3, "n": 8, "n2": 30 if q else 300, "n3": 20 if q else 200,
         "layouts": ["l0", "l1"] if q else query.LAYOUTS},
        {"name": "many", "kinds": {"x": "int", "y": "string"}, "epz": 1, "shards": 1, "n": 16, "n2": 20 if q else 200, "n3": 10 if q else 100,
         "layouts": ["l0ab"] if q else ["l0ab", "l1"]},
        # an optional typed field absent in some events (never in a whole zone: that breaks the compaction reader, open
        # finding C07-absent-column-breaks-compaction); flushed and compacted: the index files are rebuilt by compaction
        {"name": "opt", "kinds": {"x": "numid_opt", "y": "int"}, "epz": 3, "shards": 1, "n": 12, "n2": 30 if q else 300, "n3": 20 if q else 200,
         "layouts": ["mem", "l0", "l1"], "nulls_at": (2, 8)},
        {"name": "dt", "kinds": {"x": "datetime2", "y": "int"}, "epz": 3, "shards": 1, "n": 10, "n2": 30 if q else 300, "n3": 20 if q else 200,
         "layouts": ["l0", "l1"] if q else query.LAYOUTS},
        # kinds whose leaves mostly hit open findings: kept as small probe plans
        {"name": "fb", "kinds": {"x": "float", "y": "bool"}, "epz": 2, "shards": 1, "n": 8, "n2": 5, "n3": 5,
         "layouts": ["mem", "l0"]},
        {"name": "ub", "kinds": {"x": "u64", "y": "enum"}, "epz": 2, "shards": 1, "n": 8, "n2": 5, "n3": 5,
         "layouts": ["l0"]},
    ]
    if not q:
        P += [
            {"name": "i2s2", "kinds": {"x": "int2", "y": "string2"}, "epz": 3, "shards": 3, "n": 12, "n2": 400, "n3": 300, "layouts": query.LAYOUTS},
            {"name": "fi", "kinds": {"x": "floati", "y": "int"}, "epz": 2, "shards": 1, "n": 10, "n2": 400, "n3": 300, "layouts": query.LAYOUTS},
        ]
    return P


def run(tier):
    chk = core.Check(PROP, "model_checking", tier)
    bindir = core.build_harness(("vdrive",))
    rnd = random.Random(core.seed())
    stats = Counter()
    states = trans = 0
    ctxs = ["c1", "c2", "c3"]
    times = [10, 20, 30]
    for pl in plans(tier):
        kinds = pl["kinds"]
        fields = list(kinds)
        ordf = [f for f in fields if kinds[f] in query.ORDERED]
        vals = (0, 1) if "bool" in kinds.values() else (1, 3)
        data = query.random_data(rnd, pl["n"], fields, ctxs, values=(1, 3), times=times)
        for e in data:
            for f in fields:
                if kinds[f] == "bool":
                    e["f"][f] = rnd.choice((0, 1))
                if kinds[f].endswith("_opt") and e["k"] in pl.get("nulls_at", ()):
                    e["f"][f] = query.NULL
        probes = [0, 1, 2, 3, 4]
        cases, r = query.gen_cases(f"c02_{pl['name']}", data, fields, probes, ctxs[:2], [20, 25], pl["n2"], pl["n3"], ordf, core.seed())
        states += r.distinct
        trans += r.generated
        # literals that do not exist for the kind (bool has two values, enum probes include an undeclared variant)
        def usable(x):
            if x["tag"] == "cmp":
                return query.EMBED[kinds[x["f"]]][x["v"]] is not None
            if x["tag"] == "in":
                return all(query.EMBED[kinds[x["f"]]][v] is not None for v in x["vs"])
            if x["tag"] in ("and", "or"):
                return usable(x["l"]) and usable(x["r"])
            if x["tag"] == "not":
                return usable(x["e"])
            return True
        cases = [c for c in cases if usable(c["q"]["where"])]
        # steer around the open findings: keep only a few probes per trigger class
        kept, probes_per = [], Counter()
        for c in cases:
            trig = tuple(t for t in sorted(set(FINDINGS.triggers(c, kinds, "l0") + FINDINGS.triggers(c, kinds, "mem")))
                         if t != "C02-or-loses-zones-on-disk")
            if not trig:
                kept.append(c)
            elif probes_per[trig] < 6:
                probes_per[trig] += 1
                kept.append(c)
        stats["requests_steered_away"] += len(cases) - len(kept)
        cases = kept
        core.log(f"[C02] plan {pl['name']}: {len(cases)} requests from TLC ({r.distinct} states), layouts {pl['layouts']}")
        per_case_results = {}
        for layout in pl["layouts"]:
            root = core.WORK / "c02" / f"{pl['name']}-{layout}"
            if root.exists():
                shutil.rmtree(root)
            root.mkdir(parents=True)
            cfg = {"root": str(root / "db"), "fill_factor": 1000, "event_per_zone": pl["epz"], "shards": pl["shards"], "k": 2}
            lts = query.layout_steps(layout, data, kinds)
            texts = [(i, query.query_text(c["q"], kinds, time_embed=lambda t: 1_700_000_000 + t)) for i, c in enumerate(cases)]
            results, problems = run_layout(bindir, root, cfg, lts, texts)
            if problems:
                chk.violation(f"could not build layout {layout} for plan {pl['name']}: {problems[:2]}", {"plan": pl["name"], "layout": layout, "problems": problems[:3]})
                continue
            stats["layouts"] += 1
            for i, c in enumerate(cases):
                got, why = decode_ks(results.get(i))
                exp = c["exp"]
                stats["evaluations"] += 1
                rep = {"plan": pl["name"], "layout": layout, "kinds": kinds, "zone": pl["epz"], "shards": pl["shards"],
                       "data": data, "case": c, "text": texts[i][1]}
                ok = got is not None and sorted(got) == sorted(exp)
                per_case_results.setdefault(i, {})[layout] = None if got is None else sorted(got)
                if ok:
                    if exp and len(exp) < len(data):
                        stats["nontrivial_ok"] += 1
                    continue
                stats["mismatch"] += 1
                if MISLOG is not None:
                    MISLOG.write(json.dumps({"plan": pl["name"], "layout": layout, "kinds": kinds, "q": c["q"], "text": texts[i][1],
                                             "got": None if got is None else sorted(got), "why": why, "exp": sorted(exp), "n": len(data)}) + "\n")
                if classify(chk, c, kinds, layout, pl["epz"], got, exp, why, rep, stats) == "violation":
                    stats["violations"] += 1
            shutil.rmtree(root, ignore_errors=True)
        if len(chk.cov["samples"]) < 4 and cases:
            c = cases[len(cases) // 2]
            chk.sample({"plan": pl["name"], "request": c["q"], "expected": c["exp"],
                        "text": query.query_text(c["q"], kinds), "data": data[:3]})
    stage_t(chk, tier, bindir, rnd, stats)
    chk.cov["states"] = states
    chk.cov["transitions"] = trans
    chk.cov["traces_validated_against_impl"] = stats["evaluations"]
    chk.cov["evaluations"] = stats["evaluations"]
    chk.cov["distinct_nontrivial"] = stats["nontrivial_ok"]
    chk.cov["rule"] = ("one evaluation = one TLC-enumerated request executed in one storage layout; non-trivial = expected result "
                       "neither empty nor everything, and the engine agreed")
    chk.cov["stats"] = dict(stats)
    chk.assumptions += ["values inside a kind are class representatives (order-preserving embeddings of a 5-value domain)",
                        "expected results are computed by TLC from spec/Query.tla; Python only prints literals"]
    return chk.finish()


def supported_leaf(kd, op, leaf=None):
    if kd in ("float", "floati", "bool", "u64"):
        return False
    if kd == "enum" and op == "!=" and leaf is not None and leaf.get("v") == 4:
        return False
    if kd in ("string", "string2") and op in RANGE:
        return False
    return True


def stage_t(chk, tier, bindir, rnd, stats):
    """Implementation -> spec: larger random data and predicates, judged by TLC (QueryTrace)."""
    q = tier == "quick"
    runs = [({"x": "int", "y": "string", "z": "enum"}, 60, 2, 3, "mixed"), ({"x": "int2", "y": "u64s", "z": "string2"}, 120, 3, 1, "l1"),
            ({"x": "int", "y": "string2", "z": "enum"}, 80, 2, 3, "mem")]
    if not q:
        runs += [({"x": "int", "y": "string", "z": "enum"}, 300, 3, 3, lay) for lay in ("l0x3", "restart", "mem")]
    trace = core.WORK / "c02" / "trace.ndjson"
    trace.parent.mkdir(parents=True, exist_ok=True)
    recs = []
    texts_by_id = {}
    qid = 0
    for (kinds, n, epz, shards, layout) in runs:
        ctxs = [f"c{i}" for i in range(1, 6)]
        data = query.random_data(rnd, n, list(kinds), ctxs, values=(0, 1, 2, 3) if "enum" not in kinds.values() else (0, 1, 2, 3), times=(10, 20, 30, 40))
        recs.append({"data": data})
        reqs = []
        for _ in range(150 if q else 600):
            w = query.random_expr(rnd, kinds, rnd.choice((1, 2, 3, 4)), allow=supported_leaf)
            ctx = rnd.choice(["*", "*", "*"] + ctxs[:2])
            since = rnd.choice([-1, -1, -1, 20, 30])
            reqs.append({"ctx": ctx, "since": since, "where": w})
        root = core.WORK / "c02" / f"T-{layout}-{n}"
        if root.exists():
            shutil.rmtree(root)
        root.mkdir(parents=True)
        cfg = {"root": str(root / "db"), "fill_factor": 1000, "event_per_zone": epz, "shards": shards, "k": 2}
        lts = query.layout_steps(layout, data, kinds)
        texts = [(qid + i, query.query_text(r, kinds, time_embed=lambda t: 1_700_000_000 + t)) for i, r in enumerate(reqs)]
        results, problems = run_layout(bindir, root, cfg, lts, texts)
        if problems:
            chk.violation(f"stage T: could not build layout {layout}: {problems[:2]}", {"layout": layout, "problems": problems[:3]})
            continue
        for i, r in enumerate(reqs):
            got, why = decode_ks(results.get(qid + i))
            texts_by_id[qid + i] = (texts[i][1], layout, kinds)
            if got is None:
                chk.violation(f"stage T: {texts[i][1]} in layout {layout}: {why}", {"text": texts[i][1], "layout": layout})
                continue
            recs.append({"id": qid + i, "q": r, "got": got})
        qid += len(reqs)
        shutil.rmtree(root, ignore_errors=True)
    with open(trace, "w") as f:
        for r in recs:
            f.write(json.dumps(r) + "\n")
    r = core.tlc("QueryTrace", "QueryTrace.cfg", workers=1, env={"TRACE": str(trace)}, timeout=900, xss=True, mem="4g")
    if r.error or r.rc != 0:
        core.log(r.out[-3000:])
        raise core.ToolError(f"QueryTrace failed: {r.error} rc={r.rc}")
    judged = r.printed("JUDGED") if False else None
    bad = None
    bad = r.printed_last("BAD")
    judged = r.printed_int("JUDGED")
    if bad is None or judged is None:
        core.log(r.out[-2000:])
        raise core.ToolError("QueryTrace produced no verdict")
    stats["trace_records_judged_by_tlc"] = judged
    for b in bad:
        text, layout, kinds = texts_by_id.get(b, ("?", "?", {}))
        chk.violation(f"stage T (TLC QueryTrace): observed result of {text} in layout {layout} differs from Eval", {"id": b, "text": text, "layout": layout, "trace": str(trace)})
    chk.cov["trace_validation"] = {"records": judged, "rejected": len(bad)}


def replay(path):
    d = json.load(open(path))["replay"]
    bindir = core.build_harness(("vdrive",))
    root = core.WORK / "c02" / "replay"
    if root.exists():
        shutil.rmtree(root)
    root.mkdir(parents=True)
    cfg = {"root": str(root / "db"), "fill_factor": 1000, "event_per_zone": d["zone"], "shards": d["shards"], "k": 2}
    lts = query.layout_steps(d["layout"], d["data"], d["kinds"])
    results, problems = run_layout(bindir, root, cfg, lts, [(0, d["text"])])
    print(json.dumps({"text": d["text"], "got": decode_ks(results.get(0)), "expected": d["case"]["exp"], "problems": problems}))
    return 0
