"""C11 - published segments are immutable and appear or disappear as a whole.

Stage M: TLC checks PublishedImmutable (action property), IndexedComplete and FreshL0 on the design
         parameterisation of Storage.tla, crash points of flush and compaction included.
Stage R: TLC-generated histories (as-built parameterisation, all crash points) are replayed; after
         every command and first thing after every restart the harness records, for every segment
         directory, the file list with a content hash per file, the decoded segments.idx with its
         inode, and the in-memory live list.  Monitored on the recorded sequence:
           write-once  - a directory present at two consecutive observations has identical files;
           complete    - every segment named by the live list or the index exists and holds, for
                         every indexed uid, the full file set of that uid (.zones, .icx catalog and
                         every file the catalog promises; core columns);
           index       - segments.idx is decodable at every observation and never names a
                         missing directory (write-temp + rename itself is not observable from
                         outside: inode numbers are recycled);
           conformance - live list / directory / index profiles equal the as-built model's."""
import json
import random
from collections import Counter

from vlib import core, storage

PROP = "C11"
TYPES = ["a", "b"]
CTXS = ["c1", "c2"]
CORE_SUFFIXES = [".zones", ".icx", "_context_id.col", "_event_id.col", "_k.col", "_timestamp.col", "_event_type.col"]


def profile_real(fs):
    segs = fs["data"]["segs"]
    return {
        "dirs": sorted([a, b] for a, b in Counter(int(s) // 10000 for s in segs).items()),
        "live": sorted([a, b] for a, b in Counter(int(s) // 10000 for s in fs["live"]).items()),
        "idx": sorted([int(e[0]) // 10000, len(e[1])] for e in (fs["data"]["idx"] or [])) if not isinstance(fs["data"]["idx"], dict) else fs["data"]["idx"],
    }


def profile_model(m):
    return {
        "dirs": sorted([a, b] for a, b in Counter(s // 10000 for s in m["segs"]).items()),
        "live": sorted([a, b] for a, b in Counter(s // 10000 for s in m["live"]).items()),
        "idx": sorted([e[0] // 10000, len(e[1])] for e in m["idx"]),
    }


def judge(chk, beh, recs, problems, cfgdesc, stats, types=None):
    replay = {"behaviour": beh, "config": cfgdesc}
    prev = None
    for rec in recs:
        i, c, real = rec["i"], rec["cmd"], rec["real"]
        if real is None or real.get("fs") is None:
            if any(p["problem"].startswith("crash point not reached") for p in problems):
                stats["drift"] += 1
                return
            chk.violation(f"no file-system observation after command {i} ({c['cmd']}): {problems[:1]}", replay)
            return
        if storage.partial_branch_mismatch(c, real):
            stats["partial_other_branch"] += 1
            return
        fs = real["fs"]
        m = c["obs"]
        fired = sorted(m["fired"])
        segs = fs["data"]["segs"]
        idx = fs["data"]["idx"]
        uids = real.get("uids", {})
        stats["observations"] += 1
        stats["segment_dirs_hashed"] += len(segs)
        what = f"after command {i} ({c['cmd']}{'/' + c['crash'] if c.get('crash', 'none') != 'none' else ''})"
        # --- write-once
        if prev is not None:
            for label, files in segs.items():
                if label in prev["segs"] and prev["segs"][label] != files:
                    changed = sorted(set(files.items()) ^ set(prev["segs"][label].items()))[:4]
                    desc = f"segment directory {label} changed between two observations {what}: {changed}"
                    if "output-id-reuse" in fired:
                        if chk.classify(["C01-output-id-reuse"], desc, replay) == "violation":
                            return
                        stats["known_mutation"] += 1
                    else:
                        chk.violation(desc, replay)
                        return
            # --- index swapped by rename
            if prev["idx_hash"] != fs["data"]["idx_hash"] and prev["idx_hash"] is not None and fs["data"]["idx_hash"] is not None:
                stats["index_changes"] += 1
                # (an inode comparison was tried here and dropped: the file system recycles inode
                # numbers, two saves between observations can bring the old number back)
        # --- complete
        if isinstance(idx, dict):
            chk.violation(f"segments.idx not decodable {what}: {idx}", replay)
            return
        named = {("%05d" % e[0]): e[1] for e in (idx or [])}
        for label in set(fs["live"]) | set(named):
            files = segs.get(label)
            if files is None:
                desc = f"segment {label} is named by the {'live list' if label in fs['live'] else 'index'} but its directory does not exist {what}"
                chk.violation(desc, replay)
                return
            for uid in named.get(label, []):
                missing = [sfx for sfx in CORE_SUFFIXES if f"{uid}{sfx}" not in files]
                if missing:
                    chk.violation(f"segment {label} is indexed for uid {uid} but lacks {missing} {what}", replay)
                    return
            if label in fs["live"] and label not in named:
                # live but not indexed: only the as-built start-up does that (directory names)
                desc = f"live list names {label} which segments.idx does not {what}"
                if "live-from-dirs" in fired:
                    if chk.classify(["C01-live-from-dirs"], desc, replay) == "violation":
                        return
                    stats["known_live_unindexed"] += 1
                else:
                    chk.violation(desc, replay)
                    return
                # its files may be incomplete (crash mid-flush): that is the same finding
        # --- conformance of the layout with the as-built model (ids may differ, levels may not)
        pr, pm = profile_real(fs), profile_model(m)
        if pr != pm:
            if "output-id-reuse" in fired:
                stats["unpredicted_after_id_reuse"] += 1
                return
            stats["layout_drift"] += 1
            chk.sample({"layout_drift": what, "real": pr, "model": pm, "fired": fired})
            return
        prev = {"segs": segs, "idx_hash": fs["data"]["idx_hash"], "idx_ino": fs["data"]["idx_ino"],
                "restarted_between": False}
        if c["cmd"] in ("crash", "restart") or c.get("crash", "none") != "none":
            # this observation was taken by the next lifetime; fine - nothing more to do
            pass
    stats["complete"] += 1


def run(tier):
    chk = core.Check(PROP, "model_checking", tier)
    bindir = core.build_harness(("vdrive",))
    storage.model_stage_m(chk, "Storage_design.cfg" if tier == "quick" else "Storage_design_t.cfg", "C11")
    rnd = random.Random(core.seed() + 11)
    q = tier == "quick"
    plans = [
        {"name": "c11-cap2k2", "cap": 2, "k": 2, "gen_len": 9, "n_sim": 400, "n_rep": 55 if q else 500},
        {"name": "c11-cap3k3", "cap": 3, "k": 3, "gen_len": 11, "n_sim": 300, "n_rep": 30 if q else 300},
    ]
    if not q:
        plans.append({"name": "c11-cap1k2", "cap": 1, "k": 2, "gen_len": 9, "n_sim": 300, "n_rep": 200})
    stats = storage.campaign(chk, "C11", plans, TYPES, CTXS, bindir, judge, rnd)
    # two ACTIVE shards (spec/Storage2Gen.tla): the same monitors on each shard's directory tree while the other shard
    # stores, flushes, compacts and crashes in the same process
    sp = storage.campaign2(chk, "C11", [{"name": "c11p-cap2k2", "cap": 2, "k": 2, "gen_len": 10, "n_sim": 400, "n_rep": 6 if q else 120},
                                        {"name": "c11p-lock-cap2k2", "cap": 2, "k": 2, "gen_len": 12, "n_sim": 300, "n_rep": 3 if q else 60, "lock": True}],
                           CTXS, bindir, judge, random.Random(core.seed() + 111))
    chk.cov["traces_validated_against_impl"] += sp["behaviours"]
    stats["observations"] += sp["observations"]
    stats["segment_dirs_hashed"] += sp["segment_dirs_hashed"]
    stats["layout_drift"] += sp["layout_drift"]
    chk.cov["evaluations"] = stats["observations"]
    chk.cov["distinct_nontrivial"] = stats["segment_dirs_hashed"]
    chk.cov["rule"] = ("one evaluation = one file-system observation (every file of every segment directory hashed, index decoded, "
                       "live list read) after a command or restart of a TLC-generated history; non-trivial count = segment directories hashed")
    if stats["layout_drift"]:
        core.log(f"[C11] DRIFT: {stats['layout_drift']} behaviours where the as-built model's layout differs from the engine's (not a verdict)")
    chk.assumptions += ["rename atomicity and O_APPEND are assumed from the file system", "process crash = abort()",
                        "observation instants are the quiescent points between commands plus the first instant after each restart"]
    return chk.finish()


def replay(path):
    d = json.load(open(path))
    beh = d["replay"]["behaviour"]
    cfg = d["replay"]["config"]
    bindir = core.build_harness(("vdrive",))
    recs, problems = storage.run_behaviour(bindir, beh, root=core.WORK / "c11" / "replay", cap=cfg["cap"], k=cfg["k"],
                                           types=TYPES, ctxs=CTXS, keep=True)
    for rec in recs:
        c = rec["cmd"]
        fs = (rec["real"] or {}).get("fs") or {}
        print(json.dumps({"i": rec["i"], "cmd": {x: c[x] for x in c if x != "obs"},
                          "real": {"live": fs.get("live"), "dirs": sorted((fs.get("data") or {}).get("segs", {})),
                                   "idx": (fs.get("data") or {}).get("idx")},
                          "model": {"live": c["obs"]["live"], "segs": c["obs"]["segs"], "idx": c["obs"]["idx"]}}))
    print(json.dumps(problems))
    return 0
