"""C01 - applied writes survive any process crash and restart, exactly once.

Stage M: TLC checks Durable/NoForeign (+ the other Storage invariants) exhaustively on the
         DESIGN parameterisation of spec/Storage.tla.
Stage R: TLC (StorageGen, AS-BUILT parameterisation) generates command/crash histories with the
         predicted observation after every command; each is replayed on the real engine
         (one process per lifetime, abort() at the named hook for crashes) and every read is
         compared three ways: real vs DESIGN (the property), real vs AS-BUILT (the model of the
         pinned code, which explains known findings by the defect names that fired)."""
import json
import random
from collections import Counter

from vlib import core, storage

PROP = "C01"
TYPES = ["a", "b"]
CTXS = ["c1", "c2"]


def stage_m(chk, tier):
    cfg = "Storage_design.cfg" if tier == "quick" else "Storage_design_t.cfg"
    r = storage.model_stage_m(chk, cfg, "C01")
    # as-built: TLC must find a Durable counterexample (documents the open findings)
    ra = core.tlc("Storage", "Storage_asbuilt.cfg", workers=4, timeout=600)
    chk.cov["asbuilt_model_violates"] = ra.violated
    # the two-shard product (Storage2Gen.tla) keeps the per-shard properties and restarts / flushes both shards together
    r2 = core.tlc("Storage2Gen", "Storage2_m.cfg", workers=8, timeout=900)
    core.tlc_ok(r2, "Storage2Gen/Storage2_m.cfg (design parameterisation of the two-shard product must satisfy DurableBoth, NoForeignBoth, RestartTogether, FlushTogether)")
    chk.cov["two_shard_model_states"] = r2.distinct
    return r


def judge(chk, beh, recs, problems, cfgdesc, stats, types=None):
    """3-way comparison for every observation point of one replayed behaviour."""
    replay = {"behaviour": beh, "config": cfgdesc}
    if problems:
        # a crash point that was not reached or a failed command means the real engine took a
        # different path from the model: decide below by observations; keep for the record
        stats["problems"] += 1
    for rec in recs:
        i, c, real = rec["i"], rec["cmd"], rec["real"]
        if real is None:
            if any(p["problem"].startswith("crash point not reached") for p in problems):
                chk.sample({"drift": "crash point not reached", "cmd": c["cmd"], "crash": c.get("crash")})
                stats["drift"] += 1
                return
            chk.violation(f"no observation after command {i} ({c['cmd']}): {problems[:1]}", replay)
            return
        stats["points"] += 1
        m = c["obs"]
        if storage.partial_branch_mismatch(c, real):
            # which type's files were written first is hash-map order in the code; the model
            # chose one; if reality chose the other this behaviour's predictions do not apply
            stats["partial_other_branch"] += 1
            return
        for t in (types or TYPES):
            des = Counter(k for (k, _c) in storage.design_rows(beh, i, t))
            asb = storage.model_bag(m, t)
            rows = real["q"].get(t)
            if rows is None:
                chk.violation(f"QUERY {t} gave no decodable response after command {i}: {real['raw_bad'][:1]}", replay)
                return
            rb = storage.bag(rows)
            # the response writer drops repeated event ids, so a selection shows each event at
            # most once however often it is stored; COUNT is computed before that
            asb_sel = Counter({k2: 1 for k2 in asb})
            cnt = real["count"].get(t)
            # payload/context/type integrity of whatever is returned
            stored = {c2["k"]: c2 for c2 in beh[: i + 1] if c2["cmd"] == "store"}
            for (k, ctx, ty, _eid) in rows:
                s = stored.get(k)
                if s is None or s["c"] != ctx or s["t"] != ty or ty != t:
                    chk.violation(f"corrupted or foreign row k={k} ctx={ctx} type={ty} in QUERY {t} after command {i}", replay)
                    return
            verdicts = []
            for what, got in (("QUERY", rb), ("COUNT", None if cnt is None else cnt)):
                if what == "COUNT":
                    ok_design = got == sum(des.values())
                    ok_asb = got == sum(asb.values())
                else:
                    ok_design = got == des
                    ok_asb = got == asb_sel
                if ok_design:
                    if not ok_asb:
                        stats["better_than_model"] += 1
                    continue
                fired = sorted(m["fired"])
                desc = (f"{what} {t} after command {i} ({c['cmd']}{'/' + c['crash'] if c.get('crash', 'none') != 'none' else ''}): "
                        f"got {dict(got) if what == 'QUERY' else got}, property demands {dict(des) if what == 'QUERY' else sum(des.values())}")
                if ok_asb:
                    v = chk.classify([f"C01-{f}" for f in fired], desc, replay)
                    verdicts.append(v)
                    stats["known_points"] += 1
                elif "output-id-reuse" in fired:
                    # a compaction output was written into a directory that already existed
                    # (id allocated from the index only); what reads then see depends on
                    # per-segment caches keyed by the reused label - not predicted by the model
                    v = chk.classify(["C01-output-id-reuse"], desc, replay)
                    verdicts.append(v)
                    stats["known_points_unpredicted"] += 1
                    if v == "known":
                        return
                else:
                    chk.violation(desc + f"; as-built model predicts {dict(asb_sel) if what == 'QUERY' else sum(asb.values())} (fired={fired})", replay)
                    return
            if "violation" in verdicts:
                return
        # once the as-built model and reality agree on a discrepancy, carry on
    stats["complete"] += 1


def stage_r(chk, tier, bindir):
    rnd = random.Random(core.seed())
    q = tier == "quick"
    plans = [
        {"name": "c01-cap2k2", "cap": 2, "k": 2, "gen_len": 8, "n_sim": 400, "n_rep": 50 if q else 300},
        {"name": "c01-cap3k3", "cap": 3, "k": 3, "gen_len": 10, "n_sim": 300, "n_rep": 25 if q else 200},
    ]
    if not q:
        plans.append({"name": "c01-cap1k2", "cap": 1, "k": 2, "gen_len": 8, "n_sim": 300, "n_rep": 120})
        plans.append({"name": "c01-cap4k2", "cap": 4, "k": 2, "gen_len": 12, "n_sim": 300, "n_rep": 120})
    # the same histories on one shard of a 3-shard engine (start-up, shutdown, recovery and fan-out over several
    # shard directories; the shard is not shard 0): contexts are renamed to names the code routes to that shard
    routes = storage.probe_routing(bindir, 3)
    target = max((sh for sh in routes if len(routes[sh]) >= 2), key=lambda sh: (sh != 0, len(routes[sh])))
    names = dict(zip(CTXS, routes[target][:2]))
    plans.append({"name": "c01-cap2k2-shard%dof3" % target, "cap": 2, "k": 2, "gen_len": 8, "n_sim": 300, "n_rep": 20 if q else 120,
                  # crash hooks are named per pipeline step, not per shard: a manual FLUSH reaches all three shards, so a crash armed
                  # at a flush step could fire in an idle shard's (empty) flush while the target shard is already further on (seen once
                  # under load: crash "start" with the target's segment already written).  Crash stages inside a MANUAL flush are
                  # therefore explored on the 1-shard plans only; STORE-triggered rotations and compaction rounds run on one shard.
                  "filter": lambda b: not any(c["cmd"] == "flush" and c.get("crash", "none") != "none" for c in b),
                  "run": {"shards": 3, "shard": target, "ctx_names": names}})
    stats = storage.campaign(chk, "C01", plans, TYPES, CTXS, bindir, judge, rnd)
    chk.cov["evaluations"] = stats["points"]
    chk.cov["distinct_nontrivial"] = stats["with_crash"]
    chk.cov["rule"] = ("behaviours = TLC-simulated histories of STORE/FLUSH/compaction/crash-at-hook/restart over 2 types x 2 contexts, "
                       "selected by greedy cover of (command x crash stage, adjacent command pairs, fired defects); non-trivial = contains a crash; "
                       "every observation point compares QUERY bag and COUNT per type with the property and with the as-built model")


def stage_p(chk, tier, bindir):
    """Two shards ACTIVE in one process (spec/Storage2Gen.tla = product of two Storage instances sharing the
    process-wide events): STOREs alternate between two shards, compaction rounds run on either, manual FLUSH and
    restarts hit both; a crash inside one shard's flush pipeline or compaction round is a quiescent crash of the
    other, which may hold unflushed events, rotated WAL logs and segments of its own.  Each shard's reads are judged
    against its own instance's predictions exactly like stage R (event types are disjoint per shard)."""
    q = tier == "quick"
    plans = [{"name": "c01p-cap2k2", "cap": 2, "k": 2, "gen_len": 10, "n_sim": 400, "n_rep": 8 if q else 150}]
    # lockstep: the same event types, segment labels and WAL log ids on both shards
    plans.append({"name": "c01p-lock-cap2k2", "cap": 2, "k": 2, "gen_len": 12, "n_sim": 300, "n_rep": 4 if q else 60, "lock": True})
    if not q:
        plans.append({"name": "c01p-cap3k2", "cap": 3, "k": 2, "gen_len": 12, "n_sim": 300, "n_rep": 80})
    return storage.campaign2(chk, "C01", plans, CTXS, bindir, judge, random.Random(core.seed() + 77))


def stage_t(chk, tier, bindir):
    """Implementation -> spec: hook traces of random multi-lifetime histories validated by TLC
    against the step rules of spec/StorageTrace.tla."""
    import shutil
    rnd = random.Random(core.seed() + 77)
    runs = 6 if tier == "quick" else 40
    stats = Counter()
    for ri in range(runs):
        root = core.WORK / "c01" / f"trace{ri}"
        if root.exists():
            shutil.rmtree(root)
        root.mkdir(parents=True)
        cap = rnd.choice([2, 3, 4])
        fill, epz = (cap, 1) if cap % 2 else (cap // 2, 2)
        cfg = {"root": str(root / "db"), "fill_factor": fill, "event_per_zone": epz, "shards": 1, "k": rnd.choice([2, 3])}
        trace = root / "hooks.ndjson"
        k = 0
        lifetimes = rnd.choice([2, 3, 4])
        for li in range(lifetimes):
            steps = []
            if li == 0:
                for t in TYPES:
                    steps.append({"op": "cmd", "text": f'DEFINE {t} FIELDS {{ k: "int", ty: "string" }}'})
            # every other run starts with a short first lifetime that leaves a partially filled WAL log
            short_first = (li == 0 and ri % 2 == 0)
            for _ in range(rnd.randint(1, cap - 1) if short_first else rnd.randint(6, 20)):
                x = 0.0 if short_first else rnd.random()
                if x < 0.7:
                    k += 1
                    t = rnd.choice(TYPES)
                    steps.append({"op": "cmd", "text": f'STORE {t} FOR {rnd.choice(CTXS)} PAYLOAD {{"k": {k}, "ty": "{t}"}}'})
                    steps.append({"op": "flush_wait"})
                    steps.append({"op": "wal_drain"})
                elif x < 0.85:
                    steps.append({"op": "cmd", "text": "FLUSH"})
                else:
                    steps.append({"op": "compact", "shard": 0, "reclaim_wait_ms": 1000})
            steps.append({"op": "wal_drain"})
            steps.append({"op": "crash"} if (short_first or rnd.random() < 0.6) else {"op": "shutdown"})
            rc, obs, err = core.run_vdrive(bindir, {"config": cfg, "out": str(root / f"o{li}.ndjson"), "steps": steps},
                                           env={"VERIF_TRACE": str(trace)}, timeout=180)
            if rc not in (0, -6, 134):
                chk.violation(f"stage T: engine process of trace run {ri} ended with {rc}: {err[-200:]}", {"run": ri})
                break
        # normalise the trace for TLC: one shard, labels as integers
        recs = []
        for line in open(trace):
            try:
                r = json.loads(line)
            except json.JSONDecodeError:
                continue
            if "live" in r:
                r["live"] = [int(x) for x in r["live"]]
            if "inputs" in r:
                r["inputs"] = [int(x) for x in r["inputs"]]
            for f in ("drained",):
                if f in r:
                    r[f] = [int(x) for x in r[f]]
            r["seq"] = len(recs) + 1          # the hook's own sequence number restarts in every lifetime
            recs.append(r)
        norm = root / "hooks.norm.ndjson"
        with open(norm, "w") as f:
            for r in recs:
                f.write(json.dumps(r) + "\n")
        t = core.tlc("StorageTrace", "StorageTrace.cfg", workers=1, env={"TRACE": str(norm)}, timeout=600, xss=True, deque=True, mem="4g")
        if t.error or t.violated or t.rc != 0:
            core.log(t.out[-3000:])
            raise core.ToolError(f"StorageTrace failed on run {ri}: {t.error or t.violated} rc={t.rc}")
        bad = None
        bad = t.printed_last("BAD")
        if bad is None:
            core.log(t.out[-2000:])
            raise core.ToolError("StorageTrace did not consume the trace")
        stats["trace_runs"] += 1
        stats["trace_events"] += len(recs)
        by_seq = {r["seq"]: r for r in recs}
        first_prune = min([q for (q, c2) in bad if c2 in ("R-prune", "R-prune-open")], default=None)
        for (seq, cls) in sorted(bad):
            ev = by_seq.get(seq, {})
            desc = f"stage T (TLC StorageTrace) rule {cls} violated at hook event {ev.get('ev')} {json.dumps({k2: v for k2, v in ev.items() if k2 not in ('eids',)})[:200]} of trace run {ri}"
            if cls in ("R-prune", "R-prune-open"):
                if chk.classify(["C01-prune-by-segment-id"], desc, {"trace": str(norm), "seq": seq}) == "known":
                    stats["known_prune"] += 1
            elif cls == "R-replay" and first_prune is not None and first_prune < seq:
                # start-up replays the WAL files on disk; after an earlier R-prune violation the model's
                # picture of the files can lag (writes into an unlinked log): attributed to the same finding
                if chk.classify(["C01-prune-by-segment-id"], desc, {"trace": str(norm), "seq": seq}) == "known":
                    stats["known_replay_after_prune"] += 1
            else:
                chk.violation(desc, {"trace": str(norm), "seq": seq})
        shutil.rmtree(root / "db", ignore_errors=True)
    chk.cov["trace_validation"] = dict(stats)
    return stats


def stage_b(chk, tier, bindir):
    """Buffered-WAL clause: multi-lifetime histories with wal.buffered = true, flush_each_write = false on 1 and 2
    shards; TLC checks the clause on spec/WalBuffer.tla and judges the recorded histories with WalBufferTrace."""
    import shutil
    r = core.tlc("WalBuffer", "WalBuffer.cfg", workers=4, timeout=600, coverage=True)
    core.tlc_ok(r, "WalBuffer")
    for act in ("Store", "BufFlush", "Crash", "Shutdown"):
        if r.action_cov.get(act, 0) == 0:
            raise core.ToolError(f"vacuity: WalBuffer.{act} never taken")
    rnd = random.Random(core.seed() + 4242)
    runs = 8 if tier == "quick" else 60
    recs = []
    stats = Counter()
    for ri in range(runs):
        shards = 1 + ri % 2
        routes = storage.probe_routing(bindir, shards) if shards > 1 else {0: ["p0", "p1", "p2"]}
        ctx_shard = {c: sh for sh, cs in routes.items() for c in cs[:3]}
        ctxs = sorted(ctx_shard)
        root = core.WORK / "c01" / f"buf{ri}"
        if root.exists():
            shutil.rmtree(root)
        root.mkdir(parents=True)
        cap = rnd.choice([3, 4, 5])
        cfg = {"root": str(root / "db"), "fill_factor": cap, "event_per_zone": 1, "shards": shards, "k": 2,
               "wal_buffered": True, "wal_flush_each_write": False}
        k = 0
        durable = {sh: [] for sh in range(shards)}
        lives = rnd.choice([3, 4])
        pending = None
        for li in range(lives + 1):
            steps = []
            if li == 0:
                steps.append({"op": "cmd", "text": 'DEFINE a FIELDS { k: "int", ty: "string" }'})
            steps.append({"op": "cmd", "text": "QUERY a", "tag": ["survivors"]})
            applied = {sh: [] for sh in range(shards)}
            end = None
            if li < lives:
                for _ in range(rnd.randint(2, 2 * cap + 2)):
                    k += 1
                    c = rnd.choice(ctxs)
                    applied[ctx_shard[c]].append(k)
                    steps.append({"op": "cmd", "text": f'STORE a FOR {c} PAYLOAD {{"k": {k}, "ty": "a"}}', "tag": ["store", k]})
                # every STORE is applied (a read passes through each shard's mailbox behind them) and rotations are complete
                steps.append({"op": "cmd", "text": "QUERY a", "tag": ["applied"]})
                steps.append({"op": "flush_wait"})
                end = "crash" if rnd.random() < 0.65 else "shutdown"
                steps.append({"op": end})
            rc, obs, err = core.run_vdrive(bindir, {"config": cfg, "out": str(root / f"o{li}.ndjson"), "steps": steps}, timeout=120)
            want = (0,) if end in (None, "shutdown") else (-6, 134)
            if rc not in want:
                chk.violation(f"buffered-WAL run {ri}, lifetime {li} ended with {rc}: {err[-200:]}", {"run": ri, "lifetime": li})
                break
            surv, seen_all, acked = None, None, set()
            for o in obs:
                t = o.get("tag")
                if t == ["survivors"] or t == ["applied"]:
                    rows = storage.decode_rows(o)
                    if t == ["survivors"]:
                        surv = rows
                    else:
                        seen_all = rows
                if isinstance(t, list) and t and t[0] == "store" and o.get("outcome") == "response" and o.get("status") == 200:
                    acked.add(t[1])
            if surv is None:
                chk.violation(f"buffered-WAL run {ri}, lifetime {li}: QUERY after start-up failed", {"run": ri, "lifetime": li})
                break
            by_shard = {sh: [] for sh in range(shards)}
            for (kk, c, _t, eid) in surv:
                by_shard[(eid >> 12) & 0x3FF if shards > 1 else 0].append(kk)
            if pending is not None:
                for sh in range(shards):
                    recs.append({"id": len(recs), "run": ri, "life": pending["life"], "shard": sh, "shards": shards, "cap": cap,
                                 "durable": durable[sh], "applied": pending["applied"][sh], "end": pending["end"], "survivors": by_shard[sh]})
                    stats["records"] += 1
                    stats[f"end_{pending['end']}"] += 1
                    if pending["end"] == "crash" and len(set(by_shard[sh]) - set(durable[sh])) < len(pending["applied"][sh]):
                        stats["crash_lost_a_suffix"] += 1
            durable = {sh: list(dict.fromkeys(by_shard[sh])) for sh in range(shards)}
            if li < lives:
                if any(kk not in acked for sh in applied for kk in applied[sh]):
                    chk.violation(f"buffered-WAL run {ri}, lifetime {li}: a STORE was not acknowledged", {"run": ri, "lifetime": li})
                    break
                pending = {"life": li, "applied": applied, "end": end}
        shutil.rmtree(root, ignore_errors=True)
    trace = core.WORK / "c01" / "walbuffer.ndjson"
    trace.parent.mkdir(parents=True, exist_ok=True)
    trace.write_text("".join(json.dumps(x) + "\n" for x in recs))
    if not recs:
        raise core.ToolError("buffered-WAL stage recorded nothing")
    t = core.tlc("WalBufferTrace", "WalBufferTrace.cfg", workers=1, env={"TRACE": str(trace)}, timeout=600, xss=True)
    if t.error or t.rc != 0 or t.printed_int("JUDGED") != len(recs):
        core.log(t.out[-2000:])
        raise core.ToolError(f"WalBufferTrace failed: {t.error} rc={t.rc}")
    names = {"TWICE": "an event is returned twice after the restart", "FOREIGN": "an event that was neither durable nor applied is returned",
             "LOSTDURABLE": "an event that had survived an earlier restart is gone", "LOSTATSHUTDOWN": "a clean shutdown lost an applied event",
             "NOTPREFIX": "the events that survived the crash are not a prefix of the shard's applied events"}
    for tag, what in names.items():
        ids = t.printed_last(tag)
        if ids is None:
            raise core.ToolError(f"WalBufferTrace printed no {tag}")
        for i in ids:
            x = recs[i]
            chk.violation(f"buffered WAL, {x['shards']} shard(s), capacity {x['cap']}, lifetime {x['life']} ended by {x['end']}: {what} "
                          f"(shard {x['shard']}: durable {x['durable']}, applied {x['applied']}, found {x['survivors']})", {"record": x})
    chk.cov["buffered_wal"] = {"model_states": r.distinct, **dict(stats)}
    return stats


def run(tier):
    chk = core.Check(PROP, "model_checking", tier)
    bindir = core.build_harness(("vdrive",))
    stage_m(chk, tier)
    stage_r(chk, tier, bindir)
    sp = stage_p(chk, tier, bindir)
    chk.cov["traces_validated_against_impl"] += sp["behaviours"]
    st = stage_t(chk, tier, bindir)
    chk.cov["traces_validated_against_impl"] += st["trace_runs"]
    sb = stage_b(chk, tier, bindir)
    chk.cov["traces_validated_against_impl"] += sb["records"]
    chk.assumptions += [
        "process crash = abort(); OS/power loss, fsync and torn sector writes are out of scope",
        "applied = WAL drained (wal_flush_each_write = true); the window between memtable insert and WAL write is not judged",
        "buffered WAL (stage B): histories of STORE / automatic rotation / crash / clean shutdown only (no manual FLUSH, no compaction, no crash inside a flush)",
        "stage R: one active shard; stage P: two active shards, crash stages inside STORE-triggered rotations and compaction rounds only (the other shard is idle at the crash), no crash inside a manual FLUSH; bounds: <= 3 restarts, 3 manual flushes, 3 compaction rounds per behaviour",
    ]
    return chk.finish()


def replay(path):
    d = json.load(open(path))
    beh = d["replay"]["behaviour"]
    cfg = d["replay"]["config"]
    bindir = core.build_harness(("vdrive",))
    recs, problems = storage.run_behaviour(bindir, beh, root=core.WORK / "c01" / "replay", cap=cfg["cap"], k=cfg["k"],
                                           types=TYPES, ctxs=CTXS, keep=True)
    for rec in recs:
        c = rec["cmd"]
        print(json.dumps({"i": rec["i"], "cmd": {x: c[x] for x in c if x != "obs"},
                          "model_rows": c["obs"]["rows"], "fired": c["obs"]["fired"],
                          "real": None if rec["real"] is None else {"q": rec["real"]["q"], "count": rec["real"]["count"]}}))
    print(json.dumps(problems))
    return 0
