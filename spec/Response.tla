------------------------------ MODULE Response ------------------------------
(***************************************************************************)
(* C20 - every response encoding carries the same rows and values.         *)
(*                                                                         *)
(* A query result is a stream  schema, batch*, end  of typed cells.  One   *)
(* response writer (QueryResponseWriter / ShowResponseWriter) drives any   *)
(* renderer through it and applies de-duplication by event id, OFFSET and  *)
(* LIMIT.  This module states                                              *)
(*   (1) the writer as a small machine (seen, skipped, emitted, limit      *)
(*       reached, rows emitted so far), and, independently, what its       *)
(*       output MEANS: Take(Drop(Dedup(rows), offset), limit)  (Decl);     *)
(*   (2) the value a cell CARRIES (Val) - what every encoding must decode  *)
(*       to: nulls as nulls, numbers by numeric value, strings by text;    *)
(*   (3) AS BUILT, what the JSON frames (JsonRenderer, UnixRenderer) and   *)
(*       the Arrow IPC stream of the pinned code decode to for every       *)
(*       (declared logical type, runtime class of the cell) pair.  Where   *)
(*       (3) differs from (2) a defect name is recorded in `fired`; those  *)
(*       are the open findings, everything else must equal (2).            *)
(*                                                                         *)
(* Values are abstract ids (strings); checks/c20.py owns the table id ->   *)
(* literal and nothing else.  What a string parses to, what a float prints *)
(* as, which integers fit i64 - all of that is stated here.                *)
(***************************************************************************)
EXTENDS Integers, Sequences, FiniteSets, TLC, Json

CONSTANTS
  Family,       \* "W": writer-machine cases (TLC chooses the stream), "V": value cases, "none": operators only
  Writers,      \* subset of WriterKinds explored in family W
  IdCells,      \* cells used in the event_id column in family W
  MaxBatches,   \* family W: number of batches fed
  MaxBatchLen,  \* family W: rows per batch 0..MaxBatchLen
  MaxRows,      \* family W: total rows
  Limits,       \* family W: LIMIT values, -1 = none
  Offsets       \* family W: OFFSET values, -1 = none

None == "none"

(***************************************************************************)
(* Cells.  [rt, a, b] - all fields strings.                                *)
(*   Null        a = ""                                                    *)
(*   Bool        a in {"true","false"}                                     *)
(*   Int, Ts     a = number id (ScalarValue::Int64 / ::Timestamp)          *)
(*   Float       a = float id                                              *)
(*   Utf8        a = text kind, b = text argument (see Text below)         *)
(*   Bin         a = blob id                                               *)
(***************************************************************************)
Cell(rt, a, b) == [rt |-> rt, a |-> a, b |-> b]
NullC      == Cell("Null", "", "")
BoolC(x)   == Cell("Bool", x, "")
IntC(n)    == Cell("Int", n, "")
TsC(n)     == Cell("Ts", n, "")
FloatC(f)  == Cell("Float", f, "")
StrC(k, x) == Cell("Utf8", k, x)
BinC(i)    == Cell("Bin", i, "")

\* ---- numbers.  Number ids name mathematical numbers; two cells are numerically
\* equal iff they have the same number id.
SmallInts == {"0", "1", "2", "3", "4", "5", "6", "7", "8", "9", "10", "11", "12"}
I64Ids    == SmallInts \cup {"n3", "imax", "imin", "ts0", "e5"}   \* -3, 2^63-1, -2^63, 1700000000000, 100000
Negative  == {"n3", "imin"}
U64Only   == {"p63", "umax"}                                     \* 2^63, 2^64-1: integers above i64::MAX
\* float ids -> the number they denote / whether finite
FloatIds  == {"1p5", "f5", "negz", "e300", "fp63", "nan", "inf", "ninf"}
FNum(f)   == CASE f = "f5" -> "5" [] f = "negz" -> "0" [] f = "fp63" -> "p63" [] OTHER -> f
FFinite(f) == f \notin {"nan", "inf", "ninf"}
\* i64 -> f64 conversion (`as f64`): exact except at the top of the range
I2F(n)    == IF n = "imax" THEN "p63" ELSE n

(***************************************************************************)
(* Text.  A string value is (kind, x):                                     *)
(*   lit   x  a literal from the table of checks/c20.py (plain, empty,     *)
(*            non-ASCII, escapes, "[1,2]", "{\"a\":1}", "null", "-0", ...)  *)
(*   dec   x  the decimal text of integer id x                             *)
(*   fdisp x  Rust's Display text of float id x ("1.5", "NaN", "inf",      *)
(*            301 digits for 1e300)                                        *)
(*   bool  x  "true" / "false"                                             *)
(*   b64   x  base64 of blob x                                             *)
(* Distinct (kind, x) are distinct texts (FDisp below normalises).         *)
(***************************************************************************)
Flat(k, x) == k \o ":" \o x
JsonComposite == {"arr", "obj"}          \* lit ids whose text is a JSON array / object

\* f64 Display as text
\* (shortest round-trip digits padded with zeros: 2^63 prints as 9223372036854776000, not as the integer)
FDispK(f) == CASE f = "f5" -> "dec" [] f = "negz" -> "lit" [] OTHER -> "fdisp"
FDispX(f) == CASE f = "f5" -> "5" [] f = "negz" -> "negzero" [] OTHER -> f

\* str::parse::<i64>, ::<u64>, ::<f64>, ScalarValue::as_bool on Utf8 - result id or None
ParseI64(k, x) == CASE k = "dec" /\ x \in I64Ids -> x
                    [] k = "lit" /\ x = "negzero" -> "0"
                    [] OTHER -> None
ParseU64(k, x) == IF k = "dec" /\ ((x \in I64Ids /\ x \notin Negative) \/ x \in U64Only) THEN x ELSE None
ParseF64(k, x) == CASE k = "dec" -> (CASE x = "imax" -> "p63" [] x = "umax" -> "p64" [] OTHER -> x)
                    [] k = "fdisp" -> FNum(x)          \* incl. "NaN", "inf", and fp63's text, which parses back to 2^63
                    [] k = "lit" /\ x = "negzero" -> "0"
                    [] OTHER -> None
ParseBool(k, x) == CASE k = "bool" -> x
                     [] k = "dec" /\ x = "1" -> "true"
                     [] k = "dec" /\ x = "0" -> "false"
                     [] OTHER -> None

(***************************************************************************)
(* Decoded cells: [k, v], k in null | bool | num | str | comp.             *)
(***************************************************************************)
D(k, v) == [k |-> k, v |-> v]
DNull   == D("null", "")

\* (2) the value a cell carries
Val(c) == CASE c.rt = "Null"  -> DNull
            [] c.rt = "Bool"  -> D("bool", c.a)
            [] c.rt \in {"Int", "Ts"} -> D("num", c.a)
            [] c.rt = "Float" -> D("num", FNum(c.a))
            [] c.rt = "Utf8"  -> D("str", Flat(c.a, c.b))
            [] c.rt = "Bin"   -> D("str", Flat("b64", c.a))

\* ---- (3) as built: ScalarValue::to_json, used by JsonRenderer and UnixRenderer
\* json.rs / unix.rs stream_batch, stream_row -> engine/types/mod.rs to_json
JsonReparsed(c) == c.rt = "Utf8" /\ ((c.a = "lit" /\ c.b \in JsonComposite) \/ (c.a = "dec" /\ c.b \in U64Only))
JsonCell(c) ==
  CASE c.rt = "Float" /\ ~FFinite(c.a) -> DNull                       \* Number::from_f64 fails -> Null
    [] c.rt = "Utf8" /\ c.a = "lit" /\ c.b \in JsonComposite -> D("comp", c.b)   \* text re-parsed as JSON
    [] c.rt = "Utf8" /\ c.a = "dec" /\ c.b \in U64Only -> D("num", c.b)           \* u64 above i64::MAX
    [] OTHER -> Val(c)
JsonFired(c) == (IF c.rt = "Float" /\ ~FFinite(c.a) THEN {"C20-json-nonfinite-float-null"} ELSE {})
                \cup (IF JsonReparsed(c) THEN {"C20-json-utf8-reparsed"} ELSE {})

\* ---- (3) as built: Arrow.  shared/response/arrow.rs logical_to_arrow_type
ArrowKind(lt) == CASE lt \in {"Integer", "Number", "UInt64"} -> "i64"
                   [] lt = "Float" -> "f64"
                   [] lt = "Boolean" -> "bool"
                   [] lt = "Timestamp" -> "ts"
                   [] OTHER -> "utf8"
\* ScalarValue::to_string_repr, as (kind, x)
ReprK(c) == CASE c.rt = "Bool" -> "bool" [] c.rt \in {"Int", "Ts"} -> "dec" [] c.rt = "Float" -> FDispK(c.a)
              [] c.rt = "Utf8" -> c.a [] c.rt = "Bin" -> "b64" [] OTHER -> "lit"
ReprX(c) == CASE c.rt = "Bool" -> c.a [] c.rt \in {"Int", "Ts"} -> c.a [] c.rt = "Float" -> FDispX(c.a)
              [] c.rt = "Utf8" -> c.b [] c.rt = "Bin" -> c.a [] OTHER -> "empty"
NumOrNull(n) == IF n = None THEN DNull ELSE D("num", n)
BoolOrNull(b) == IF b = None THEN DNull ELSE D("bool", b)
ArrowStr(c) == IF c.rt = "Null" THEN DNull ELSE D("str", Flat(ReprK(c), ReprX(c)))

\* whole batch accepted: ColumnBatch::to_record_batch (engine/core/read/flow/batch.rs build_*_array_from_scalars)
ArrowWhole(lt, c) ==
  LET k == ArrowKind(lt) IN
  CASE k = "i64"  -> (CASE c.rt \in {"Int", "Ts"} -> D("num", c.a)
                        [] c.rt = "Utf8" -> NumOrNull(ParseI64(c.a, c.b))
                        [] OTHER -> DNull)
    [] k = "f64"  -> (CASE c.rt = "Float" -> D("num", FNum(c.a))
                        [] c.rt = "Utf8" -> NumOrNull(ParseF64(c.a, c.b))
                        [] OTHER -> DNull)
    [] k = "bool" -> (CASE c.rt = "Bool" -> D("bool", c.a)
                        [] c.rt = "Utf8" -> BoolOrNull(ParseBool(c.a, c.b))
                        [] c.rt = "Int" -> D("bool", IF c.a = "0" THEN "false" ELSE "true")
                        [] OTHER -> DNull)
    [] k = "ts"   -> (CASE c.rt \in {"Int", "Ts"} -> D("num", c.a)
                        [] c.rt = "Utf8" -> NumOrNull(ParseI64(c.a, c.b))
                        [] OTHER -> DNull)
    [] OTHER      -> ArrowStr(c)
\* some row of the batch rejected: arrow.rs build_record_batch with row_indices = Some(..)
ArrowSliced(lt, c) ==
  LET k == ArrowKind(lt) IN
  CASE k = "i64"  -> (IF c.rt \in {"Int", "Ts"} THEN D("num", c.a) ELSE DNull)
    [] k = "f64"  -> (CASE c.rt = "Float" -> D("num", FNum(c.a))
                        [] c.rt = "Int" -> D("num", I2F(c.a))
                        [] OTHER -> DNull)
    [] k = "bool" -> (IF c.rt = "Bool" THEN D("bool", c.a) ELSE DNull)
    [] k = "ts"   -> (IF c.rt \in {"Int", "Ts"} THEN D("num", c.a) ELSE DNull)
    [] OTHER      -> ArrowStr(c)
ArrowCell(lt, c, sliced) == IF sliced THEN ArrowSliced(lt, c) ELSE ArrowWhole(lt, c)
ArrowFired(lt, c, sliced) ==
  IF ArrowCell(lt, c, sliced) = Val(c) THEN {}
  ELSE {"C20-arrow-declared-type-coercion"}
       \cup (IF ArrowWhole(lt, c) # ArrowSliced(lt, c) THEN {"C20-arrow-sliced-path-differs"} ELSE {})

(***************************************************************************)
(* Universe of the value cases and the cells every encoding must agree on. *)
(***************************************************************************)
LTypes == {"Integer", "Number", "UInt64", "Float", "Boolean", "Timestamp", "String", "Date", "Enum", "Object", "Unknown"}
PlainLits == {"plain", "empty", "uni", "esc", "nullw", "qstr", "sp5"}
VCells ==
  {NullC, BoolC("true"), BoolC("false")}
  \cup {IntC(n) : n \in {"0", "1", "5", "n3", "imax", "imin"}}
  \cup {TsC(n) : n \in {"ts0", "0", "n3"}}
  \cup {FloatC(f) : f \in FloatIds}
  \cup {StrC("lit", x) : x \in PlainLits \cup JsonComposite}
  \cup {StrC("dec", x) : x \in {"0", "1", "5", "n3", "imax", "p63", "umax", "e5"}}
  \cup {StrC("fdisp", x) : x \in {"1p5", "nan", "inf"}}
  \cup {StrC("bool", "true"), StrC("bool", "false")}
  \cup {BinC("b1")}
\* cells whose runtime class is the native one of the declared type: no finding may fire on them
Native(lt) ==
  LET k == ArrowKind(lt) IN
  {NullC} \cup
  (CASE k = "i64"  -> {c \in VCells : c.rt \in {"Int", "Ts"}}
     [] k = "f64"  -> {c \in VCells : c.rt = "Float" /\ FFinite(c.a)}
     [] k = "bool" -> {c \in VCells : c.rt = "Bool"}
     [] k = "ts"   -> {c \in VCells : c.rt \in {"Int", "Ts"}}
     [] OTHER      -> {c \in VCells : c.rt = "Utf8" /\ ~JsonReparsed(c)})
NativeAgree ==
  \A lt \in LTypes : \A c \in Native(lt) :
     /\ JsonCell(c) = Val(c) /\ JsonFired(c) = {}
     /\ ArrowWhole(lt, c) = Val(c) /\ ArrowSliced(lt, c) = Val(c)
     /\ ArrowFired(lt, c, TRUE) = {} /\ ArrowFired(lt, c, FALSE) = {}
\* and the as-built model names a finding exactly where it departs from Val
FiredExact ==
  \A lt \in LTypes : \A c \in VCells : \A s \in BOOLEAN :
     /\ (JsonFired(c) = {}) <=> (JsonCell(c) = Val(c))
     /\ (ArrowFired(lt, c, s) = {}) <=> (ArrowCell(lt, c, s) = Val(c))
ASSUME NativeAgree
ASSUME FiredExact

(***************************************************************************)
(* The writer machine.                                                     *)
(*  cfg = [writer, mat, wm, cols, limit, offset]                           *)
(*    writer "query" | "show"; mat = materialized_frame_count; wm =        *)
(*    has_watermark_filtering; cols = <<[name, lt]>>; limit/offset -1=none *)
(*  a batch = sequence of rows, a row = sequence of cells aligned to cols  *)
(***************************************************************************)
WriterKinds == {[writer |-> "query", mat |-> 0, wm |-> FALSE],
                [writer |-> "show", mat |-> 0, wm |-> FALSE],
                [writer |-> "show", mat |-> 1, wm |-> FALSE],
                [writer |-> "show", mat |-> 0, wm |-> TRUE]}

IdCol(cols) == IF \E j \in DOMAIN cols : cols[j].name = "event_id"
               THEN CHOOSE j \in DOMAIN cols : cols[j].name = "event_id" /\ \A i \in 1..(j-1) : cols[i].name # "event_id"
               ELSE 0
\* ScalarValue::as_u64 of the event_id cell
IdOf(c) == CASE c.rt \in {"Int", "Ts"} -> (IF c.a \in Negative THEN None ELSE c.a)
             [] c.rt = "Utf8" -> ParseU64(c.a, c.b)
             [] OTHER -> None
RowId(cfg, row) == IF IdCol(cfg.cols) = 0 THEN None ELSE IdOf(row[IdCol(cfg.cols)])

St0 == [seen |-> {}, skipped |-> 0, emitted |-> 0, lim |-> FALSE, nb |-> 0, out |-> <<>>]

\* try_accept_row (query) / the loop body of ShowResponseWriter: returns the new state and whether the row is kept
Accept(st, cfg, row, inMat) ==
  LET id == RowId(cfg, row)
      dedups == id # None /\ ~(cfg.writer = "show" /\ cfg.wm)
      dup == dedups /\ id \in st.seen /\ ~(cfg.writer = "show" /\ inMat)
      st1 == IF dedups THEN [st EXCEPT !.seen = @ \cup {id}] ELSE st
  IN IF dup THEN [st |-> st, keep |-> FALSE]
     ELSE IF cfg.offset >= 0 /\ st1.skipped < cfg.offset
          THEN [st |-> [st1 EXCEPT !.skipped = @ + 1], keep |-> FALSE]
     ELSE IF cfg.limit >= 0 /\ st1.emitted >= cfg.limit
          THEN [st |-> [st1 EXCEPT !.lim = TRUE], keep |-> FALSE]
     ELSE [st |-> [st1 EXCEPT !.emitted = @ + 1], keep |-> TRUE]

RECURSIVE Rows(_, _, _, _, _, _)
Rows(st, cfg, b, i, acc, inMat) ==
  IF i > Len(b) \/ st.lim THEN [st |-> st, acc |-> acc]
  ELSE LET r == Accept(st, cfg, b[i], inMat)
       IN Rows(r.st, cfg, b, i + 1, IF r.keep THEN Append(acc, i) ELSE acc, inMat)

\* one batch received.  After the limit was reached the writer reads no further batch.
Feed(st, cfg, b) ==
  IF st.lim \/ Len(b) = 0 THEN st
  ELSE LET r == Rows(st, cfg, b, 1, <<>>, cfg.writer = "show" /\ st.nb < cfg.mat)
           sliced == r.acc # [i \in 1..Len(b) |-> i]
           st2 == [r.st EXCEPT !.nb = @ + 1]
       IN [st2 EXCEPT !.out = @ \o [i \in 1..Len(r.acc) |-> [row |-> b[r.acc[i]], sliced |-> sliced]]]

RECURSIVE RunFrom(_, _, _, _)
RunFrom(st, cfg, stream, i) == IF i > Len(stream) THEN st ELSE RunFrom(Feed(st, cfg, stream[i]), cfg, stream, i + 1)
Run(cfg, stream) == RunFrom(St0, cfg, stream, 1)

\* ---- what the output MEANS, without the machine
RECURSIVE FlatRows(_, _, _)
\* rows of the stream with the ordinal of their non-empty batch
FlatRows(stream, i, nb) ==
  IF i > Len(stream) THEN <<>>
  ELSE IF Len(stream[i]) = 0 THEN FlatRows(stream, i + 1, nb)
  ELSE [j \in 1..Len(stream[i]) |-> [row |-> stream[i][j], nb |-> nb]] \o FlatRows(stream, i + 1, nb + 1)
Kept(cfg, fr, i) ==
  LET id == RowId(cfg, fr[i].row) IN
  \/ id = None
  \/ cfg.writer = "show" /\ (cfg.wm \/ fr[i].nb < cfg.mat)
  \/ \A j \in 1..(i-1) : RowId(cfg, fr[j].row) # id
RECURSIVE Filter(_, _, _)
Filter(cfg, fr, i) == IF i > Len(fr) THEN <<>>
                      ELSE (IF Kept(cfg, fr, i) THEN <<fr[i].row>> ELSE <<>>) \o Filter(cfg, fr, i + 1)
Drop(s, n) == IF n <= 0 THEN s ELSE IF n >= Len(s) THEN <<>> ELSE SubSeq(s, n + 1, Len(s))
Take(s, n) == IF n < 0 \/ n >= Len(s) THEN s ELSE SubSeq(s, 1, n)
Decl(cfg, stream) == Take(Drop(Filter(cfg, FlatRows(stream, 1, 0), 1), cfg.offset), cfg.limit)

(***************************************************************************)
(* Expected decoded tables of a finished run.                              *)
(***************************************************************************)
NCols(cfg) == Len(cfg.cols)
Names(cfg) == [j \in 1..NCols(cfg) |-> cfg.cols[j].name]
TableVal(cfg, out)   == [i \in 1..Len(out) |-> [j \in 1..NCols(cfg) |-> Val(out[i].row[j])]]
TableJson(cfg, out)  == [i \in 1..Len(out) |-> [j \in 1..NCols(cfg) |-> JsonCell(out[i].row[j])]]
TableArrow(cfg, out) == [i \in 1..Len(out) |-> [j \in 1..NCols(cfg) |-> ArrowCell(cfg.cols[j].lt, out[i].row[j], out[i].sliced)]]
FiredJson(cfg, out)  == UNION {JsonFired(out[i].row[j]) : i \in 1..Len(out), j \in 1..NCols(cfg)}
FiredArrow(cfg, out) == UNION {ArrowFired(cfg.cols[j].lt, out[i].row[j], out[i].sliced) : i \in 1..Len(out), j \in 1..NCols(cfg)}

\* the complete expectation for one case: what the property demands (want) and, where the
\* pinned code is known to differ, what it produces instead (json / arrow) and why (fj / fa)
Expect(cfg, stream) ==
  LET st == Run(cfg, stream) IN
  [names |-> Names(cfg), announced |-> st.emitted,
   want |-> TableVal(cfg, st.out),
   json |-> IF TableJson(cfg, st.out) = TableVal(cfg, st.out) THEN <<>> ELSE TableJson(cfg, st.out),     \* <<>> = as wanted
   arrow |-> IF TableArrow(cfg, st.out) = TableVal(cfg, st.out) THEN <<>> ELSE TableArrow(cfg, st.out),
   fj |-> FiredJson(cfg, st.out), fa |-> FiredArrow(cfg, st.out),
   slicedBatches |-> Cardinality({i \in 1..Len(st.out) : st.out[i].sliced}),
   skipped |-> st.skipped, lim |-> st.lim]

\* judgement of an observed decoded table against the expectation (used by ResponseTrace)
\*   obs = [ok (bytes decoded without complaint), names, rows, announced (-1 = the encoding has none)]
Judge(exp, obs, which) ==
  LET asb == IF which = "arrow" THEN exp.arrow ELSE exp.json
      fired == IF which = "arrow" THEN exp.fa ELSE exp.fj
      annOK == IF which = "arrow" THEN obs.announced = -1 ELSE obs.announced = exp.announced
      shapeOK == obs.ok /\ obs.names = exp.names /\ annOK /\ Len(obs.rows) = Len(exp.want)
  IN IF shapeOK /\ obs.rows = exp.want THEN [v |-> "ok", fired |-> {}]
     ELSE IF shapeOK /\ asb # <<>> /\ obs.rows = asb THEN [v |-> "known", fired |-> fired]
     ELSE [v |-> "bad", fired |-> {}]

(***************************************************************************)
(* Case enumeration (Stage M + generation for Stage R).                    *)
(***************************************************************************)
VARIABLES cfg, stream, st, phase, k
vars == <<cfg, stream, st, phase, k>>

\* family W: [event_id | id : Integer, v : Integer]; the value cell of the n-th row is Int n
WCols(hasId) == <<[name |-> IF hasId THEN "event_id" ELSE "id", lt |-> "Integer"], [name |-> "v", lt |-> "Integer"]>>
NumStr(n) == CASE n = 1 -> "1" [] n = 2 -> "2" [] n = 3 -> "3" [] n = 4 -> "4" [] n = 5 -> "5" [] n = 6 -> "6"
               [] n = 7 -> "7" [] n = 8 -> "8" [] n = 9 -> "9" [] n = 10 -> "10" [] n = 11 -> "11" [] OTHER -> "12"
WBatch(ids, from) == [i \in 1..Len(ids) |-> <<ids[i], IntC(NumStr(from + i))>>]

\* family V: [event_id : Integer, <name> : lt], one batch; `cause` makes the Arrow writer take the
\* whole-batch path or (a row rejected by dedup / OFFSET / LIMIT) the sliced path
VNative(lt) == LET kk == ArrowKind(lt) IN
               CASE kk = "i64" -> IntC("7") [] kk = "f64" -> FloatC("1p5") [] kk = "bool" -> BoolC("true")
                 [] kk = "ts" -> TsC("ts0") [] OTHER -> StrC("lit", "plain")
VCauses == {"whole", "dup", "offset", "limit"}
VNames == {"v", "uni", "dotted", "spaced"}
VCase(lt, c, cause, name, w) ==
  LET cols == <<[name |-> "event_id", lt |-> "Integer"], [name |-> name, lt |-> lt]>>
      r1 == <<IntC("1"), VNative(lt)>>
      r2 == <<IntC("2"), c>>
  IN [cfg |-> [writer |-> w.writer, mat |-> w.mat, wm |-> w.wm, cols |-> cols,
               limit |-> IF cause = "limit" THEN 1 ELSE -1, offset |-> IF cause = "offset" THEN 1 ELSE -1],
      stream |-> CASE cause = "whole" -> <<<<r1, r2>>>>
                   [] cause = "dup" -> <<<<r1, r2, r1>>>>
                   [] cause = "offset" -> <<<<r1, r2>>>>
                   [] cause = "limit" -> <<<<r2, r1>>>>]
\* which cells of the event_id column identify a row (as_u64): the same id cell three times, within and across batches
ICells == {IntC("1"), IntC("0"), IntC("n3"), IntC("imax"), NullC, TsC("ts0"), TsC("n3"), StrC("dec", "2"), StrC("dec", "n3"),
           StrC("dec", "umax"), StrC("lit", "plain"), FloatC("f5"), BoolC("true")}
ICase(c, w) == [cfg |-> [writer |-> w.writer, mat |-> w.mat, wm |-> w.wm, cols |-> WCols(TRUE), limit |-> -1, offset |-> -1],
                stream |-> << << <<c, IntC("1")>>, <<c, IntC("2")>> >>, << <<c, IntC("3")>> >> >>]
VCases == {VCase(lt, c, cause, "v", [writer |-> "query", mat |-> 0, wm |-> FALSE]) : lt \in LTypes, c \in VCells, cause \in VCauses}
          \cup {ICase(c, w) : c \in ICells, w \in WriterKinds}
          \cup {VCase("Integer", IntC("5"), "whole", n, w) : n \in VNames, w \in WriterKinds}
          \cup {VCase(lt, c, cause, "v", [writer |-> "show", mat |-> 0, wm |-> FALSE]) :
                  lt \in {"Integer", "Float", "String"}, c \in {IntC("5"), FloatC("f5"), StrC("dec", "5"), FloatC("nan")}, cause \in {"whole", "dup"}}

\* constants of the shipped configurations (cfg files cannot spell records)
IdCellsQuick == {IntC("1"), IntC("2"), NullC}
IdCellsThorough == {IntC("1"), IntC("2"), NullC, IntC("n3"), StrC("dec", "2")}
LimitsQuick == {-1, 0, 1, 2}
OffsetsQuick == {-1, 1, 2}
LimitsThorough == {-1, 0, 1, 2, 3}
OffsetsThorough == {-1, 0, 1, 3}
NoLimit == {-1}
\* without an event_id column only "no de-duplication" is new: explored without LIMIT / OFFSET
WConfigOK(w, hasId, l, o) == hasId \/ (l = -1 /\ o = -1 /\ w.mat = 0 /\ ~w.wm)

Init ==
  /\ st = St0 /\ k = 0
  /\ \/ /\ Family = "W"
        /\ phase = "open" /\ stream = <<>>
        /\ \E w \in Writers, hasId \in BOOLEAN, l \in Limits, o \in Offsets :
             /\ WConfigOK(w, hasId, l, o)
             /\ cfg = [writer |-> w.writer, mat |-> w.mat, wm |-> w.wm, cols |-> WCols(hasId), limit |-> l, offset |-> o]
     \/ /\ Family = "V"
        /\ phase = "open"
        /\ \E vc \in VCases : cfg = vc.cfg /\ stream = vc.stream

\* family W: the producer hands over any next batch
Batch ==
  /\ Family = "W" /\ phase = "open" /\ Len(stream) < MaxBatches
  /\ \E n \in 0..MaxBatchLen : k + n <= MaxRows /\ \E ids \in [1..n -> IdCells] :
       LET b == WBatch(ids, k) IN
       /\ stream' = Append(stream, b)
       /\ st' = Feed(st, cfg, b)
       /\ k' = k + n
  /\ UNCHANGED <<cfg, phase>>
\* family V: the given stream is played
Play ==
  /\ Family = "V" /\ phase = "open" /\ k < Len(stream)
  /\ st' = Feed(st, cfg, stream[k + 1]) /\ k' = k + 1
  /\ UNCHANGED <<cfg, stream, phase>>
End ==
  /\ phase = "open" /\ (Family = "V" => k = Len(stream))
  /\ phase' = "done"
  /\ UNCHANGED <<cfg, stream, st, k>>
Next == Batch \/ Play \/ End
Spec == Init /\ [][Next]_vars

\* ---- Stage M invariants: the machine means what Decl says, in every reachable state
Counters == /\ st.emitted = Len(st.out)
            /\ (cfg.limit >= 0 => st.emitted <= cfg.limit)
            /\ (cfg.offset >= 0 => st.skipped <= cfg.offset)
            /\ (st.lim => cfg.limit >= 0 /\ st.emitted = cfg.limit)
MachineIsDecl == [i \in 1..Len(st.out) |-> st.out[i].row] = Decl(cfg, IF Family = "W" THEN stream ELSE SubSeq(stream, 1, k))
\* a query response never repeats a de-duplicable event id
NoRepeatedId == cfg.writer = "query" =>
                  \A i, j \in 1..Len(st.out) : i < j /\ RowId(cfg, st.out[i].row) # None
                                                => RowId(cfg, st.out[i].row) # RowId(cfg, st.out[j].row)
\* the function form used for trace validation agrees with the stepwise machine
RunIsSteps == st = Run(cfg, IF Family = "W" THEN stream ELSE SubSeq(stream, 1, k))

Emit == phase = "done" => PrintT(<<"CASE", ToJson([cfg |-> cfg, stream |-> stream, exp |-> Expect(cfg, stream)])>>)
UniverseJson == PrintT(<<"UNIVERSE", ToJson([ltypes |-> LTypes, cells |-> VCells,
                                         native |-> [lt \in LTypes |-> Native(lt)],
                                         idcells |-> {IntC("1"), IntC("2"), IntC("3"), IntC("n3"), NullC, StrC("dec", "2"), TsC("0"), IntC("0")}])>>)
ASSUME Family = "V" => UniverseJson
=============================================================================
