SPECIFICATION MSpec
CONSTANTS
  MaxDepth = 2
  Offsets = {1}
INVARIANT InvNoParenNeeded
CHECK_DEADLOCK FALSE
