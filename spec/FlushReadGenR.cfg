SPECIFICATION GenSpec
CONSTANTS
  Cap = 2
  MaxEv = 40
  Fix = {}
  ReaderAtomic = FALSE
  GenLen = 16
INVARIANT Emit
CHECK_DEADLOCK FALSE
