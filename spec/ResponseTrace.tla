--------------------------- MODULE ResponseTrace ---------------------------
(***************************************************************************)
(* Stage T of C20: recorded executions of the real response path are       *)
(* re-judged with the operators of Response.  One NDJSON record per line   *)
(* in the file named by the environment variable TRACE:                    *)
(*                                                                         *)
(*  kind "case"   a (large, random) result stream pushed through the real  *)
(*                QueryResponseWriter / ShowResponseWriter once per        *)
(*                renderer; cfg and stream as in Response, obs.<enc> the   *)
(*                decoded table.  Judged with Expect / Judge.              *)
(*  kind "render" a non-streaming Response rendered by the three           *)
(*                renderers; the decoded status must be the code of the    *)
(*                response's StatusCode in every encoding.                 *)
(*  kind "e2e"    one real query dispatched once per renderer on a real    *)
(*                engine: the three decoded responses must agree (Agree).  *)
(*                                                                         *)
(*  kind "http"   one command answered by the real HTTP front end of three  *)
(*                processes configured with the three output formats.      *)
(*                                                                         *)
(* TLC walks the records (one state per record) and prints a verdict for   *)
(* every record that is not "ok", and a summary at the end.                *)
(***************************************************************************)
EXTENDS Response, IOUtils

Recs == ndJsonDeserialize(IOEnv.TRACE)

Range(s) == {s[i] : i \in DOMAIN s}
Count(s, x) == Cardinality({i \in DOMAIN s : s[i] = x})
BagEq(a, b) == Len(a) = Len(b) /\ \A x \in Range(a) \cup Range(b) : Count(a, x) = Count(b, x)
SameRows(a, b, ordered) == IF ordered THEN a = b ELSE BagEq(a, b)

\* ---- kind "case"
Worst(vs) == IF "bad" \in vs THEN "bad" ELSE IF "known" \in vs THEN "known" ELSE "ok"
CaseVerdict(r) ==
  LET exp == Expect(r.cfg, r.stream)
      vj == Judge(exp, r.obs.json, "json")
      vu == Judge(exp, r.obs.unix, "unix")
      va == Judge(exp, r.obs.arrow, "arrow")
  IN [v |-> Worst({vj.v, vu.v, va.v}), fired |-> vj.fired \cup vu.fired \cup va.fired,
      by |-> [json |-> vj.v, unix |-> vu.v, arrow |-> va.v],
      nontrivial |-> Len(exp.want) > 0, sliced |-> exp.slicedBatches > 0]

\* ---- kind "render": shared/response/types.rs StatusCode::code
Code(s) == CASE s = "Ok" -> 200 [] s = "BadRequest" -> 400 [] s = "Unauthorized" -> 401 [] s = "Forbidden" -> 403
             [] s = "NotFound" -> 404 [] s = "InternalError" -> 500 [] s = "ServiceUnavailable" -> 503
RenderVerdict(r) ==
  [v |-> IF r.obs.json = Code(r.status) /\ r.obs.arrow = Code(r.status) /\ r.obs.unix = Code(r.status) THEN "ok" ELSE "bad",
   fired |-> {}, by |-> [json |-> "-", unix |-> "-", arrow |-> "-"], nontrivial |-> r.status # "Ok", sliced |-> FALSE]

\* ---- kind "e2e": the property itself, on decoded responses of unknown content
KeepIdx(names, pcols) == SelectSeq([j \in 1..Len(names) |-> j], LAMBDA j : names[j] \notin Range(pcols))
Project(rows, idx) == [i \in DOMAIN rows |-> [j \in 1..Len(idx) |-> rows[i][idx[j]]]]
StreamShape(d) == d.kind = "stream" /\ d.ok
Agree(j, x, ordered, announces) ==
  /\ x.status = j.status /\ StreamShape(x) /\ x.names = j.names
  /\ Len(x.rows) = Len(j.rows)
  /\ (announces => x.announced = Len(x.rows))
  /\ SameRows(j.rows, x.rows, ordered)
AgreeExcept(j, x, ordered, announces, pcols) ==
  /\ x.status = j.status /\ StreamShape(x) /\ x.names = j.names
  /\ Len(x.rows) = Len(j.rows)
  /\ (announces => x.announced = Len(x.rows))
  /\ SameRows(Project(j.rows, KeepIdx(j.names, pcols)), Project(x.rows, KeepIdx(j.names, pcols)), ordered)
E2eVerdict(r) ==
  LET j == r.obs.json  a == r.obs.arrow  u == r.obs.unix  j2 == r.obs.json2
      mk(v, f) == [v |-> v, fired |-> f, by |-> [json |-> "-", unix |-> "-", arrow |-> "-"],
                   nontrivial |-> j.kind = "stream" /\ Len(j.rows) > 0, sliced |-> FALSE]
  IN IF j.kind # "stream"
     THEN \* plain / error response: the same status code in every encoding
          mk(IF j.ok /\ a.ok /\ u.ok /\ a.kind = j.kind /\ u.kind = j.kind /\ a.status = j.status /\ u.status = j.status
             THEN "ok" ELSE "bad", {})
     ELSE IF r.lenient /\ r.probe # ""
     THEN mk(IF Agree(j, j2, r.ordered, TRUE) /\ Agree(j, a, r.ordered, FALSE) /\ Agree(j, u, r.ordered, TRUE)
             THEN "ok" ELSE "known", IF Agree(j, j2, r.ordered, TRUE) /\ Agree(j, a, r.ordered, FALSE) /\ Agree(j, u, r.ordered, TRUE) THEN {} ELSE {r.probe})
     ELSE IF ~(j.ok /\ j.announced = Len(j.rows) /\ Agree(j, j2, r.ordered, TRUE))
     THEN mk(IF j.ok /\ j.announced = Len(j.rows) THEN "unstable" ELSE "bad", {})
     ELSE IF Agree(j, a, r.ordered, FALSE) /\ Agree(j, u, r.ordered, TRUE) THEN mk("ok", {})
     ELSE IF r.probe # "" /\ AgreeExcept(j, a, r.ordered, FALSE, r.pcols) /\ AgreeExcept(j, u, r.ordered, TRUE, r.pcols)
     THEN mk("known", {r.probe})
     ELSE mk("bad", {})

\* ---- kind "http": the same command answered by the real HTTP front end under output_format = json / arrow / unix
\* (three processes, so event ids and timestamps differ: shape and status only).  The HTTP status must be the
\* status code the body carries, in every format (frontend/http/dispatcher.rs extract_http_status_from_response).
HttpVerdict(r) ==
  LET j == r.obs.json  a == r.obs.arrow  u == r.obs.unix
      mk(v, f) == [v |-> v, fired |-> f, by |-> [json |-> "-", unix |-> "-", arrow |-> "-"],
                   nontrivial |-> j.status # 200, sliced |-> FALSE]
      bodyAgree == /\ j.ok /\ a.ok /\ u.ok /\ a.kind = j.kind /\ u.kind = j.kind
                   /\ a.status = j.status /\ u.status = j.status
                   /\ a.names = j.names /\ u.names = j.names /\ a.nrows = j.nrows /\ u.nrows = j.nrows
      httpAgree == j.http = j.status /\ a.http = j.http /\ u.http = j.http
  IN IF bodyAgree /\ httpAgree THEN mk("ok", {})
     ELSE IF bodyAgree /\ j.http = j.status /\ j.status # 200 /\ a.http \in {200, j.status} /\ u.http \in {200, j.status}
     THEN mk("known", {"C20-http-status-lost-for-arrow-and-text"})
     ELSE mk("bad", {})

Verdict(r) == CASE r.kind = "case" -> CaseVerdict(r)
                [] r.kind = "http" -> HttpVerdict(r)
                [] r.kind = "render" -> RenderVerdict(r)
                [] r.kind = "e2e" -> E2eVerdict(r)

VARIABLES i, nOk, nKnown, nBad, nUnstable, nNontrivial, nSliced
tvars == <<i, nOk, nKnown, nBad, nUnstable, nNontrivial, nSliced>>
\* the enumeration variables of Response are not used here
Idle == cfg = "-" /\ stream = <<>> /\ st = St0 /\ phase = "-" /\ k = 0
TInit == Idle /\ i = 0 /\ nOk = 0 /\ nKnown = 0 /\ nBad = 0 /\ nUnstable = 0 /\ nNontrivial = 0 /\ nSliced = 0
TNext ==
  /\ i < Len(Recs)
  /\ LET r == Recs[i + 1]
         v == Verdict(r)
     IN /\ (v.v # "ok" => PrintT(<<"VERDICT", ToJson([id |-> r.id, kind |-> r.kind, v |-> v.v, fired |-> v.fired, by |-> v.by])>>))
        /\ i' = i + 1
        \* records marked canary are corrupted copies made by the runner (binding self-test): judged, not counted
        /\ nOk' = nOk + (IF v.v = "ok" /\ ~r.canary THEN 1 ELSE 0)
        /\ nKnown' = nKnown + (IF v.v = "known" /\ ~r.canary THEN 1 ELSE 0)
        /\ nBad' = nBad + (IF v.v = "bad" /\ ~r.canary THEN 1 ELSE 0)
        /\ nUnstable' = nUnstable + (IF v.v = "unstable" /\ ~r.canary THEN 1 ELSE 0)
        /\ nNontrivial' = nNontrivial + (IF v.nontrivial /\ ~r.canary THEN 1 ELSE 0)
        /\ nSliced' = nSliced + (IF v.sliced /\ ~r.canary THEN 1 ELSE 0)
  /\ UNCHANGED vars
TSpec == TInit /\ [][TNext]_<<tvars, vars>>
Summary == i = Len(Recs) => PrintT(<<"SUMMARY", ToJson([records |-> i, judged |-> nOk + nKnown + nBad + nUnstable, ok |-> nOk, known |-> nKnown, bad |-> nBad,
                                                        unstable |-> nUnstable, nontrivial |-> nNontrivial, sliced |-> nSliced])>>)
\* the whole trace was read
AllRead == TLCGet("stats").diameter = Len(Recs) + 1
=============================================================================
