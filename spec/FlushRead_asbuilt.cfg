SPECIFICATION Spec
CONSTANTS
  Cap = 2
  MaxEv = 5
  Fix = {}
  ReaderAtomic = TRUE
INVARIANTS ReadExactlyOnce NoForeign
CHECK_DEADLOCK FALSE
