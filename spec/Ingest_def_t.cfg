SPECIFICATION DefSpec
CONSTANTS
  Part = "def"
  Fix = {"json-aware-payload-scan", "exponent-plus-tokenised", "time-range-checked", "text-kept-as-text", "strings-not-parsed", "null-bitmap-for-text", "float-column-keeps-integers", "return-columns-ordered", "compaction-tolerates-missing-column"}
  GenLen = 5
  MaxB = 1
  MaxLen = 2
INVARIANTS DefineErrorKeepsSchema EmitDef
CHECK_DEADLOCK FALSE
