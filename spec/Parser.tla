------------------------------- MODULE Parser -------------------------------
(* C17 - parsing and dispatch are total; the parser preserves structure.      *)
(*                                                                            *)
(* What the property means, stated over small abstract domains:               *)
(*  1. syntax trees of WHERE / FILTER expressions (Cmp | In | Not | And | Or),*)
(*     a printer Pr(t) that emits the MINIMAL parentheses demanded by         *)
(*     NOT > AND > OR (AND / OR associate to the right, as the grammar does)  *)
(*     and a printer PrFull(t) that parenthesises every node;                 *)
(*  2. a reference parser RefParse over token sequences (ordered choice, the  *)
(*     same precedence), used (a) by TLC to prove, for every tree in the      *)
(*     bound, RefParse(Pr(t)) = RefParse(PrFull(t)) = t and that removing any *)
(*     parenthesis pair of Pr(t) changes the result (so the cases really      *)
(*     exercise precedence), (b) as the oracle for recorded runs of the real  *)
(*     parser on random / mutated token sequences (ParserTrace);              *)
(*  3. command trees of every command kind with the token sequence that       *)
(*     prints them and the command the parser must return (round trip);       *)
(*  4. the outcome alphabet: a parse is total iff its outcome is "ok" or       *)
(*     "err"; a dispatch is total iff it produced a response and no task      *)
(*     panicked; unrepresentable numerals must not yield a silently altered   *)
(*     command.                                                               *)
(* Tokens are abstract: keywords carry their canonical word (the runner picks *)
(* the letter case and the white space - the expected tree does not depend on *)
(* either, which is what "keywords are case-insensitive" means here).         *)
EXTENDS Naturals, Integers, Sequences, FiniteSets, TLC

\* ------------------------------------------------------------------ tokens
KW(w)    == [k |-> "kw", w |-> w, s |-> w]     \* keyword (s = rendered text, default upper case)
ID(s)    == [k |-> "id", s |-> s]              \* identifier [a-zA-Z_][a-zA-Z0-9_-]*
FLD(s)   == [k |-> "fld", s |-> s]             \* dotted field  ident "." ident
NUM(s)   == [k |-> "num", s |-> s]             \* numeral, canonical text
STR(s)   == [k |-> "str", s |-> s]             \* "..." (s = content, no quote / backslash inside)
OP(s)    == [k |-> "op", s |-> s]
RAW(c)   == [k |-> "raw", s |-> c]             \* a JSON block, named by class; the runner owns text and value
PUN(s)   == [k |-> "pun", s |-> s]             \* other punctuation: -> ;
LP       == [k |-> "lp", s |-> "("]
RP       == [k |-> "rp", s |-> ")"]
LB       == [k |-> "lb", s |-> "["]
RB       == [k |-> "rb", s |-> "]"]
COMMA    == [k |-> "comma", s |-> ","]

\* numerals that the target integer / float type cannot hold (texts, TLC integers are 32 bit)
OverI64  == {"9223372036854775808", "-9223372036854775809", "18446744073709551616", "99999999999999999999"}
OverU32  == {"4294967296", "99999999999", "-1", "9223372036854775808"}
OpText   == [Eq |-> "=", Neq |-> "!=", Gt |-> ">", Gte |-> ">=", Lt |-> "<", Lte |-> "<="]
OpOf(s)  == CHOOSE o \in DOMAIN OpText : OpText[o] = s

\* ------------------------------------------------------------------ values and trees
Num(s)  == [t |-> "num", s |-> s]
Str(s)  == [t |-> "str", s |-> s]
TrueV   == [t |-> "bool", s |-> "true"]
Cmp(f, op, v) == [n |-> "cmp", f |-> f, op |-> op, v |-> v]
In(f, vs)     == [n |-> "in", f |-> f, vs |-> vs]
Not(x)        == [n |-> "not", x |-> x]
And(l, r)     == [n |-> "and", l |-> l, r |-> r]
Or(l, r)      == [n |-> "or", l |-> l, r |-> r]
Leaf(i)       == [n |-> "leaf", i |-> i]

\* the atoms leaves are labelled with: (tree, tokens).  All distinct, so a lost / swapped /
\* re-associated operand is visible in the result.
Atoms == <<
  [t |-> Cmp("a", "Eq", Num("1")),            p |-> <<ID("a"), OP("="), NUM("1")>>],
  [t |-> Cmp("b", "Neq", Str("x y")),         p |-> <<ID("b"), OP("!="), STR("x y")>>],
  [t |-> In("c", <<Num("1"), Str("two"), Num("-3")>>),
                                              p |-> <<ID("c"), KW("IN"), LP, NUM("1"), COMMA, STR("two"), COMMA, NUM("-3"), RP>>],
  [t |-> Cmp("flag", "Eq", TrueV),            p |-> <<ID("flag")>>],
  [t |-> Cmp("o.k", "Gte", Num("-5")),        p |-> <<FLD("o.k"), OP(">="), NUM("-5")>>],
  [t |-> Cmp("e", "Lt", Num("2.5")),          p |-> <<ID("e"), OP("<"), NUM("2.5")>>],
  [t |-> Cmp("f", "Lte", Str("abc")),         p |-> <<ID("f"), OP("<="), ID("abc")>>],
  [t |-> Cmp("android", "Gt", Num("9223372036854775807")),
                                              p |-> <<ID("android"), OP(">"), NUM("9223372036854775807")>>],
  \* second pool: keyword-like identifiers, keywords inside strings, empty IN, i64 minimum
  [t |-> Cmp("order_id", "Eq", Str("a AND (b OR NOT c)")),
                                              p |-> <<ID("order_id"), OP("="), STR("a AND (b OR NOT c)")>>],
  [t |-> Cmp("notx", "Neq", Num("-9223372036854775808")),
                                              p |-> <<ID("notx"), OP("!="), NUM("-9223372036854775808")>>],
  [t |-> In("in_stock", <<>>),                p |-> <<ID("in_stock"), KW("IN"), LP, RP>>],
  [t |-> Cmp("ORacle", "Eq", Str("or")),      p |-> <<ID("ORacle"), OP("="), ID("or")>>],
  [t |-> Cmp("x-1", "Gt", Num("0")),          p |-> <<ID("x-1"), OP(">"), NUM("0")>>],
  [t |-> Cmp("_u", "Eq", Str("")),            p |-> <<ID("_u"), OP("="), STR("")>>],
  [t |-> In("g", <<Str("IN")>>),              p |-> <<ID("g"), KW("IN"), LP, STR("IN"), RP>>],
  [t |-> Cmp("andy", "Eq", TrueV),            p |-> <<ID("andy")>>]
>>
NAtoms == Len(Atoms)

RECURSIVE Shapes(_)
Shapes(d) == IF d = 0 THEN {Leaf(0)}
             ELSE LET S == Shapes(d - 1)
                  IN  S \cup {Not(x) : x \in S} \cup {And(l, r) : l, r \in S} \cup {Or(l, r) : l, r \in S}

RECURSIVE Leaves(_)
Leaves(t) == CASE t.n = "leaf" -> 1
               [] t.n = "not"  -> Leaves(t.x)
               [] OTHER        -> Leaves(t.l) + Leaves(t.r)

RECURSIVE Depth(_)
Depth(t) == CASE t.n \in {"leaf", "cmp", "in"} -> 0
              [] t.n = "not"  -> 1 + Depth(t.x)
              [] OTHER        -> 1 + (IF Depth(t.l) > Depth(t.r) THEN Depth(t.l) ELSE Depth(t.r))

\* number the leaves left to right starting at k (atom index, wraps)
RECURSIVE Lab(_, _)
Lab(t, k) == CASE t.n = "leaf" -> Leaf(((k - 1) % NAtoms) + 1)
               [] t.n = "not"  -> Not(Lab(t.x, k))
               [] t.n = "and"  -> And(Lab(t.l, k), Lab(t.r, k + Leaves(t.l)))
               [] t.n = "or"   -> Or(Lab(t.l, k), Lab(t.r, k + Leaves(t.l)))

\* the tree a labelled shape denotes
RECURSIVE Tree(_)
Tree(t) == CASE t.n = "leaf" -> Atoms[t.i].t
             [] t.n = "not"  -> Not(Tree(t.x))
             [] t.n = "and"  -> And(Tree(t.l), Tree(t.r))
             [] t.n = "or"   -> Or(Tree(t.l), Tree(t.r))

\* ------------------------------------------------------------------ printers
Paren(s) == <<LP>> \o s \o <<RP>>
RECURSIVE Pr(_)
Pr(t) == CASE t.n = "leaf" -> Atoms[t.i].p
           [] t.n = "not"  -> <<KW("NOT")>> \o (IF t.x.n \in {"and", "or"} THEN Paren(Pr(t.x)) ELSE Pr(t.x))
           [] t.n = "and"  -> (IF t.l.n \in {"and", "or"} THEN Paren(Pr(t.l)) ELSE Pr(t.l))
                              \o <<KW("AND")>> \o
                              (IF t.r.n = "or" THEN Paren(Pr(t.r)) ELSE Pr(t.r))
           [] t.n = "or"   -> (IF t.l.n = "or" THEN Paren(Pr(t.l)) ELSE Pr(t.l))
                              \o <<KW("OR")>> \o Pr(t.r)
RECURSIVE PrFull(_)
PrFull(t) == CASE t.n = "leaf" -> Paren(Atoms[t.i].p)
               [] t.n = "not"  -> Paren(<<KW("NOT")>> \o PrFull(t.x))
               [] t.n = "and"  -> Paren(PrFull(t.l) \o <<KW("AND")>> \o PrFull(t.r))
               [] t.n = "or"   -> Paren(PrFull(t.l) \o <<KW("OR")>> \o PrFull(t.r))

\* ------------------------------------------------------------------ reference parser (ordered choice)
\* A rule maps (tokens, position) to [ok, pos, v].  An identifier position accepts a keyword's
\* text as well (the grammar's identifier rule does not reserve words); a keyword position
\* accepts only the keyword, in any letter case.
Fail == [ok |-> FALSE, pos |-> 0, v |-> [n |-> "none"]]
Okr(p, v) == [ok |-> TRUE, pos |-> p, v |-> v]
Has(s, p) == p >= 1 /\ p <= Len(s)
IsKw(s, p, w)  == Has(s, p) /\ s[p].k = "kw" /\ s[p].w = w
IsIdent(s, p)  == Has(s, p) /\ s[p].k \in {"id", "kw"}
IsField(s, p)  == Has(s, p) /\ s[p].k \in {"id", "kw", "fld"}
IsK(s, p, k)   == Has(s, p) /\ s[p].k = k
IsValue(s, p)  == Has(s, p) /\ s[p].k \in {"str", "num", "id", "kw"}
ValueOf(tok)   == IF tok.k = "num" THEN Num(tok.s) ELSE Str(tok.s)

\* value ** ","  from position p: longest list v1 , v2 , ... (a trailing comma is not consumed)
RECURSIVE PValues(_, _, _)
PValues(s, p, acc) ==
  IF ~IsValue(s, p) THEN Okr(p, acc)
  ELSE LET acc2 == Append(acc, ValueOf(s[p]))
       IN  IF IsK(s, p + 1, "comma") /\ IsValue(s, p + 2) THEN PValues(s, p + 2, acc2) ELSE Okr(p + 1, acc2)

RECURSIVE POr(_, _), PAnd(_, _), PFactor(_, _)
PFactor(s, p) ==
  LET notAlt == IF IsKw(s, p, "NOT")
                THEN LET r == PFactor(s, p + 1) IN IF r.ok THEN Okr(r.pos, Not(r.v)) ELSE Fail
                ELSE Fail
      parAlt == IF IsK(s, p, "lp")
                THEN LET r == POr(s, p + 1) IN IF r.ok /\ IsK(s, r.pos, "rp") THEN Okr(r.pos + 1, r.v) ELSE Fail
                ELSE Fail
      cmpAlt == IF IsField(s, p) /\ IsK(s, p + 1, "op") /\ IsValue(s, p + 2)
                THEN Okr(p + 3, Cmp(s[p].s, OpOf(s[p + 1].s), ValueOf(s[p + 2])))
                ELSE Fail
      inAlt  == IF IsField(s, p) /\ IsKw(s, p + 1, "IN") /\ IsK(s, p + 2, "lp")
                THEN LET r == PValues(s, p + 3, <<>>)
                     IN  IF IsK(s, r.pos, "rp") THEN Okr(r.pos + 1, In(s[p].s, r.v)) ELSE Fail
                ELSE Fail
      atomAlt == IF IsField(s, p) THEN Okr(p + 1, Cmp(s[p].s, "Eq", TrueV)) ELSE Fail
  IN  IF notAlt.ok THEN notAlt
      ELSE IF parAlt.ok THEN parAlt
      ELSE IF cmpAlt.ok THEN cmpAlt
      ELSE IF inAlt.ok THEN inAlt
      ELSE atomAlt
PAnd(s, p) ==
  LET l == PFactor(s, p)
  IN  IF ~l.ok THEN Fail
      ELSE IF IsKw(s, l.pos, "AND")
           THEN LET r == PAnd(s, l.pos + 1) IN IF r.ok THEN Okr(r.pos, And(l.v, r.v)) ELSE l
           ELSE l
POr(s, p) ==
  LET l == PAnd(s, p)
  IN  IF ~l.ok THEN Fail
      ELSE IF IsKw(s, l.pos, "OR")
           THEN LET r == POr(s, l.pos + 1) IN IF r.ok THEN Okr(r.pos, Or(l.v, r.v)) ELSE l
           ELSE l

\* whole-input parse of an expression: everything must be consumed
RefParse(s) == LET r == POr(s, 1)
               IN  IF r.ok /\ r.pos = Len(s) + 1 THEN [ok |-> TRUE, tree |-> r.v] ELSE [ok |-> FALSE]
HasOverI64(s) == \E i \in 1..Len(s) : s[i].k = "num" /\ s[i].s \in OverI64
\* what the property demands of the real parser for a token sequence in WHERE position
Expected(s) == IF HasOverI64(s) THEN [kind |-> "total"] ELSE [kind |-> "exact", res |-> RefParse(s)]

\* ------------------------------------------------------------------ outcome alphabet
ParseOutcomes    == {"ok", "err"}                          \* total = a command or an error ...
NonTotal         == {"panic", "timeout", "abort"}          \* ... never a panic, a hang or a crashed process
DispatchOutcomes == {"response"}                           \* every returned command is answered
ParseTotal(o)    == o \in ParseOutcomes
DispatchTotal(o, taskPanics) == o \in DispatchOutcomes /\ taskPanics = 0

\* ------------------------------------------------------------------ Stage M: the printers and the reference parser agree
CONSTANTS MaxDepth,      \* bound on the nesting depth of the enumerated trees
          Offsets        \* atom offsets used for labelling (1 = first pool, 9 = second pool)
VARIABLE c               \* the case under consideration (one state per case)
AllLabelled(d, offs) == {Lab(sh, o) : sh \in Shapes(d), o \in offs}

\* index of the ")" matching the "(" at i
RECURSIVE MatchFrom(_, _, _)
MatchFrom(s, j, depth) == IF s[j].k = "lp" THEN MatchFrom(s, j + 1, depth + 1)
                          ELSE IF s[j].k = "rp" THEN (IF depth = 1 THEN j ELSE MatchFrom(s, j + 1, depth - 1))
                          ELSE MatchFrom(s, j + 1, depth)
Without(s, i, j) == [x \in 1..(Len(s) - 2) |-> IF x < i THEN s[x] ELSE IF x < j - 1 THEN s[x + 1] ELSE s[x + 2]]
\* removing any parenthesis pair that Pr inserted (not those of IN lists) changes the parse
Minimal(t) == LET s == Pr(t)
              IN  \A i \in 1..Len(s) :
                    (s[i].k = "lp" /\ ~(i > 1 /\ IsKw(s, i - 1, "IN"))) =>
                        LET j == MatchFrom(s, i, 0) IN RefParse(Without(s, i, j)) # [ok |-> TRUE, tree |-> Tree(t)]
RoundTrip(t) == /\ RefParse(Pr(t)) = [ok |-> TRUE, tree |-> Tree(t)]
                /\ RefParse(PrFull(t)) = [ok |-> TRUE, tree |-> Tree(t)]

MInit == c \in AllLabelled(MaxDepth, Offsets)
MNext == UNCHANGED c
MSpec == MInit /\ [][MNext]_c
InvRoundTrip == RoundTrip(c)
InvMinimal   == Minimal(c)
\* anti-vacuity: the printer does emit parentheses, and does omit them, within the bound
InvNoParenNeeded == \A i \in 1..Len(Pr(c)) : Pr(c)[i].k = "lp" => (i > 1 /\ IsKw(Pr(c), i - 1, "IN"))   \* expected to be VIOLATED

\* the textbook examples of the property statement
A1 == Atoms[1].t
A2 == Atoms[2].t
A4 == Atoms[4].t
ASSUME RefParse(Atoms[1].p \o <<KW("OR")>> \o Atoms[2].p \o <<KW("AND"), KW("NOT")>> \o Atoms[4].p).tree
         = Or(A1, And(A2, Not(A4)))
ASSUME RefParse(Paren(Atoms[1].p \o <<KW("OR")>> \o Atoms[2].p) \o <<KW("AND")>> \o Atoms[4].p).tree
         = And(Or(A1, A2), A4)
ASSUME RefParse(<<KW("NOT")>> \o Atoms[1].p \o <<KW("AND")>> \o Atoms[2].p).tree = And(Not(A1), A2)
ASSUME RefParse(<<KW("NOT")>> \o Paren(Atoms[1].p \o <<KW("AND")>> \o Atoms[2].p)).tree = Not(And(A1, A2))
ASSUME RefParse(Atoms[1].p \o <<KW("AND")>> \o Atoms[2].p \o <<KW("AND")>> \o Atoms[4].p).tree = And(A1, And(A2, A4))
ASSUME ~RefParse(Atoms[1].p \o <<KW("AND")>>).ok
ASSUME ~RefParse(<<LP>> \o Atoms[1].p).ok
ASSUME RefParse(<<KW("NOT"), OP("="), NUM("1")>>).tree = Cmp("NOT", "Eq", Num("1"))   \* words are not reserved
=============================================================================
