SPECIFICATION MSpec
CONSTANTS
  MaxDepth = 3
  Offsets = {1, 9}
INVARIANT InvRoundTrip
INVARIANT InvMinimal
CHECK_DEADLOCK FALSE
