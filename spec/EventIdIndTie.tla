---------------------------- MODULE EventIdIndTie ----------------------------
(* Ties the Apalache-checked generator (EventIdInd!StepA, unbounded) to the step   *)
(* function of EventId.tla (Step), which C18 binds to the real generator: on a     *)
(* grid of generator states, clock readings and wake-up times the two agree.       *)
EXTENDS EventId
I == INSTANCE EventIdInd WITH last <- 0, seq <- 0, pl <- 0, ps <- 0, issued <- FALSE
Grid == [l : -1..4, s : 0..(SeqSpace - 1), c : 0..6, d : 1..2]
Agree(x) ==
  LET r == Step([last |-> x.l, seq |-> x.s], x.c)
      w == x.l + x.d
      a == I!StepA(x.l, x.s, x.c, w)
  IN IF r.wait THEN I!MustWait(x.l, x.s, x.c) /\ a = <<w, 0>> /\ r.g.last = x.l
     ELSE ~I!MustWait(x.l, x.s, x.c) /\ a = <<r.g.last, r.g.seq>>
ASSUME \A x \in Grid : Agree(x)
ASSUME PrintT(<<"TIED", Cardinality(Grid)>>)
=============================================================================
