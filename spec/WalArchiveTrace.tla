--------------------------- MODULE WalArchiveTrace ---------------------------
(* Stage T / verdict for C19: re-judges recorded executions of the real code.         *)
(* One NDJSON record per behaviour (file named by env TRACE):                         *)
(*   [beh, steps : Seq(step), obs : Seq(observation after that step), exp : Seq([i, o])]*)
(* steps and observations use the abstract values of WalArchive (Python only interns   *)
(* concrete values: entry fields -> table indices, file names -> <<id, start, end>>).  *)
(* For every cleanup step the property predicates P1, P2, P3a, P3b of WalArchive are   *)
(* evaluated on the observations before / after it; every observation is compared     *)
(* with the reference machine folded over the recorded steps (drift) and with the      *)
(* expectation the generator printed for it (exp).                                     *)
EXTENDS WalArchive, IOUtils

Trace == ndJsonDeserialize(IOEnv.TRACE)

VARIABLE i
tvars == <<i, st, steps, salt, nsteps, serial>>

Before(r, k) == IF k = 1 THEN ObsOf(Empty) ELSE r.obs[k - 1]

\* property verdict of one recorded behaviour: the cleanup steps that violate C19, with the predicates that fail
BadSteps(r) ==
  LET ks == {k \in DOMAIN r.steps : r.steps[k].op = "cleanup"}
      f(k) == Failing(ContentOf(SubSeq(r.steps, 1, k)), Before(r, k), r.obs[k], r.steps[k].kf)
      rb == {k \in DOMAIN r.steps \ ks : ~P3b(r.obs[k])}
  IN {[k |-> k, fails |-> f(k)] : k \in {k \in ks : f(k) # {}}}
     \cup {[k |-> k, fails |-> {"P3b-recovery-differs-from-archives-in-log-order"}] : k \in rb}

\* conformance of the reference machine with the implementation (not part of the property)
KnownAt(r, k) == DOMAIN ContentOf(SubSeq(r.steps, 1, k))
Drift(r) == LET states == RunF(Empty, r.steps) IN {k \in DOMAIN r.steps : ~ObsEq(r.obs[k], ObsOf(states[k]), KnownAt(r, k))}
ExpBad(r) == {r.exp[x].i : x \in {x \in DOMAIN r.exp : ~ObsEq(r.obs[r.exp[x].i], r.exp[x].o, KnownAt(r, r.exp[x].i))}}

\* what happened, for the coverage counters
Feat(r) ==
  LET ks == {k \in DOMAIN r.steps : r.steps[k].op = "cleanup"}
      c(k) == ContentOf(SubSeq(r.steps, 1, k))
      del(k) == Deleted(Before(r, k), r.obs[k], c(k))
      el(k) == Eligible(Before(r, k), r.steps[k].kf, c(k))
      failed(k) == {l \in el(k) : ~HasComplete(r.obs[k], l, c(k))}
  IN [cleanups |-> Cardinality(ks),
      nontrivial |-> Cardinality({k \in ks : el(k) # {}}),
      deleting |-> Cardinality({k \in ks : del(k) # {}}),
      withfail |-> Cardinality({k \in ks : failed(k) # {}}),
      partial  |-> Cardinality({k \in ks : failed(k) # {} /\ failed(k) # el(k)}),
      deleted  |-> Cardinality(UNION {del(k) : k \in ks})]

TInit == i = 0 /\ st = Empty /\ steps = <<>> /\ salt = 0 /\ nsteps = 0 /\ serial = 0
TNext == i < Len(Trace) /\ i' = i + 1 /\ UNCHANGED <<st, steps, salt, nsteps, serial>>
TSpec == TInit /\ [][TNext]_tvars

Judge ==
  i > 0 =>
    LET r == Trace[i]
        b == BadSteps(r)
        d == Drift(r)
        e == ExpBad(r)
    IN PrintT(<<"V", ToJson([beh |-> r.beh, ok |-> b = {}, bad |-> b, drift |-> d, expbad |-> e, feat |-> Feat(r)])>>)
=============================================================================
