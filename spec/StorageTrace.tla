---------------------------- MODULE StorageTrace ----------------------------
(***************************************************************************)
(* Stage T for the storage protocol (C01, C03, C11): validation of hook    *)
(* traces recorded from real, multi-lifetime runs of ONE shard against the *)
(* step-level rules of the flush / WAL-prune / compaction pipeline.        *)
(* Every line of the trace is one step; the monitor state is rebuilt from  *)
(* the logged fields and a rule violation is collected with its class.     *)
(*                                                                         *)
(* Rules (each is what a property's mechanism relies on):                  *)
(*  R-rotate   the rotated set of a flush job = the events inserted since  *)
(*             the previous rotation (nothing lost or invented at rotate)  *)
(*  R-order    per job: start -> [index renamed] -> written -> published   *)
(*             -> passive cleared -> wal cleaned -> done, never skipped    *)
(*  R-publish  a segment is published only after its index entry was saved *)
(*  R-clear    the passive copy is released only after publication (C03)   *)
(*  R-prune    a WAL log is deleted only when every event in it is in a    *)
(*             published segment (C01)   [as built: known to fail]         *)
(*  R-prune-id as built: only logs with id < segment id + 1 are deleted    *)
(*  R-prune-open the log the writer is appending to is never deleted (C01) *)
(*             [as built: known to fail]                                   *)
(*  R-walcount the WAL writer's entry counter = entries in the open file   *)
(*  R-replay   start-up replays exactly the events that are in WAL files   *)
(*  R-compact  live list after a hand-over = (old live \ drained) + output *)
(***************************************************************************)
EXTENDS Naturals, Integers, Sequences, FiniteSets, TLC, Json, IOUtils

Rec == ndJsonDeserialize(IOEnv.TRACE)

VARIABLES i, mem, walE, rot, stage, pubE, liveS, idxSaved, bad, lastLive, pendingIns, curLog, unlinked

vars == <<i, mem, walE, rot, stage, pubE, liveS, idxSaved, bad, lastLive, pendingIns, curLog, unlinked>>
S(q) == {q[j] : j \in DOMAIN q}
Has(r, f) == f \in DOMAIN r

Init == /\ i = 1 /\ mem = {} /\ walE = [l \in {} |-> {}] /\ rot = [s \in {} |-> {}] /\ stage = [s \in {} |-> "none"]
        /\ pubE = {} /\ liveS = {} /\ idxSaved = FALSE /\ bad = {} /\ lastLive = {} /\ pendingIns = {}
        /\ curLog = -1 /\ unlinked = {}

Flag(cls, r) == bad' = bad \cup {<<r.seq, cls>>}
Keep == UNCHANGED bad

Step(r) ==
  CASE r.ev = "startup.loaded" ->
         \* new lifetime: volatile state is rebuilt; WAL files persist
         /\ mem' = S(r.eids) /\ rot' = [s \in {} |-> {}] /\ stage' = [s \in {} |-> "none"]
         /\ liveS' = S(r.live) /\ lastLive' = S(r.live) /\ idxSaved' = FALSE /\ pendingIns' = {}
         /\ IF S(r.eids) = UNION {walE[l] : l \in DOMAIN walE} THEN Keep ELSE Flag("R-replay", r)
         /\ UNCHANGED <<walE, pubE>>
    [] r.ev = "store.mem_inserted" ->
         /\ mem' = mem \cup {r.eid} /\ pendingIns' = pendingIns \cup {r.eid}
         /\ Keep /\ UNCHANGED <<walE, rot, stage, pubE, liveS, idxSaved, lastLive>>
    [] r.ev = "wal.appended" ->
         \* an append to a log the cleaner has unlinked while it was the open log never reaches the disk
         /\ walE' = IF r.log \in unlinked THEN walE
                    ELSE IF r.log \in DOMAIN walE THEN [walE EXCEPT ![r.log] = @ \cup {r.eid}] ELSE walE @@ (r.log :> {r.eid})
         /\ pendingIns' = pendingIns \ {r.eid}
         \* R-walcount: the writer's entry counter equals the number of entries in the file it appends to
         \* (also when that file was started in an earlier lifetime) - rotation is decided on it
         /\ IF r.log \in unlinked \/ r.entries = Cardinality(walE'[r.log]) THEN Keep ELSE Flag("R-walcount", r)
         /\ UNCHANGED <<mem, rot, stage, pubE, liveS, idxSaved, lastLive>>
    [] r.ev \in {"store.rotated", "flush.manual_rotated"} ->
         /\ rot' = rot @@ (r.seg :> S(r.eids)) /\ mem' = {}
         /\ IF S(r.eids) = mem THEN Keep ELSE Flag("R-rotate", r)
         /\ UNCHANGED <<walE, stage, pubE, liveS, idxSaved, lastLive, pendingIns>>
    [] r.ev = "flush.start" ->
         /\ stage' = stage @@ (r.seg :> "start") /\ idxSaved' = FALSE
         /\ Keep /\ UNCHANGED <<mem, walE, rot, pubE, liveS, lastLive, pendingIns>>
    [] r.ev = "index.renamed" ->
         /\ idxSaved' = TRUE /\ Keep /\ UNCHANGED <<mem, walE, rot, stage, pubE, liveS, lastLive, pendingIns>>
    [] r.ev = "flush.written" ->
         /\ IF r.seg \in DOMAIN stage /\ stage[r.seg] = "start" /\ idxSaved THEN Keep ELSE Flag("R-order", r)
         /\ stage' = [s \in DOMAIN stage \cup {r.seg} |-> IF s = r.seg THEN "written" ELSE stage[s]]
         /\ UNCHANGED <<mem, walE, rot, pubE, liveS, idxSaved, lastLive, pendingIns>>
    [] r.ev = "flush.published" ->
         /\ IF r.seg \in DOMAIN stage /\ stage[r.seg] = "written" THEN Keep ELSE Flag("R-publish", r)
         /\ stage' = [s \in DOMAIN stage \cup {r.seg} |-> IF s = r.seg THEN "published" ELSE stage[s]]
         /\ liveS' = liveS \cup {r.seg}
         /\ pubE' = pubE \cup (IF r.seg \in DOMAIN rot THEN rot[r.seg] ELSE {})
         /\ UNCHANGED <<mem, walE, rot, idxSaved, lastLive, pendingIns>>
    [] r.ev = "flush.passive_cleared" ->
         /\ IF r.seg \in DOMAIN stage /\ stage[r.seg] = "published" THEN Keep ELSE Flag("R-clear", r)
         /\ stage' = [s \in DOMAIN stage \cup {r.seg} |-> IF s = r.seg THEN "cleared" ELSE stage[s]]
         /\ UNCHANGED <<mem, walE, rot, pubE, liveS, idxSaved, lastLive, pendingIns>>
    [] r.ev = "walclean.deleted" ->
         /\ LET content == IF r.log \in DOMAIN walE THEN walE[r.log] ELSE {}
                c1 == IF content \subseteq pubE THEN {} ELSE {<<r.seq, "R-prune">>}
                c2 == IF r.log < r.keep_from THEN {} ELSE {<<r.seq, "R-prune-id">>}
                c3 == IF r.log = curLog THEN {<<r.seq, "R-prune-open">>} ELSE {}
            IN bad' = bad \cup c1 \cup c2 \cup c3
         /\ walE' = [l \in DOMAIN walE \ {r.log} |-> walE[l]]
         /\ UNCHANGED <<mem, rot, stage, pubE, liveS, idxSaved, lastLive, pendingIns>>
    [] r.ev = "flush.wal_cleaned" ->
         /\ IF r.seg \in DOMAIN stage /\ stage[r.seg] = "cleared" THEN Keep ELSE Flag("R-order", r)
         /\ stage' = [s \in DOMAIN stage \cup {r.seg} |-> IF s = r.seg THEN "cleaned" ELSE stage[s]]
         /\ UNCHANGED <<mem, walE, rot, pubE, liveS, idxSaved, lastLive, pendingIns>>
    [] r.ev = "flush.done" ->
         /\ IF pendingIns = {} \/ TRUE THEN Keep ELSE Keep
         /\ UNCHANGED <<mem, walE, rot, stage, pubE, liveS, idxSaved, lastLive, pendingIns>>
    [] r.ev = "compact.live_updated" ->
         /\ liveS' = S(r.live) /\ Keep
         /\ UNCHANGED <<mem, walE, rot, stage, pubE, idxSaved, lastLive, pendingIns>>
    [] OTHER -> Keep /\ UNCHANGED <<mem, walE, rot, stage, pubE, liveS, idxSaved, lastLive, pendingIns>>

WalVars(r) ==
  \* at start-up the WAL writer re-opens the log with the highest id (append mode): that log is the open one
  \* before the first append of the lifetime
  CASE r.ev = "startup.loaded" -> /\ curLog' = IF DOMAIN walE = {} THEN -1 ELSE CHOOSE l \in DOMAIN walE : \A m \in DOMAIN walE : m <= l
                                  /\ unlinked' = {}
    [] r.ev = "wal.appended" -> curLog' = r.log /\ UNCHANGED unlinked
    [] r.ev = "wal.rotated" -> curLog' = r.log /\ UNCHANGED unlinked
    [] r.ev = "walclean.deleted" -> UNCHANGED curLog /\ unlinked' = IF r.log = curLog THEN unlinked \cup {r.log} ELSE unlinked
    [] OTHER -> UNCHANGED <<curLog, unlinked>>
Next == /\ i <= Len(Rec) /\ Step(Rec[i]) /\ WalVars(Rec[i]) /\ i' = i + 1
Spec == Init /\ [][Next]_vars

\* printed once, when the whole trace has been consumed
Done == i = Len(Rec) + 1 => PrintT(<<"BAD", ToJson(bad)>>)
Consumed == TLCGet("stats").diameter >= 0
=============================================================================
