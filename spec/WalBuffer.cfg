SPECIFICATION Spec
CONSTANTS
  Cap = 3
  MaxEv = 8
  MaxLives = 4
INVARIANTS CrashKeepsPrefix ShutdownKeepsAll Accounted
CHECK_DEADLOCK FALSE
