------------------------------ MODULE ReplayGen ------------------------------
(* Case generator for the narrowing clause of C04: REPLAY FOR a context, optionally   *)
(* SINCE a time, over a fixed abstract data set (defined by the including MC module). *)
(* The expected membership is Query!Eval (SINCE is inclusive); the expected order is  *)
(* append order, i.e. ascending k.                                                    *)
EXTENDS Query, Json

CONSTANTS Data, Ctxs, Times
VARIABLE q
Requests == [ctx : Ctxs, since : Times \cup {-1}, where : {[tag |-> "true"]}]
Init == q \in Requests
Next == UNCHANGED q
Spec == Init /\ [][Next]_q
Emit == PrintT(<<"CASE", ToJson([q |-> q, exp |-> Eval(Data, q)])>>)
=============================================================================
