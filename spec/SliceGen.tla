------------------------------ MODULE SliceGen -------------------------------
(* Case generator for C10: ORDER BY f [DESC] LIMIT n OFFSET m over a fixed data   *)
(* set: expected sequence of sort keys (ties arbitrary, key sequence determined), *)
(* and for unordered LIMIT the expected number of distinct matching rows.         *)
EXTENDS Query, Json, Randomization

CONSTANTS Data, SortFields, Ctxs, Probes, MaxN, WhereField

VARIABLE req

Wheres == {[tag |-> "true"]} \cup [tag : {"cmp"}, f : {WhereField}, op : {"<", ">=", "="}, v : Probes]
Ordered == [kind : {"ordered"}, f : SortFields, desc : BOOLEAN, off : 0..MaxN, lim : (0..MaxN) \cup {-1},
            where : Wheres, ctx : {"*"}]
           \cup [kind : {"ordered"}, f : SortFields, desc : BOOLEAN, off : {0, 1}, lim : {1, 3, -1},
                 where : {[tag |-> "true"]}, ctx : Ctxs]
Unordered == [kind : {"unordered"}, lim : 0..MaxN, where : Wheres, ctx : {"*"} \cup Ctxs]
Requests == {r \in Ordered : ~(r.lim = -1 /\ r.off > 0)} \cup Unordered

Q(r) == [ctx |-> r.ctx, since |-> -1, where |-> r.where]
Expected(r) ==
  IF r.kind = "ordered"
  THEN [keys |-> SliceKeys(Data, Q(r), r.f, r.desc, r.off, r.lim), selected |-> Eval(Data, Q(r))]
  ELSE [count |-> UnorderedCount(Data, Q(r), r.lim), selected |-> Eval(Data, Q(r))]

Init == req \in Requests
Next == UNCHANGED req
Spec == Init /\ [][Next]_req
Emit == PrintT(<<"CASE", ToJson([r |-> req, exp |-> Expected(req)])>>)
=============================================================================
