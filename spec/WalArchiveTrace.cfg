SPECIFICATION TSpec
CONSTANTS
  N = 0
  InitN = 0
  Shapes = {}
  GrowShapes = {}
  DirFaults = {}
  PreKinds = {}
  Mode = "trace"
  MaxSteps = 0
  StepKinds = {}
  Mutant = "none"
  DoPrint = FALSE
  Stride = 1
  Phase = 0
INVARIANT Judge
CHECK_DEADLOCK FALSE
