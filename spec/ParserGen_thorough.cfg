SPECIFICATION GSpec
CONSTANTS
  MaxDepth = 3
  Offsets = {1, 9}
  QLen = 3
  TripleMod = 2
  Families = {"expr", "query", "numeral", "replay", "store", "define", "remember", "simple", "auth", "plot", "batch", "kwident"}
INVARIANT Emit
CHECK_DEADLOCK FALSE
