SPECIFICATION Spec
CONSTANTS
  NA = 2
  NB = 3
  Links = {1, 2}
  Times = {10, 20, 30}
  PVals = {0, 1}
  Sample = 60
INVARIANT Emit
CHECK_DEADLOCK FALSE
