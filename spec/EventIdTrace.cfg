SPECIFICATION TSpec
CONSTANTS
  Shards = {0, 1, 2}
  SeqSpace = 4096
  ShardSpace = 1024
  T0 = 0
  MaxClock = 1000000
  Sizes = {1, 2, 3, 4, 5, 6}
  MaxIds = 1000000
  MaxRestart = 0
  MaxBack = 0
  MaxFlush = 0
  Fix = {}
  EngineOps = FALSE
INVARIANT Emit
CHECK_DEADLOCK FALSE
