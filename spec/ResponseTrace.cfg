SPECIFICATION TSpec
CONSTANTS
  Family = "none"
  Writers <- WriterKinds
  IdCells <- IdCellsQuick
  MaxBatches = 0
  MaxBatchLen = 0
  MaxRows = 0
  Limits <- NoLimit
  Offsets <- NoLimit
INVARIANT Summary
POSTCONDITION AllRead
CHECK_DEADLOCK FALSE
