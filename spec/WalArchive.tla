----------------------------- MODULE WalArchive -----------------------------
(* C19 - WAL files are deleted only after a complete, lossless archive exists.       *)
(*                                                                                  *)
(* Part 1  data: log files as sequences of items, archives, names.                   *)
(* Part 2  the property as predicates over what can be OBSERVED around one cleanup   *)
(*         (directory listings before/after, decoded archives, recovered entries):   *)
(*         Deleted only if archived (P1), any failure => nothing deleted (P2),       *)
(*         archives written are lossless (P3a), recovery = archives in log order     *)
(*         (P3b).  These predicates judge the real code (WalArchiveTrace) and the    *)
(*         reference machine below (Stage M).                                        *)
(* Part 3  the reference machine: WAL directory, archive directory, fault state of   *)
(*         the archive location, Cleanup(keepFrom) "archive every eligible log; if   *)
(*         any failed delete nothing; else delete".  Pure functions over a state     *)
(*         record, so that the trace spec can fold them over recorded steps.         *)
(* Part 4  the case generator: TLC enumerates (log population x fault pattern x      *)
(*         keepFrom [x follow-up steps]) and prints every behaviour with the         *)
(*         observation the reference machine predicts after every step.              *)
EXTENDS Integers, Sequences, FiniteSets, TLC, Json, SequencesExt

CONSTANTS
  N,            \* log ids 0..N-1
  InitN,        \* the initial population uses ids 0..InitN-1
  Shapes,       \* shapes of the initial logs (strings, see ShapeItems)
  GrowShapes,   \* shapes of logs added later
  DirFaults,    \* initial states of the archive location besides "ok"
  PreKinds,     \* kinds of a pre-existing archive at the deterministic name: "garbage", "stale"
  Mode,         \* "cases" : initial population + fault, then MaxSteps steps;  "flush" : rounds of the flush path
  MaxSteps,     \* steps after the initial population (cases) / rounds (flush)
  StepKinds,    \* subset of {"cleanup","heal","addlog","fault"} allowed after the first step
  Mutant,       \* "none" or a deliberately wrong reference machine (must be rejected by the predicates)
  DoPrint,        \* print behaviours (generation) or not (model checking only)
  Stride, Phase \* print only behaviours whose number is Phase modulo Stride (sampling for the quick tier)

NT == 2   \* event type classes
NC == 3   \* context id classes
NPC == 9  \* payload classes (concrete payloads live in checks/c19.py)

\* ---------------------------------------------------------------- Part 1: data
Torn  == [k |-> "torn"]     \* a line that does not parse as an entry (torn write, garbage)
Blank == [k |-> "blank"]    \* a whitespace-only line
Bad   == [k |-> "bad"]      \* a line that is not valid UTF-8: the file cannot be read as text
Item(e) == [k |-> "e", e |-> e]

\* the entries a log file holds, in file order (everything else on the file is not an entry)
Parsable(items) == LET sel == SelectSeq(items, LAMBDA x : x.k = "e") IN [j \in DOMAIN sel |-> sel[j].e]

SetMin(S) == CHOOSE x \in S : \A y \in S : x <= y
SetMax(S) == CHOOSE x \in S : \A y \in S : x >= y

\* archive file name wal-<id>-<start>-<end>.wal.zst as a triple; 0-0 for a file without entries
ArchName(l, items) ==
  LET es == Parsable(items) IN
  IF es = <<>> THEN <<l, 0, 0>>
  ELSE <<l, SetMin({es[j].ts : j \in DOMAIN es}), SetMax({es[j].ts : j \in DOMAIN es})>>

NameLt(a, b) == \/ a[1] < b[1]
                \/ a[1] = b[1] /\ a[2] < b[2]
                \/ a[1] = b[1] /\ a[2] = b[2] /\ a[3] < b[3]
SortNames(S) == SetToSortSeq(S, NameLt)
SortInts(S) == SetToSortSeq(S, LAMBDA a, b : a < b)

\* ---------------------------------------------------------------- Part 2: the property over observations
\* An observation: [wal : Seq(log id), vis : BOOLEAN (archive location can be listed),
\*                  arch : Seq([n : name, ok : BOOLEAN (decodes), es : Seq(Entry), cnt : header entry count]),
\*                  recst : "ok"|"err"|"skip", rec : Seq(Entry)]
\* content : log id -> items of that log file (log files are immutable once closed).

Seen(o) == IF o.vis THEN Range(o.arch) ELSE {}

\* a complete, lossless archive of log l: every entry, every field, original order
Complete(a, l, content) == a.n[1] = l /\ a.ok /\ a.es = Parsable(content[l])
HasComplete(o, l, content) == \E a \in Seen(o) : Complete(a, l, content)

Known(o, content) == Range(o.wal) \cap DOMAIN content
Deleted(before, after, content) == Known(before, content) \ Range(after.wal)

\* P1: a log file is deleted only after an archive containing all its entries has been written
P1(content, before, after) == \A l \in Deleted(before, after, content) : HasComplete(after, l, content)

\* P2: if archiving any eligible file failed, no log file is deleted
Eligible(before, kf, content) == {l \in Known(before, content) : l < kf}
P2(content, before, after, kf) ==
  (\E l \in Eligible(before, kf, content) : ~HasComplete(after, l, content))
     => Known(before, content) \subseteq Range(after.wal)

\* P3a: whatever the cleanup wrote into the archive directory is a lossless archive of the log it is named after
P3a(content, before, after) ==
  (before.vis /\ after.vis) =>
     \A a \in Seen(after) \ Seen(before) :
        /\ a.ok
        /\ a.n[1] \in DOMAIN content
        /\ a.es = Parsable(content[a.n[1]])
        /\ a.cnt = Len(a.es)

\* P3b: recovery returns the entries of the archives, archive by archive in log order, unchanged
LogOrder(o) ==  \* archives ordered by log id (ties: as listed)
  LET idx == SetToSortSeq(DOMAIN o.arch, LAMBDA i, j : o.arch[i].n[1] < o.arch[j].n[1] \/ (o.arch[i].n[1] = o.arch[j].n[1] /\ i < j))
  IN [k \in DOMAIN idx |-> o.arch[idx[k]]]
ExpectedRecover(o) == FlattenSeq([k \in DOMAIN o.arch |-> IF LogOrder(o)[k].ok THEN LogOrder(o)[k].es ELSE <<>>])
P3b(o) == (o.vis /\ o.recst # "skip") => (o.recst = "ok" /\ o.rec = ExpectedRecover(o))

Failing(content, before, after, kf) ==
  (IF P1(content, before, after) THEN {} ELSE {"P1-deleted-without-complete-archive"}) \cup
  (IF P2(content, before, after, kf) THEN {} ELSE {"P2-deleted-although-an-archive-failed"}) \cup
  (IF P3a(content, before, after) THEN {} ELSE {"P3a-archive-not-lossless"}) \cup
  (IF P3b(after) THEN {} ELSE {"P3b-recovery-differs-from-archives-in-log-order"})

\* ---------------------------------------------------------------- Part 3: reference machine
\* state: [logs : id -> items, arch : name -> [ok, es], dir, blocked : set of names, gone : set of [l, items]]
Empty == [logs |-> <<>>, arch |-> <<>>, dir |-> "ok", blocked |-> {}, gone |-> {}]
Hidden(s) == s.dir \in {"rootFile", "shardFile"}

AddLogF(s, l, items) == [s EXCEPT !.logs = [x \in DOMAIN s.logs \cup {l} |-> IF x = l THEN items ELSE s.logs[x]]]

\* f = [dir, block : Seq([n, kind]), unblock : Seq(name), pre : Seq([n, ok, es])]
FaultF(s, f) ==
  LET pn == {f.pre[j].n : j \in DOMAIN f.pre}
      pc(n) == LET j == CHOOSE j \in DOMAIN f.pre : f.pre[j].n = n IN [ok |-> f.pre[j].ok, es |-> f.pre[j].es]
  IN [s EXCEPT !.dir = f.dir,
               !.blocked = (s.blocked \ Range(f.unblock)) \cup {f.block[j].n : j \in DOMAIN f.block},
               !.arch = [n \in DOMAIN s.arch \cup pn |-> IF n \in pn THEN pc(n) ELSE s.arch[n]]]

Unreadable(items) == \E j \in DOMAIN items : items[j].k = "bad"

CleanupF(s, kf) ==
  LET elig == {l \in DOMAIN s.logs : IF Mutant = "deleteLE" THEN l <= kf ELSE l < kf}
      aelig == {l \in DOMAIN s.logs : l < kf}
      nm(l) == ArchName(l, s.logs[l])
      fails(l) == Hidden(s) \/ Unreadable(s.logs[l]) \/ nm(l) \in s.blocked
      okset == {l \in aelig : ~fails(l)}
      written == {nm(l) : l \in okset}
      body(l) == LET es == Parsable(s.logs[l]) IN
                 IF Mutant = "dropLastEntry" /\ Len(es) > 1 THEN SubSeq(es, 1, Len(es) - 1) ELSE es
      logof(n) == CHOOSE l \in okset : nm(l) = n
      anyfail == IF Mutant = "deleteOnPartialFailure" THEN okset = {} /\ aelig # {} ELSE \E l \in aelig : fails(l)
      del == IF anyfail THEN {} ELSE elig
  IN [s EXCEPT !.logs = [x \in DOMAIN s.logs \ del |-> s.logs[x]],
               !.arch = [n \in DOMAIN s.arch \cup written |->
                            IF n \in written THEN [ok |-> TRUE, es |-> body(logof(n))] ELSE s.arch[n]],
               !.dir = IF aelig # {} /\ s.dir \in {"noShard", "noRoot"} THEN "ok" ELSE s.dir,
               !.gone = s.gone \cup {[l |-> l, items |-> s.logs[l]] : l \in del}]

StepF(s, st) ==
  CASE st.op = "addlog"  -> AddLogF(s, st.l, st.items)
    [] st.op = "fault"   -> FaultF(s, st)
    [] st.op = "cleanup" -> CleanupF(s, st.kf)

Recover(arch) ==
  LET names == SortNames(DOMAIN arch)
      seqs == [j \in DOMAIN names |-> IF arch[names[j]].ok THEN arch[names[j]].es ELSE <<>>]
  IN IF Mutant = "reverseRecover" THEN FlattenSeq(Reverse(seqs)) ELSE FlattenSeq(seqs)

\* what the harness would observe in state s
ObsOf(s) ==
  LET names == SortNames(DOMAIN s.arch)
      vis == ~Hidden(s)
  IN [wal |-> SortInts(DOMAIN s.logs), vis |-> vis,
      arch |-> IF vis THEN [j \in DOMAIN names |->
                              [n |-> names[j], ok |-> s.arch[names[j]].ok,
                               es |-> IF s.arch[names[j]].ok THEN s.arch[names[j]].es ELSE <<>>,
                               cnt |-> IF s.arch[names[j]].ok THEN Len(s.arch[names[j]].es) ELSE 0]]
               ELSE <<>>,
      recst |-> "ok",
      rec |-> IF vis THEN Recover(s.arch) ELSE <<>>]

\* equality of an observation with an expected one (archives are compared only while they can be listed;
\* the header count is not part of the expectation)
ArchProj(o) == [j \in DOMAIN o.arch |-> [n |-> o.arch[j].n, ok |-> o.arch[j].ok, es |-> o.arch[j].es]]
\* known = the log ids whose files the behaviour has created so far (the writer's open log is not one of them)
ObsEq(o, e, known) == /\ Range(o.wal) \cap known = Range(e.wal)
               /\ o.vis = e.vis
               /\ e.vis => /\ ArchProj(o) = ArchProj(e)
                           /\ o.recst = "skip" \/ (o.recst = "ok" /\ o.rec = e.rec)

RECURSIVE RunF(_, _)
RunF(s, steps) == IF steps = <<>> THEN <<>> ELSE LET s2 == StepF(s, Head(steps)) IN <<s2>> \o RunF(s2, Tail(steps))

RECURSIVE ContentOf(_)
ContentOf(steps) ==
  IF steps = <<>> THEN <<>>
  ELSE LET c == ContentOf(Front(steps)) st == Last(steps) IN
       IF st.op = "addlog" THEN [x \in DOMAIN c \cup {st.l} |-> IF x = st.l THEN st.items ELSE c[x]] ELSE c

\* ---------------------------------------------------------------- Part 4: generator / model
VARIABLES st, steps, salt, nsteps, serial
vars == <<st, steps, salt, nsteps, serial>>

En(l, i, ts, sl) == Item([t |-> ((l + i + sl) % NT) + 1, c |-> ((l + 2 * i + sl) % NC) + 1, ts |-> ts,
                         id |-> 10 * l + i, p |-> ((3 * l + i + sl) % NPC) + 1])
Sentinel == [t |-> 1, c |-> 1, ts |-> 1, id |-> 999, p |-> 2]

ShapeItems(sh, l, sl) ==
  CASE sh = "empty"    -> <<>>
    [] sh = "one"      -> <<En(l, 1, l + 1, sl)>>
    [] sh = "two"      -> <<En(l, 1, l + 2, sl), En(l, 2, l + 1, sl)>>      \* timestamps descending: start/end are min/max
    [] sh = "full"     -> <<En(l, 1, l + 1, sl), En(l, 2, l + 2, sl)>>
    [] sh = "tornLast" -> <<En(l, 1, l + 1, sl), Torn>>
    [] sh = "onlyTorn" -> <<Torn>>
    [] sh = "mixed"    -> <<Blank, En(l, 1, l + 1, sl), Torn, En(l, 2, l + 3, sl), Blank, Torn>>
    [] sh = "bad"      -> <<En(l, 1, l + 1, sl), Bad>>

ShapeIdx(sh) == CASE sh = "empty" -> 1 [] sh = "one" -> 2 [] sh = "two" -> 3 [] sh = "full" -> 4 [] sh = "tornLast" -> 5
                  [] sh = "onlyTorn" -> 6 [] sh = "mixed" -> 7 [] sh = "bad" -> 8
DirIdx(d) == CASE d = "ok" -> 0 [] d = "noShard" -> 1 [] d = "noRoot" -> 2 [] d = "rootFile" -> 3 [] d = "shardFile" -> 4
\* only used to number behaviours for sampling (Stride / Phase)
StepHash(x) == CASE x.op = "cleanup" -> 2 + x.kf
                 [] x.op = "addlog" -> 17 + 3 * Len(x.items) + x.l
                 [] x.op = "fault" -> 29 + DirIdx(x.dir) * 5 + Len(x.block) * 3 + Len(x.unblock) * 7 + Len(x.pre) * 11
                                      + (IF x.block = <<>> THEN 0 ELSE x.block[1].n[1])

BlockKinds == <<"dir", "devfull", "dangling">>
BlockRec(n, sl) == [n |-> n, kind |-> BlockKinds[((n[1] + sl) % 3) + 1]]
PreRec(n, kind, l, items) ==
  IF kind = "garbage" THEN [n |-> n, ok |-> FALSE, es |-> <<>>, kind |-> kind]
  ELSE [n |-> n, ok |-> TRUE, es |-> <<Sentinel>>, kind |-> kind]   \* a valid archive of something else under this name

Via(k) == IF k % 2 = 0 THEN "new" ELSE "with_wal_dir"


\* initial population and fault pattern ("cases" mode)
CasesInit ==
  \E S \in SUBSET (0 .. (InitN - 1)) \ {{}} :
  \E shp \in [S -> Shapes] :
  \E d \in DirFaults \cup {"ok"} :
  \E B \in SUBSET S :
  \E pre \in {<<>>} \cup ((S \ B) \X PreKinds) :
    /\ d # "ok" => (B = {} /\ pre = <<>>)
    /\ LET sl == (2 * Cardinality(S) + Cardinality(B) + (IF pre = <<>> THEN 0 ELSE 1 + pre[1]) + (IF d = "ok" THEN 0 ELSE 4)
                  + SetMin(S)) % NPC
           items(l) == ShapeItems(shp[l], l, sl)
           ids == SortInts(S)
           adds == [j \in DOMAIN ids |-> [op |-> "addlog", l |-> ids[j], items |-> items(ids[j])]]
           blk == SortNames({ArchName(l, items(l)) : l \in B})
           f == [op |-> "fault", dir |-> d,
                 block |-> [j \in DOMAIN blk |-> BlockRec(blk[j], sl)],
                 unblock |-> <<>>,
                 pre |-> IF pre = <<>> THEN <<>>
                         ELSE <<PreRec(ArchName(pre[1], items(pre[1])), pre[2], pre[1], items(pre[1]))>>]
           all == adds \o <<f>>
       IN /\ steps = all
          /\ st = Last(RunF(Empty, all))
          /\ salt = sl
          /\ serial = (LET RECURSIVE h(_)
                            h(T) == IF T = {} THEN 0 ELSE LET l == SetMin(T) IN (h(T \ {l}) * 11 + ShapeIdx(shp[l]) * (l + 2)) % 9973
                        IN h(S) * 13 + DirIdx(d) * 7 + Cardinality(B) * 5 + (IF pre = <<>> THEN 0 ELSE 3 + pre[1] + 2 * Len(pre[2]))) % 9973
  /\ nsteps = 0

FlushInit == /\ st = Empty /\ steps = <<>> /\ salt = 0 /\ nsteps = 0 /\ serial = 0

Init == IF Mode = "cases" THEN CasesInit ELSE FlushInit

HealStep(s) == [op |-> "fault", dir |-> "ok", block |-> <<>>, unblock |-> SortNames(s.blocked), pre |-> <<>>]
EverIds(sq) == {sq[j].l : j \in {j \in DOMAIN sq : sq[j].op = "addlog"}}

DoSteps(new) == /\ steps' = steps \o new
                /\ st' = Last(RunF(st, new))
                /\ nsteps' = nsteps + 1
                /\ serial' = (serial * 31 + StepHash(new[IF Len(new) > 1 THEN 2 ELSE 1]) + 3 * nsteps + 1) % 9973
                /\ UNCHANGED salt

More == nsteps < MaxSteps
NotLast == nsteps + 1 < MaxSteps   \* a behaviour ends with a cleanup: environment steps are not taken last
CleanupAct == /\ More /\ Mode = "cases" /\ ("cleanup" \in StepKinds \/ nsteps = 0)
              /\ \E kf \in 0 .. N : DoSteps(<<[op |-> "cleanup", kf |-> kf, via |-> Via(kf + nsteps + salt)]>>)
HealAct == /\ More /\ NotLast /\ Mode = "cases" /\ "heal" \in StepKinds /\ nsteps > 0
           /\ (st.dir # "ok" \/ st.blocked # {})
           /\ DoSteps(<<HealStep(st)>>)
AddLogAct == /\ More /\ NotLast /\ Mode = "cases" /\ "addlog" \in StepKinds /\ nsteps > 0
             /\ LET nxt == SetMax(EverIds(steps)) + 1 IN
                /\ nxt < N
                /\ \E sh \in GrowShapes : DoSteps(<<[op |-> "addlog", l |-> nxt, items |-> ShapeItems(sh, nxt, salt)]>>)

\* the environment changes the fault state of the archive location between two cleanups
FaultAct ==
  /\ More /\ Mode = "cases" /\ "fault" \in StepKinds /\ NotLast /\ nsteps > 0
  /\ LET nameOf(l) == ArchName(l, st.logs[l])
         cand == {nameOf(l) : l \in DOMAIN st.logs} \ DOMAIN st.arch
     IN \E d \in DirFaults \cup {"ok"} : \E B \in SUBSET cand :
        \E pre \in {<<>>} \cup ({l \in DOMAIN st.logs : nameOf(l) \notin B} \X PreKinds) :
          /\ d \in {"noShard", "noRoot"} => (B = {} /\ pre = <<>> /\ DOMAIN st.arch = {})
          /\ LET nb == SortNames(B \ st.blocked)
                 f == [op |-> "fault", dir |-> d, block |-> [j \in DOMAIN nb |-> BlockRec(nb[j], salt + nsteps)],
                       unblock |-> SortNames(st.blocked \ B),
                       pre |-> IF pre = <<>> THEN <<>>
                               ELSE <<PreRec(nameOf(pre[1]), pre[2], pre[1], st.logs[pre[1]])>>]
             IN DoSteps(<<f>>)

\* one round of the flush path: the writer closes log r, the environment changes the fault state of the archive
\* location, the flush worker calls cleanup_up_to(r + 1)
FlushRound ==
  /\ More /\ Mode = "flush"
  /\ LET r == nsteps
         add == [op |-> "addlog", l |-> r, items |-> ShapeItems("full", r, salt)]
         s1 == AddLogF(st, r, add.items)
         cand == {ArchName(l, s1.logs[l]) : l \in DOMAIN s1.logs} \ DOMAIN s1.arch
     IN \E d \in {"ok", "shardFile", "rootFile"} : \E B \in SUBSET cand :
          /\ d # "ok" => B = st.blocked
          /\ LET nb == SortNames(B \ st.blocked)
                 f == [op |-> "fault", dir |-> d, block |-> [j \in DOMAIN nb |-> BlockRec(nb[j], salt + r)],
                       unblock |-> SortNames(st.blocked \ B), pre |-> <<>>]
             IN DoSteps(<<add, f, [op |-> "cleanup", kf |-> r + 1, via |-> "flush"]>>)

Next == CleanupAct \/ HealAct \/ AddLogAct \/ FaultAct \/ FlushRound

Spec == Init /\ [][Next]_vars

\* ---- Stage M: the reference machine satisfies the property predicates on every cleanup it performs
Content == ContentOf(steps)
LastCleanupJudged ==
  (steps # <<>> /\ Last(steps).op = "cleanup") =>
     LET states == RunF(Empty, steps)
         k == Len(steps)
         before == IF k = 1 THEN ObsOf(Empty) ELSE ObsOf(states[k - 1])
     IN Failing(Content, before, ObsOf(states[k]), Last(steps).kf) = {}

\* ghost-based statement of the same: every deleted log has a complete archive now and for ever after
GoneAreArchived ==
  \A g \in st.gone : \E n \in DOMAIN st.arch : n[1] = g.l /\ st.arch[n].ok /\ st.arch[n].es = Parsable(g.items)

\* recovery restricted to the entries of deleted logs = those logs' entries, in log order
GoneRecovered ==
  LET gl == SortInts({g.l : g \in st.gone})
      itemsOf(l) == (CHOOSE g \in st.gone : g.l = l).items
      want == FlattenSeq([j \in DOMAIN gl |-> Parsable(itemsOf(gl[j]))])
      ids == {want[j].id : j \in DOMAIN want}
  IN SelectSeq(Recover(st.arch), LAMBDA e : e.id \in ids) = want

\* a log id is never deleted twice and never comes back
NoResurrection == \A g \in st.gone : g.l \notin DOMAIN st.logs

\* ---- generation
\* expectations are printed for the steps after the initial population (the population steps only create log files)
Emit ==
  (DoPrint /\ nsteps = MaxSteps /\ Last(steps).op = "cleanup" /\ serial % Stride = Phase % Stride) =>
     PrintT(<<"BEH", ToJson([steps |-> steps,
                              exp |-> LET states == RunF(Empty, steps)
                                          js == SelectSeq([j \in DOMAIN steps |-> j], LAMBDA j : steps[j].op # "addlog" \/ Mode = "flush")
                                      IN [x \in DOMAIN js |-> [i |-> js[x], o |-> ObsOf(states[js[x]])]]])>>)
=============================================================================
