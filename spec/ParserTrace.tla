---------------------------- MODULE ParserTrace ----------------------------
(* Stage T for C17: recorded executions of the real parse_command /           *)
(* dispatch_command (one JSON object per line in the file named by the         *)
(* environment variable TRACE) are re-judged with the operators of Parser:     *)
(*   - every record: the parse outcome is "ok" or "err" (totality), and if a   *)
(*     command was returned and dispatched, a response was produced and no     *)
(*     task panicked;                                                          *)
(*   - records of family "tokexpr" carry the token sequence that was rendered  *)
(*     into the WHERE position; the real result must be exactly what the       *)
(*     reference parser RefParse yields for these tokens (same tree, or both   *)
(*     reject) unless a numeral is not representable (then totality only).     *)
(* One state per record; bad records are printed (the runner attributes them   *)
(* to known findings by signature or reports them).                            *)
EXTENDS Parser, Json, IOUtils

Recs == ndJsonDeserialize(IOEnv.TRACE)
N == Len(Recs)

\* the mutation classes of the totality exploration (strings are drawn by the runner)
MutationClasses == {"truncate", "unbalance", "numeral", "nest-paren", "nest-not", "nest-json", "non-ascii",
                    "keyword-ident", "token-drop", "token-dup", "token-swap", "char-flip", "garbage", "json-entry", "whitespace", "case-map"}
TokClasses == {"wf", "wf-redundant", "tok-drop", "tok-dup", "tok-swap", "tok-insert", "tok-random"}

JudgeTotal(r) == IF ~ParseTotal(r.outcome) THEN "nontotal-parse"
                 ELSE IF r.outcome = "ok" /\ r.disp # "none" /\ ~DispatchTotal(r.disp, r.tp) THEN "nontotal-dispatch"
                 ELSE "ok"
JudgeTree(r) == LET e == Expected(r.toks)
                IN  IF e.kind # "exact" \/ ~ParseTotal(r.outcome) THEN "ok"
                    ELSE IF e.res.ok /\ r.outcome = "err" THEN "rejected-wellformed"
                    ELSE IF ~e.res.ok /\ r.outcome = "ok" THEN "accepted-illformed"
                    ELSE IF e.res.ok /\ r.tree # e.res.tree THEN "wrong-tree"
                    ELSE "ok"
Judge(r) == IF r.fam = "tokexpr" /\ r.cls \notin TokClasses THEN "unknown-class"
            ELSE IF r.fam = "total" /\ r.cls \notin MutationClasses THEN "unknown-class"
            ELSE IF JudgeTotal(r) # "ok" THEN JudgeTotal(r)
            ELSE IF r.fam = "tokexpr" THEN JudgeTree(r)
            ELSE "ok"

TInit == c \in 1..N
TNext == UNCHANGED c
TSpec == TInit /\ [][TNext]_c
Report == LET j == Judge(Recs[c]) IN j = "ok" \/ PrintT(<<"BAD", ToJson([i |-> c, why |-> j])>>)

\* anti-vacuity, measured over the trace: per class the number of records and of accepted inputs,
\* for tokexpr the number of sequences the reference parser accepts / rejects
ASSUME PrintT(<<"STATS", ToJson([
   n |-> N,
   classes |-> [cl \in MutationClasses \cup TokClasses |-> Cardinality({i \in 1..N : Recs[i].cls = cl})],
   accepted |-> Cardinality({i \in 1..N : Recs[i].outcome = "ok"}),
   refused |-> Cardinality({i \in 1..N : Recs[i].outcome = "err"}),
   dispatched |-> Cardinality({i \in 1..N : Recs[i].outcome = "ok" /\ Recs[i].disp # "none"}),
   ref_accepts |-> Cardinality({i \in 1..N : Recs[i].fam = "tokexpr" /\ Expected(Recs[i].toks).kind = "exact" /\ Expected(Recs[i].toks).res.ok}),
   ref_rejects |-> Cardinality({i \in 1..N : Recs[i].fam = "tokexpr" /\ Expected(Recs[i].toks).kind = "exact" /\ ~Expected(Recs[i].toks).res.ok})
   ])>>)
=============================================================================
