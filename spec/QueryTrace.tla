----------------------------- MODULE QueryTrace -----------------------------
(* Stage T for C02: every recorded (data, request, observed result) of a real    *)
(* run is re-judged with Query!Eval.  Records come from an NDJSON file:          *)
(*   {"data":[{"k":..,"c":..,"ts":..,"f":{..}},..]}          (sets the data)     *)
(*   {"q":{ctx,since,where}, "got":[k,...], "id":n}          (one observed read) *)
EXTENDS Query, Json, IOUtils

Rec == ndJsonDeserialize(IOEnv.TRACE)

\* JSON arrays arrive as sequences; normalise the sets inside expressions
RECURSIVE Norm(_)
Norm(x) ==
  CASE x.tag = "in"  -> [tag |-> "in", f |-> x.f, vs |-> {x.vs[i] : i \in DOMAIN x.vs}]
    [] x.tag = "and" -> [tag |-> "and", l |-> Norm(x.l), r |-> Norm(x.r)]
    [] x.tag = "or"  -> [tag |-> "or", l |-> Norm(x.l), r |-> Norm(x.r)]
    [] x.tag = "not" -> [tag |-> "not", e |-> Norm(x.e)]
    [] OTHER -> x

DataOf(r) == {r.data[i] : i \in DOMAIN r.data}
\* index of the data record in force for record i (the closest earlier one)
RECURSIVE DataIdx(_)
DataIdx(i) == IF "data" \in DOMAIN Rec[i] THEN i ELSE DataIdx(i - 1)

Bad == {i \in DOMAIN Rec : "q" \in DOMAIN Rec[i] /\
          LET r == Rec[i]
              d == DataOf(Rec[DataIdx(i)])
              want == Eval(d, [ctx |-> r.q.ctx, since |-> r.q.since, where |-> Norm(r.q.where)])
              got == {r.got[j] : j \in DOMAIN r.got}
          IN want # got \/ Len(r.got) # Cardinality(got)}

ASSUME PrintT(<<"JUDGED", Cardinality({i \in DOMAIN Rec : "q" \in DOMAIN Rec[i]})>>)
ASSUME PrintT(<<"BAD", ToJson({Rec[i].id : i \in Bad})>>)

VARIABLE dummy
Init == dummy = 0
Next == UNCHANGED dummy
Spec == Init /\ [][Next]_dummy
=============================================================================
