SPECIFICATION Spec
CONSTANTS
  N = 4
  InitN = 0
  Shapes = {}
  GrowShapes = {}
  DirFaults = {}
  PreKinds = {}
  Mode = "flush"
  MaxSteps = 3
  StepKinds = {}
  Mutant = "none"
  DoPrint = TRUE
  Stride = 1
  Phase = 0
INVARIANTS Emit LastCleanupJudged GoneAreArchived GoneRecovered NoResurrection
CHECK_DEADLOCK FALSE
