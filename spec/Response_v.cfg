SPECIFICATION Spec
CONSTANTS
  Family = "V"
  Writers <- WriterKinds
  IdCells <- IdCellsQuick
  MaxBatches = 1
  MaxBatchLen = 3
  MaxRows = 3
  Limits <- NoLimit
  Offsets <- NoLimit
INVARIANTS Counters MachineIsDecl NoRepeatedId RunIsSteps Emit
CHECK_DEADLOCK FALSE
