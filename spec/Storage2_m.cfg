SPECIFICATION GenSpec
CONSTANTS
  Cap = 2
  K = 2
  TypesA = {"a"}
  TypesB = {"p"}
  Ctxs = {"c1"}
  MaxEv = 3
  MaxCrash = 2
  MaxFlush = 1
  MaxCompact = 1
  Fix = {"prune-by-content", "replay-skips-published", "live-from-index", "reads-use-index", "alloc-past-wal", "replay-sorted-by-id", "alloc-fresh-dirs"}
  FlushCrash = {"start", "partial", "written", "published", "cleared"}
  CompactCrash = {"out", "idx", "norecl"}
  QuiescentCrash = TRUE
  CleanRestarts = TRUE
  GenLen = 6
INVARIANTS DurableBoth NoForeignBoth RestartTogether FlushTogether
CHECK_DEADLOCK FALSE
