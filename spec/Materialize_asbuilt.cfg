SPECIFICATION Spec
CONSTANTS
  MaxEv = 4
  MaxTick = 4
  TicksPerSec = 2
  Fix = {}
  MaxShow = 2
INVARIANT MatOnlyMatching
PROPERTY ShowComplete
CHECK_DEADLOCK FALSE
