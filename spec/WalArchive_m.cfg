SPECIFICATION Spec
CONSTANTS
  N = 3
  InitN = 2
  Shapes = {"two", "tornLast", "bad"}
  GrowShapes = {"one", "bad", "mixed"}
  DirFaults = {"noShard", "noRoot", "rootFile", "shardFile"}
  PreKinds = {"garbage", "stale"}
  Mode = "cases"
  MaxSteps = 3
  StepKinds = {"cleanup", "heal", "addlog", "fault"}
  Mutant = "none"
  DoPrint = FALSE
  Stride = 1
  Phase = 0
INVARIANTS LastCleanupJudged GoneAreArchived GoneRecovered NoResurrection
CHECK_DEADLOCK FALSE
