SPECIFICATION LiveSpec
CONSTANTS
  Shards = {1}
  SeqSpace = 4
  ShardSpace = 2
  T0 = 1
  MaxClock = 4
  Sizes = {1, 5}
  MaxIds = 6
  MaxRestart = 1
  MaxBack = 1
  MaxFlush = 0
  Fix = {"restore-from-store"}
  EngineOps = FALSE
PROPERTIES WaitEnds
CHECK_DEADLOCK FALSE
