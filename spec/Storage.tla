------------------------------- MODULE Storage -------------------------------
(***************************************************************************)
(* SnelDB storage protocol of ONE shard: WAL, memtable, rotation, flush    *)
(* pipeline, WAL pruning, compaction hand-over, crash and start-up, and    *)
(* what a read returns.  Serves C01, C04, C05, C11 (and supplies layouts   *)
(* to the functional modules).                                             *)
(*                                                                         *)
(* Two parameterisations through the constant Fix (a set of repair names): *)
(*   Fix = AllFixes  - the DESIGN: what the properties demand; TLC must    *)
(*                     find no invariant violation.                        *)
(*   Fix = {}        - AS BUILT: transcribes what the pinned code does.    *)
(*                     Its counterexamples are the known findings, and the *)
(*                     real engine is replayed against its predictions.    *)
(* Every place where the two differ is an                                  *)
(*     IF "name" \in Fix THEN intended ELSE as-built                       *)
(* branch; the as-built side records a defect name in `fired` when it      *)
(* actually makes a difference in the run.                                 *)
(*                                                                         *)
(* Granularity: a client command (STORE / FLUSH / compaction round) runs   *)
(* its background pipeline to completion, or up to a named crash point     *)
(* (same names as the cfg-gated hooks in the code) after which the process *)
(* dies and start-up runs on what is on disk.                              *)
(***************************************************************************)
EXTENDS Naturals, Integers, Sequences, FiniteSets, TLC, SequencesExt, FiniteSetsExt

CONSTANTS
  Cap,        \* memtable capacity = fill_factor * event_per_zone
  K,          \* segments_per_merge
  Types,      \* event types (uids)
  Ctxs,       \* context ids
  MaxEv,      \* bound on the number of STOREs
  MaxCrash,   \* bound on restarts
  MaxFlush,   \* bound on manual FLUSHes
  MaxCompact, \* bound on compaction rounds
  Fix,        \* set of repair names in force
  FlushCrash, \* subset of FlushStages \ {"none"}: flush-pipeline crash points explored
  CompactCrash, \* subset of CompactStages \ {"none"}
  QuiescentCrash, \* BOOLEAN: crash between two commands explored
  CleanRestarts   \* BOOLEAN: graceful shutdown + restart explored

AllFixes == {"prune-by-content", "replay-skips-published", "live-from-index",
             "reads-use-index", "alloc-past-wal", "replay-sorted-by-id", "alloc-fresh-dirs"}

L1Base == 10000                 \* LEVEL_SPAN in segment_id.rs
Level(s) == s \div L1Base

\* flush pipeline stages at which the process may die (hook names in comments)
\*   "start"    flush.start            rotation done, nothing on disk yet
\*   "partial"  flusher.type_written#1 files of some but not all types written, no index entry
\*   "written"  flush.written          all files + segments.idx entry on disk, not yet in live list
\*   "published" flush.published       in the live list, passive copy still held
\*   "cleared"  flush.passive_cleared  passive copy released, WAL not yet pruned
\*   "none"     pipeline completes (flush.wal_cleaned)
FlushStages == {"start", "partial", "written", "published", "cleared", "none"}
\* compaction crash points
\*   "out"      compact.output_written#1   first batch's output directory complete, index old
\*   "idx"      compact.index_saved#1      first batch handed over in the index, inputs still on disk
\*   "norecl"   reclaim.renaming#1         all batches handed over, no input reclaimed yet
\*   "none"     round completes (drained inputs deleted)
CompactStages == {"out", "idx", "norecl", "none"}

VARIABLES
  nstored,   \* number of STOREs issued so far (next k = nstored + 1)
  mem,       \* active memtable: Seq(Ev) in insertion order
  wal,       \* [log id -> Seq(Ev)]: wal-NNNNN.log files on disk
  walCur,    \* id of the log the writer appends to
  walCnt,    \* writer's entries_written
  walLinked, \* FALSE once the cleaner has unlinked the file the writer holds open
  dirs,      \* [segment id -> [Types -> Seq(Ev)]]: segment directories; <<>> = no files for that uid
  idx,       \* [segment id -> SUBSET Types]: segments.idx
  live,      \* set of segment ids in the in-memory live list
  nextL0,    \* shard allocator: next L0 id
  ncrash, nflush, ncompact,
  \* ghosts
  applied,   \* Seq(Ev): every STORE applied, in order
  fired,     \* names of as-built defects that made a difference so far
  seenIds    \* segment ids that named a directory at some time in this process lifetime
             \* (the per-segment caches of a process are keyed by that label)

vars == <<nstored, mem, wal, walCur, walCnt, walLinked, dirs, idx, live, nextL0,
          ncrash, nflush, ncompact, applied, fired, seenIds>>

-----------------------------------------------------------------------------
\* helpers
SeqSet(s) == {s[i] : i \in DOMAIN s}
MaxOr(S, d) == IF S = {} THEN d ELSE Max(S)
OfType(s, t) == SelectSeq(s, LAMBDA e : e.t = t)
OfCtx(s, c) == SelectSeq(s, LAMBDA e : e.c = c)
TypesIn(evs) == {e.t : e \in SeqSet(evs)}
\* files written for a memtable: per type the rows (the flusher walks contexts in sorted
\* order; only the per-(type, context) order is observable, and it is insertion order)
FilesOf(evs, ts) == [t \in Types |-> IF t \in ts THEN OfType(evs, t) ELSE <<>>]
SortedSeq(S) == SortSeq(SetToSeq(S), <)
RECURSIVE CatRows(_, _, _)
CatRows(d, ss, t) == IF ss = <<>> THEN <<>> ELSE d[Head(ss)][t] \o CatRows(d, Tail(ss), t)
RECURSIVE CatLogs(_, _)
CatLogs(w, ids) == IF ids = <<>> THEN <<>> ELSE w[Head(ids)] \o CatLogs(w, Tail(ids))
Count(seq, e) == Cardinality({i \in DOMAIN seq : seq[i] = e})

\* does a read of type t open segment s ?
SegReadableIn(d, ix, s, t) ==
  IF "reads-use-index" \in Fix
  THEN s \in DOMAIN ix /\ t \in ix[s] /\ s \in DOMAIN d
  ELSE s \in DOMAIN d /\ d[s][t] # <<>>       \* as built: <uid>.zones exists in the directory

\* what a read of type t sees at quiescence: the segment flow (lexical segment order) and
\* the memtable flow.  As built the two flows are merged in arrival order.
SegRows(t) == CatRows(dirs, SortedSeq({s \in live : SegReadableIn(dirs, idx, s, t)}), t)
MemRows(t) == OfType(mem, t)
ReadRows(t) == IF "replay-sorted-by-id" \in Fix
               THEN SortSeq(SegRows(t) \o MemRows(t), LAMBDA x, y : x.k < y.k)
               ELSE SegRows(t) \o MemRows(t)

-----------------------------------------------------------------------------
Init ==
  /\ nstored = 0 /\ mem = <<>>
  /\ wal = (0 :> <<>>) /\ walCur = 0 /\ walCnt = 0 /\ walLinked = TRUE
  /\ dirs = <<>> /\ idx = <<>> /\ live = {} /\ nextL0 = 0
  /\ ncrash = 0 /\ nflush = 0 /\ ncompact = 0
  /\ applied = <<>> /\ fired = {} /\ seenIds = {}

\* ---- WAL writer task: append one entry, rotate when entries_written reaches Cap
WalAppend(w, cur, cnt, linked, e) ==
  LET w1   == IF linked THEN [w EXCEPT ![cur] = @ \o <<e>>] ELSE w   \* unlinked file: write is lost
      cnt1 == cnt + 1
  IN IF cnt1 >= Cap
     THEN [wal |-> w1 @@ ((cur + 1) :> <<>>), cur |-> cur + 1, cnt |-> 0, linked |-> TRUE]
     ELSE [wal |-> w1, cur |-> cur, cnt |-> cnt1, linked |-> linked]

\* ---- which log files the cleaner removes after segment s was published
Prunable(w, s, published, cur) ==
  IF "prune-by-content" \in Fix
  THEN {i \in DOMAIN w : i # cur /\ SeqSet(w[i]) \subseteq published}
  ELSE {i \in DOMAIN w : i < s + 1}                  \* as built: cleanup_up_to(segment_id + 1)

\* the worker recovers a missing index by scanning directories for <uid>.zones files
RecoveredIdx(d) == [s \in {s \in DOMAIN d : \E t \in Types : d[s][t] # <<>>} |->
                      {t \in Types : d[s][t] # <<>>}]

StageGE(stage, what) ==
  CASE what = "written"   -> stage \in {"written", "published", "cleared", "none"}
    [] what = "published" -> stage \in {"published", "cleared", "none"}
    [] what = "cleaned"   -> stage = "none"

\* The flush pipeline of one job j = [seg, evs] run up to `stage`; `part` is the set of types
\* whose files exist when stage = "partial".  st = [dirs, idx, live, wal, cur, linked].
FlushTo(stage, part, j, st) ==
  LET ne   == j.evs # <<>>
      d1   == IF ~ne THEN st.dirs
              ELSE IF StageGE(stage, "written") THEN st.dirs @@ (j.seg :> FilesOf(j.evs, Types))
              ELSE IF stage = "partial" THEN st.dirs @@ (j.seg :> FilesOf(j.evs, part))
              ELSE st.dirs
      \* SegmentIndex::load with no segments.idx on disk "recovers" an index by scanning the
      \* directories for <uid>.zones files (adopting whatever a crash left behind), then the
      \* new entry is inserted and the file saved
      i0   == IF st.idx = <<>> THEN RecoveredIdx(d1) ELSE st.idx
      i1   == IF ne /\ StageGE(stage, "written") THEN (j.seg :> TypesIn(j.evs)) @@ i0 ELSE st.idx
      l1   == IF ne /\ StageGE(stage, "published") THEN st.live \cup {j.seg} ELSE st.live
      pub  == UNION {SeqSet(d1[s][t]) : s \in l1 \cap DOMAIN d1, t \in Types}
      del  == IF ne /\ StageGE(stage, "cleaned") THEN Prunable(st.wal, j.seg, pub, st.cur) ELSE {}
      lost == {i \in del : ~(SeqSet(st.wal[i]) \subseteq pub)}
  IN [dirs |-> d1, idx |-> i1, live |-> l1, wal |-> Restrict(st.wal, DOMAIN st.wal \ del),
      cur |-> st.cur, linked |-> (st.linked /\ st.cur \notin del),
      firedNow |-> (IF lost # {} \/ (st.cur \in del) THEN {"prune-by-segment-id"} ELSE {})]

\* ---- start-up on what is on disk (ShardContext::new, SegmentIdLoader, InnerWalWriter::new,
\* WalRecovery): returns the volatile state of the new lifetime.
Startup(w, d, ix) ==
  LET l0    == {s \in DOMAIN d : Level(s) = 0}
      wids  == DOMAIN w
      last  == MaxOr(wids, 0)
      liveS == IF "live-from-index" \in Fix THEN DOMAIN ix \cap DOMAIN d
               ELSE DOMAIN d                         \* as built: every numeric directory name
      pub   == UNION {SeqSet(d[s][t]) : s \in liveS, t \in Types}
      all   == CatLogs(w, SortedSeq(wids))
      rep   == IF "replay-skips-published" \in Fix
               THEN SelectSeq(all, LAMBDA e : e \notin pub)
               ELSE all                              \* as built: every line of every log
      nl0   == IF "alloc-past-wal" \in Fix
               THEN Max({0} \cup {s + 1 : s \in l0} \cup {i + 1 : i \in wids})
               ELSE MaxOr({s + 1 : s \in l0}, 0)     \* as built: max L0 directory + 1
      \* find_next_wal_id: 0 if the last id is 0; else last if it has room, else last + 1
      full  == wids # {} /\ Len(w[last]) >= Cap
      cur   == IF last = 0 THEN 0 ELSE IF full THEN last + 1 ELSE last
      w1    == IF cur \in wids THEN w ELSE w @@ (cur :> <<>>)
  IN [mem |-> rep, live |-> liveS, nextL0 |-> nl0, wal |-> w1, cur |-> cur, cnt |-> Len(w1[cur]),
      firedNow |-> (IF \E i \in DOMAIN rep : rep[i] \in pub THEN {"replay-of-published"} ELSE {})
                   \cup (IF liveS # DOMAIN ix \cap DOMAIN d THEN {"live-from-dirs"} ELSE {})]

\* common tail of every action that ends the lifetime: r = [dirs, idx, wal] on disk
Restarted(r, extraFired) ==
  LET s == Startup(r.wal, r.dirs, r.idx) IN
  \* design: start-up removes directories the index does not name (left by a crash)
  /\ dirs' = IF "live-from-index" \in Fix THEN Restrict(r.dirs, DOMAIN r.dirs \cap DOMAIN r.idx)
             ELSE r.dirs
  /\ idx' = r.idx
  /\ mem' = s.mem /\ live' = s.live /\ nextL0' = s.nextL0
  /\ wal' = s.wal /\ walCur' = s.cur /\ walCnt' = s.cnt /\ walLinked' = TRUE
  /\ fired' = fired \cup extraFired \cup s.firedNow
  /\ seenIds' = DOMAIN r.dirs
  /\ ncrash' = ncrash + 1

\* ---- STORE: WAL append (separate task; the replay harness drains it before the next
\* command and before a crash), memtable insert, rotation + flush pipeline if full.
\* crash = "none": pipeline completes.  Otherwise the process dies at that stage.
Store(t, c, crash, part) ==
  /\ nstored < MaxEv
  /\ LET e  == [k |-> nstored + 1, t |-> t, c |-> c]
         wa == WalAppend(wal, walCur, walCnt, walLinked, e)
         m1 == mem \o <<e>>
         st == [dirs |-> dirs, idx |-> idx, live |-> live, wal |-> wa.wal, cur |-> wa.cur,
                linked |-> wa.linked]
     IN /\ nstored' = nstored + 1
        /\ applied' = applied \o <<e>>
        /\ IF Len(m1) >= Cap
           THEN LET j == [seg |-> nextL0, evs |-> m1]
                    r == FlushTo(crash, part, j, st)
                IN /\ crash = "partial" => (part # {} /\ part \subseteq TypesIn(m1) /\ part # TypesIn(m1))
                   /\ IF crash = "none"
                      THEN /\ mem' = <<>> /\ nextL0' = nextL0 + 1
                           /\ dirs' = r.dirs /\ idx' = r.idx /\ live' = r.live /\ wal' = r.wal
                           /\ walCur' = wa.cur /\ walCnt' = wa.cnt
                           /\ walLinked' = r.linked /\ fired' = fired \cup r.firedNow
                           /\ seenIds' = seenIds \cup DOMAIN r.dirs
                           /\ UNCHANGED ncrash
                      ELSE /\ ncrash < MaxCrash
                           /\ Restarted(r, r.firedNow)
           ELSE /\ crash = "none" /\ part = {}
                /\ mem' = m1 /\ wal' = wa.wal /\ walLinked' = wa.linked
                /\ walCur' = wa.cur /\ walCnt' = wa.cnt
                /\ UNCHANGED <<nextL0, dirs, idx, live, fired, ncrash, seenIds>>
  /\ crash # "partial" => part = {}
  /\ UNCHANGED <<nflush, ncompact>>

\* ---- manual FLUSH: rotates even when empty (the id is consumed), waits for completion
ManualFlush(crash, part) ==
  /\ nflush < MaxFlush
  /\ nflush' = nflush + 1
  /\ crash # "partial" => part = {}
  /\ crash = "partial" => (part # {} /\ part \subseteq TypesIn(mem) /\ part # TypesIn(mem))
  /\ crash \notin {"none", "start"} => mem # <<>>     \* an empty flush has no later stages
  /\ LET j == [seg |-> nextL0, evs |-> mem]
         r == FlushTo(crash, part, j,
                      [dirs |-> dirs, idx |-> idx, live |-> live, wal |-> wal, cur |-> walCur,
                       linked |-> walLinked])
     IN IF crash = "none"
        THEN /\ mem' = <<>> /\ nextL0' = nextL0 + 1
             /\ dirs' = r.dirs /\ idx' = r.idx /\ live' = r.live /\ wal' = r.wal
             /\ walLinked' = r.linked /\ fired' = fired \cup r.firedNow
             /\ seenIds' = seenIds \cup DOMAIN r.dirs
             /\ UNCHANGED <<walCur, walCnt, ncrash>>
        ELSE /\ ncrash < MaxCrash
             /\ Restarted(r, r.firedNow)
  /\ UNCHANGED <<nstored, ncompact, applied>>

-----------------------------------------------------------------------------
\* Compaction: one round of CompactionWorker::run at quiescence.
\* Policy (policy.rs): per level, per uid: labels sorted; n < thr -> leftover;
\* thr <= n < K -> one forced plan over all; else chunks of K, a short last chunk is left over.
Thr == IF (2 * K) \div 3 >= 1 THEN (2 * K) \div 3 ELSE 1

RECURSIVE Chunks(_)
Chunks(s) == IF Len(s) < K THEN <<>> ELSE <<SubSeq(s, 1, K)>> \o Chunks(SubSeq(s, K + 1, Len(s)))

PlansFor(ix, lvl, t) ==
  LET labels == SortedSeq({s \in DOMAIN ix : Level(s) = lvl /\ t \in ix[s]})
      n == Len(labels)
  IN IF n < Thr THEN {}
     ELSE IF n < K THEN {[t |-> t, lvl |-> lvl, ins |-> labels]}
     ELSE {[t |-> t, lvl |-> lvl, ins |-> ch] : ch \in SeqSet(Chunks(labels))}

Levels(ix) == {Level(s) : s \in DOMAIN ix}
AllPlans(ix) == UNION {PlansFor(ix, lvl, t) : lvl \in Levels(ix), t \in Types}
\* batches: plans with identical inputs share one output segment
Batches(ix) == {[lvl |-> p.lvl, ins |-> p.ins,
                 ts |-> {q.t : q \in {q \in AllPlans(ix) : q.ins = p.ins}}] : p \in AllPlans(ix)}

\* Output id of a batch: the policy's allocator is seeded from the index labels and hands one
\* id per plan; the batch uses the id of (one of) its plans.  The ids only name directories,
\* no read depends on their value, so the model uses "highest id of the level in the index or
\* on disk, plus one" for each batch in turn.
OutId(st, lvl) ==
  IF "alloc-fresh-dirs" \in Fix
  THEN MaxOr({s \in DOMAIN st.idx \cup DOMAIN st.dirs \cup st.seen : Level(s) = lvl}, lvl * L1Base - 1) + 1
  ELSE MaxOr({s \in DOMAIN st.idx : Level(s) = lvl}, lvl * L1Base - 1) + 1   \* as built: index labels only

\* hand-over of one batch; mode "out": only the output directory is written;
\* "idx": index swapped and live list updated.
CompactBatch(b, mode, st) ==
  LET outId   == OutId(st, b.lvl + 1)
      out     == [t \in Types |-> IF t \in b.ts THEN CatRows(st.dirs, b.ins, t) ELSE <<>>]
      \* as built the id may name a directory a crash left behind: its files for the batch's
      \* uids are overwritten, the others stay
      d1      == IF outId \in DOMAIN st.dirs
                 THEN [st.dirs EXCEPT ![outId] = [t \in Types |-> IF t \in b.ts THEN out[t] ELSE @[t]]]
                 ELSE st.dirs @@ (outId :> out)
      ix1     == [s \in DOMAIN st.idx |-> IF s \in SeqSet(b.ins) THEN st.idx[s] \ b.ts ELSE st.idx[s]]
      drained == {s \in SeqSet(b.ins) : s \in DOMAIN ix1 /\ ix1[s] = {}}
      ix2     == Restrict(ix1, DOMAIN ix1 \ drained) @@ (outId :> b.ts)
      reuse   == IF outId \in DOMAIN st.dirs \cup st.seen THEN {"output-id-reuse"} ELSE {}
  IN IF mode = "out"
     THEN [dirs |-> d1, idx |-> st.idx, live |-> st.live, drained |-> st.drained,
           firedNow |-> st.firedNow \cup reuse, seen |-> st.seen \cup {outId}]
     ELSE [dirs |-> d1, idx |-> ix2, live |-> (st.live \ drained) \cup {outId},
           drained |-> st.drained \cup drained, firedNow |-> st.firedNow \cup reuse,
           seen |-> st.seen \cup {outId}]

RECURSIVE RunBatches(_, _)
RunBatches(bs, st) ==
  IF bs = {} THEN st
  ELSE LET b == CHOOSE x \in bs : \A y \in bs : Head(x.ins) <= Head(y.ins) /\
                                   (Head(x.ins) = Head(y.ins) => Len(x.ins) <= Len(y.ins))
       IN RunBatches(bs \ {b}, CompactBatch(b, "idx", st))

EffIdx == IF idx = <<>> /\ dirs # <<>> THEN RecoveredIdx(dirs) ELSE idx

StillReadable(d, ix, lv) ==
  \E s \in lv, t \in Types : s \in DOMAIN d /\ d[s][t] # <<>> /\ ~(s \in DOMAIN ix /\ t \in ix[s])

Compact(crash) ==
  /\ ncompact < MaxCompact
  /\ Batches(EffIdx) # {}
  /\ ncompact' = ncompact + 1
  /\ LET bs  == Batches(EffIdx)
         st0 == [dirs |-> dirs, idx |-> EffIdx, live |-> live, drained |-> {}, firedNow |-> {},
                 seen |-> seenIds]
         b1  == CHOOSE x \in bs : \A y \in bs : Head(x.ins) <= Head(y.ins) /\
                                   (Head(x.ins) = Head(y.ins) => Len(x.ins) <= Len(y.ins))
     IN CASE crash = "none" ->
               LET r  == RunBatches(bs, st0)
                   d2 == Restrict(r.dirs, DOMAIN r.dirs \ r.drained) IN
               /\ dirs' = d2 /\ idx' = r.idx /\ live' = r.live
               /\ fired' = fired \cup r.firedNow \cup
                    (IF "reads-use-index" \notin Fix /\ StillReadable(d2, r.idx, r.live)
                     THEN {"retired-uid-still-readable"} ELSE {})
               /\ seenIds' = r.seen
               /\ UNCHANGED <<mem, wal, walCur, walCnt, walLinked, nextL0, ncrash>>
          [] crash = "out" ->
               /\ ncrash < MaxCrash /\ Cardinality(bs) = 1   \* batch order is hash-map order in the code
               /\ LET r == CompactBatch(b1, "out", st0) IN
                  Restarted([dirs |-> r.dirs, idx |-> idx, wal |-> wal], r.firedNow)
          [] crash = "idx" ->
               /\ ncrash < MaxCrash /\ Cardinality(bs) = 1
               /\ LET r == CompactBatch(b1, "idx", st0) IN
                  Restarted([dirs |-> r.dirs, idx |-> r.idx, wal |-> wal], r.firedNow)
          [] crash = "norecl" ->
               /\ ncrash < MaxCrash
               /\ LET r == RunBatches(bs, st0) IN
                  /\ r.drained # {}
                  /\ Restarted([dirs |-> r.dirs, idx |-> r.idx, wal |-> wal], r.firedNow)
  /\ UNCHANGED <<nstored, nflush, applied>>

-----------------------------------------------------------------------------
\* Crash at quiescence (between two commands), and graceful shutdown (= manual flush of the
\* shard, WAL close), each followed by start-up.
CrashRestart ==
  /\ QuiescentCrash
  /\ ncrash < MaxCrash
  /\ Restarted([dirs |-> dirs, idx |-> idx, wal |-> wal], {})
  /\ UNCHANGED <<nstored, nflush, ncompact, applied>>

CleanRestart ==
  /\ CleanRestarts
  /\ ncrash < MaxCrash
  /\ LET j == [seg |-> nextL0, evs |-> mem]
         r == FlushTo("none", {}, j, [dirs |-> dirs, idx |-> idx, live |-> live, wal |-> wal,
                                      cur |-> walCur, linked |-> walLinked])
     IN Restarted(r, r.firedNow)
  /\ UNCHANGED <<nstored, nflush, ncompact, applied>>

Next ==
  \/ \E t \in Types, c \in Ctxs, cr \in FlushCrash \cup {"none"}, p \in SUBSET Types : Store(t, c, cr, p)
  \/ \E cr \in FlushCrash \cup {"none"}, p \in SUBSET Types : ManualFlush(cr, p)
  \/ \E cr \in CompactCrash \cup {"none"} : Compact(cr)
  \/ CrashRestart
  \/ CleanRestart

Spec == Init /\ [][Next]_vars

-----------------------------------------------------------------------------
\* Properties (state invariants over quiescent states)

\* C01: every applied event (the WAL flushes each write and is drained before the next
\* command or crash, so applied = durable) is returned exactly once by a read of its type,
\* and nothing else is.
Durable == \A i \in DOMAIN applied :
             LET e == applied[i] IN Count(ReadRows(e.t), e) = 1
NoForeign == \A t \in Types : SeqSet(ReadRows(t)) \subseteq SeqSet(OfType(applied, t))

\* C04: per context, the delivered sequence is the append order
ReplayInOrder == \A c \in Ctxs, t \in Types : OfCtx(ReadRows(t), c) = OfCtx(OfType(applied, t), c)

\* C11: the index and the live list only name complete directories; fresh ids
IndexedComplete ==
  /\ \A s \in live : s \in DOMAIN dirs
  /\ \A s \in DOMAIN idx : s \in DOMAIN dirs /\ \A t \in idx[s] : dirs[s][t] # <<>>
FreshL0 == nextL0 \notin DOMAIN dirs

\* C05 as an action property: compaction leaves every read unchanged (as bags)
BagEq(a, b) == \A e \in SeqSet(a) \cup SeqSet(b) : Count(a, e) = Count(b, e)
CompactionPreserves ==
  [][ncompact' # ncompact => \A t \in Types : BagEq(ReadRows(t), ReadRows(t)')]_vars
\* C11 as an action property: a directory that stays published never changes
PublishedImmutable ==
  [][\A s \in (live \cap live') \cap (DOMAIN dirs \cap DOMAIN dirs') : dirs'[s] = dirs[s]]_vars

=============================================================================
