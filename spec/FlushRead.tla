----------------------------- MODULE FlushRead ------------------------------
(***************************************************************************)
(* C03: reads see every applied write exactly once at every stage of its   *)
(* flush.  One shard; a writer (mailbox: STORE, rotation), the flush       *)
(* worker (one job at a time, the pipeline steps of flush_worker.rs) and   *)
(* one reader whose steps are taken where the code takes them:             *)
(*   RBegin     in the mailbox (after every earlier STORE): copy of the    *)
(*              active memtable, list of the non-empty passive buffers     *)
(*   RPassive   content of a snapshotted passive buffer, read when reached *)
(*   RSegList   live list + in-flight set, read when the segment flow runs *)
(*   RSegment   files of a listed segment as they are at that moment       *)
(*   REnd                                                                  *)
(* The flusher writes a segment in steps (zone metadata, columns, indexes): *)
(* between FlushWriteBegin and FlushWrite the directory exists but is       *)
(* incomplete.  As built a reader that scans such a directory may find its  *)
(* rows already and may lose the rows of any segment scanned by that read;  *)
(* the design ("skip-partial-segments") ignores an incomplete directory.    *)
(* Fix = {"agg-dedup", "passive-content-at-begin", "skip-partial-segments"}:*)
(* the design;                                                              *)
(* Fix = {}: as built - selections are de-duplicated by the response       *)
(* writer, aggregates are not.                                             *)
(***************************************************************************)
EXTENDS Naturals, Sequences, FiniteSets, TLC, SequencesExt, FiniteSetsExt

CONSTANTS Cap, MaxEv, Fix, ReaderAtomic
\* ReaderAtomic = TRUE: the reader's steps are taken back to back (what a test that parks the
\* flush worker at a named step and then issues a read observes)

VARIABLES
  nst,        \* events stored so far
  mem,        \* active memtable: Seq of event numbers
  passive,    \* [seg -> [evs : Seq, cleared : BOOLEAN]]
  queue,      \* Seq of seg ids: jobs sent to the flush worker, not yet received
  job,        \* [seg, stage] of the job in the worker, or [seg |-> -1]; stages:
              \* "recv" "writing" "written" "published" "cleared" "cleaned"
  inflight,   \* set of seg ids marked in flight
  dirs,       \* [seg -> Seq of events] on disk
  live,       \* set of seg ids in the live list
  nextSeg,
  rd          \* reader: [pc, before (events applied before RBegin), memCopy, snap (set of segs),
              \*          todoP, segList, todoS, rows (Seq of events, pre-dedup)]

vars == <<nst, mem, passive, queue, job, inflight, dirs, live, nextSeg, rd>>
Idle == [seg |-> -1, stage |-> "none"]
RIdle == [pc |-> "idle", before |-> {}, memCopy |-> <<>>, snap |-> {}, todoP |-> {}, segList |-> {},
          todoS |-> {}, rows |-> <<>>, srows |-> <<>>, sawPartial |-> FALSE, listed |-> FALSE, done |-> 0]
\* the directory of the job's segment exists but is incomplete
Partial(s) == job.seg = s /\ job.stage = "writing"
\* what a read finally reports from: the memory rows and the segment rows
FinalRows(r) == r.rows \o r.srows

SeqSet(s) == {s[i] : i \in DOMAIN s}
Count(s, e) == Cardinality({i \in DOMAIN s : s[i] = e})

Init == /\ nst = 0 /\ mem = <<>> /\ passive = <<>> /\ queue = <<>> /\ job = Idle /\ inflight = {}
        /\ dirs = <<>> /\ live = {} /\ nextSeg = 0 /\ rd = RIdle

ReaderBusy == rd.pc \notin {"idle", "ended"}
\* with an atomic reader nobody else moves between RBegin and REnd
OthersMay == ~(ReaderAtomic /\ ReaderBusy)

Store ==
  /\ OthersMay /\ nst < MaxEv
  /\ nst' = nst + 1
  /\ LET m1 == Append(mem, nst + 1) IN
     IF Len(m1) >= Cap
     THEN /\ passive' = passive @@ (nextSeg :> [evs |-> m1, cleared |-> FALSE])
          /\ mem' = <<>> /\ queue' = Append(queue, nextSeg) /\ nextSeg' = nextSeg + 1
     ELSE /\ mem' = m1 /\ UNCHANGED <<passive, queue, nextSeg>>
  /\ UNCHANGED <<job, inflight, dirs, live, rd>>

FlushRecv ==
  /\ OthersMay /\ job = Idle /\ queue # <<>>
  /\ job' = [seg |-> Head(queue), stage |-> "recv"] /\ queue' = Tail(queue)
  /\ inflight' = inflight \cup {Head(queue)}
  /\ UNCHANGED <<nst, mem, passive, dirs, live, nextSeg, rd>>
FlushWriteBegin ==
  /\ OthersMay /\ job.stage = "recv"
  /\ job' = [job EXCEPT !.stage = "writing"]
  /\ UNCHANGED <<nst, mem, passive, queue, inflight, dirs, live, nextSeg, rd>>
FlushWrite ==
  /\ OthersMay /\ job.stage = "writing"
  /\ dirs' = dirs @@ (job.seg :> passive[job.seg].evs) /\ job' = [job EXCEPT !.stage = "written"]
  /\ UNCHANGED <<nst, mem, passive, queue, inflight, live, nextSeg, rd>>
FlushPublish ==
  /\ OthersMay /\ job.stage = "written"
  /\ live' = live \cup {job.seg} /\ job' = [job EXCEPT !.stage = "published"]
  /\ UNCHANGED <<nst, mem, passive, queue, inflight, dirs, nextSeg, rd>>
FlushClear ==
  /\ OthersMay /\ job.stage = "published"
  /\ passive' = [passive EXCEPT ![job.seg].cleared = TRUE] /\ job' = [job EXCEPT !.stage = "cleared"]
  /\ UNCHANGED <<nst, mem, queue, inflight, dirs, live, nextSeg, rd>>
FlushClean ==
  /\ OthersMay /\ job.stage = "cleared"
  /\ job' = [job EXCEPT !.stage = "cleaned"]
  /\ UNCHANGED <<nst, mem, passive, queue, inflight, dirs, live, nextSeg, rd>>
FlushDone ==
  /\ OthersMay /\ job.stage = "cleaned"
  /\ inflight' = inflight \ {job.seg} /\ job' = Idle
  /\ UNCHANGED <<nst, mem, passive, queue, dirs, live, nextSeg, rd>>

\* ---- reader
RBegin ==
  /\ rd.pc \in {"idle", "ended"} /\ rd.done < 2
  /\ LET snap == {s \in DOMAIN passive : ~passive[s].cleared} IN
     \* design ("passive-content-at-begin"): the content of the passive buffers is taken in the
     \* same mailbox step as the memtable copy; as built only the list of buffers is, and each
     \* buffer is read (locked) when the memtable flow reaches it
     rd' = [RIdle EXCEPT !.pc = "run", !.before = 1..nst, !.memCopy = mem, !.snap = snap,
                         !.todoP = IF "passive-content-at-begin" \in Fix THEN {} ELSE snap,
                         !.rows = IF "passive-content-at-begin" \in Fix
                                  THEN mem \o FoldSet(LAMBDA s, acc : acc \o passive[s].evs, <<>>, snap)
                                  ELSE mem,
                         !.done = rd.done]
  /\ UNCHANGED <<nst, mem, passive, queue, job, inflight, dirs, live, nextSeg>>
RPassive(s) ==
  /\ rd.pc = "run" /\ s \in rd.todoP
  /\ rd' = [rd EXCEPT !.todoP = @ \ {s},
                      !.rows = @ \o (IF passive[s].cleared THEN <<>> ELSE passive[s].evs)]
  /\ UNCHANGED <<nst, mem, passive, queue, job, inflight, dirs, live, nextSeg>>
RSegList ==
  /\ rd.pc = "run" /\ ~rd.listed
  /\ rd' = [rd EXCEPT !.listed = TRUE, !.segList = live \cup inflight, !.todoS = live \cup inflight,
                      !.sawPartial = \E s \in live \cup inflight : Partial(s)]
  /\ UNCHANGED <<nst, mem, passive, queue, job, inflight, dirs, live, nextSeg>>
RSegment(s) ==
  /\ rd.pc = "run" /\ rd.listed /\ s \in rd.todoS
  /\ \/ rd' = [rd EXCEPT !.todoS = @ \ {s}, !.srows = @ \o (IF s \in DOMAIN dirs THEN dirs[s] ELSE <<>>)]
     \* as built an incomplete directory is scanned (its zone index is missing, the fallback lists all its zones):
     \* its rows may be found already, and the rows of any segment scanned by the same read may be dropped
     \/ /\ Partial(s) /\ "skip-partial-segments" \notin Fix
        /\ rd' = [rd EXCEPT !.todoS = @ \ {s}, !.srows = @ \o passive[s].evs]
     \/ /\ rd.sawPartial /\ "skip-partial-segments" \notin Fix
        /\ rd' = [rd EXCEPT !.todoS = @ \ {s}]
  /\ UNCHANGED <<nst, mem, passive, queue, job, inflight, dirs, live, nextSeg>>
REnd ==
  /\ rd.pc = "run" /\ rd.listed /\ rd.todoP = {} /\ rd.todoS = {}
  /\ rd' = [rd EXCEPT !.pc = "ended", !.done = @ + 1]
  /\ UNCHANGED <<nst, mem, passive, queue, job, inflight, dirs, live, nextSeg>>

Next == \/ Store \/ FlushRecv \/ FlushWriteBegin \/ FlushWrite \/ FlushPublish \/ FlushClear \/ FlushClean \/ FlushDone
        \/ RBegin \/ RSegList \/ REnd
        \/ \E s \in DOMAIN passive : RPassive(s)
        \/ \E s \in 0..MaxEv : RSegment(s)
Spec == Init /\ [][Next]_vars

\* what the three kinds of read report from the reader's raw rows
Selection(rows) == SeqSet(rows)                                   \* response writer drops repeated ids
CountOf(rows) == IF "agg-dedup" \in Fix THEN Cardinality(SeqSet(rows)) ELSE Len(rows)

\* C03 at the end of a read: every event applied before the read began is reflected exactly once,
\* nothing is reflected twice, COUNT = number of distinct events of the selection
NoneMissed == rd.pc = "ended" => rd.before \subseteq Selection(FinalRows(rd))
CountExact == rd.pc = "ended" => CountOf(FinalRows(rd)) = Cardinality(Selection(FinalRows(rd)))
ReadExactlyOnce == NoneMissed /\ CountExact
\* everything returned was applied (nothing foreign)
NoForeign == SeqSet(FinalRows(rd)) \subseteq 1..nst
=============================================================================
