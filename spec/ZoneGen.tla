------------------------------- MODULE ZoneGen -------------------------------
(* Case generator for C08: enumerates zone populations (which abstract values   *)
(* sit in which zone of one segment) and, for every probe (operator, literal),  *)
(* the zones that MUST be reported as candidates (Query!ZoneMust) together with *)
(* the rows that make them so.                                                  *)
EXTENDS Query, Json, Randomization

CONSTANTS NZ,        \* zones per segment in the enumerated populations
          RowsPerZone, \* rows in each zone (event_per_zone)
          Vals,      \* abstract values a row may hold
          Probes,    \* literals probed (inside, between and outside Vals)
          Sample,    \* number of populations to draw (0 = all)
          ProbeOps   \* operators probed

VARIABLE pop

\* a population: zone index -> tuple of row values (row j of zone z has k = (z-1)*RowsPerZone + j)
Pops == [1..NZ -> [1..RowsPerZone -> Vals]]
Chosen == IF Sample = 0 THEN Pops ELSE RandomSubset(Sample, Pops)

RowK(z, j) == (z - 1) * RowsPerZone + j
ZoneRows(p, z) == {[k |-> RowK(z, j), c |-> "x", ts |-> 0, f |-> [v |-> p[z][j]]] : j \in 1..RowsPerZone}
Leaf(op, v) == [tag |-> "cmp", f |-> "v", op |-> op, v |-> v]

Case(p, op, v) ==
  [op |-> op, v |-> v,
   must |-> {z \in 1..NZ : ZoneMust(ZoneRows(p, z), Leaf(op, v))},
   ks |-> UNION {{e.k : e \in {e \in ZoneRows(p, z) : Sat(e, Leaf(op, v))}} : z \in 1..NZ}]

Init == pop \in Chosen
Next == UNCHANGED pop
Spec == Init /\ [][Next]_pop

Emit == PrintT(<<"POP", ToJson([pop |-> pop, cases |-> {Case(pop, op, v) : op \in ProbeOps, v \in Probes}])>>)
=============================================================================
