SPECIFICATION Spec
CONSTANTS
  Cap = 2
  K = 2
  Types = {"a", "b"}
  Ctxs = {"c1", "c2"}
  MaxEv = 5
  MaxCrash = 2
  MaxFlush = 2
  MaxCompact = 2
  Fix = {"prune-by-content", "replay-skips-published", "live-from-index", "reads-use-index", "alloc-past-wal", "replay-sorted-by-id", "alloc-fresh-dirs"}
  FlushCrash = {"start", "partial", "written", "published", "cleared"}
  CompactCrash = {"out", "idx", "norecl"}
  QuiescentCrash = TRUE
  CleanRestarts = TRUE
INVARIANTS Durable NoForeign ReplayInOrder IndexedComplete FreshL0
PROPERTIES CompactionPreserves PublishedImmutable
CHECK_DEADLOCK FALSE
