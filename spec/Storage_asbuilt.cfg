SPECIFICATION Spec
CONSTANTS
  Cap = 2
  K = 2
  Types = {"a", "b"}
  Ctxs = {"c1"}
  MaxEv = 4
  MaxCrash = 2
  MaxFlush = 2
  MaxCompact = 2
  Fix = {}
INVARIANTS Durable NoForeign ReplayInOrder IndexedComplete FreshL0
PROPERTIES CompactionPreserves PublishedImmutable
CHECK_DEADLOCK FALSE
