------------------------------- MODULE SeqGen --------------------------------
(* C15: sequence queries  QUERY a FOLLOWED BY|PRECEDED BY b LINKED BY u [WHERE ..] [LIMIT n] *)
(* Reference meaning: a head event h (type a) and a partner event b qualify iff they carry   *)
(* the same non-null link value, the time relation holds (FOLLOWED BY: b.ts >= h.ts,         *)
(* PRECEDED BY: b.ts < h.ts) and each side satisfies the WHERE conditions addressed to it.   *)
(* Determined by the property: every returned pair qualifies; a head is matched iff a        *)
(* qualifying partner exists; LIMIT bounds the number of matched sequences.                  *)
EXTENDS Naturals, Integers, FiniteSets, Sequences, TLC, Json, Randomization

CONSTANTS NA, NB, Links, Times, PVals, Sample
Null == -1
VARIABLE pop

Ev == [link : Links \cup {Null}, ts : Times, p : PVals]
Pops == [a : [1..NA -> Ev], b : [1..NB -> Ev]]
Chosen == IF Sample = 0 THEN Pops ELSE RandomSubset(Sample, Pops)

\* where: "none" | "a" (a.p = 1) | "b" (b.p = 1) | "ab" (both)
SatSide(e, side, where) ==
  CASE where = "none" -> TRUE
    [] where = "a"  -> side = "b" \/ e.p = 1
    [] where = "b"  -> side = "a" \/ e.p = 1
    [] where = "ab" -> e.p = 1
Qualifies(h, b, dir, where) ==
  /\ h.link # Null /\ h.link = b.link
  /\ IF dir = "followed" THEN b.ts >= h.ts ELSE b.ts < h.ts
  /\ SatSide(h, "a", where) /\ SatSide(b, "b", where)
\* as built: events whose link field is absent are grouped together as if "absent" were a value
QualifiesAB(h, b, dir, where) ==
  /\ h.link = b.link
  /\ IF dir = "followed" THEN b.ts >= h.ts ELSE b.ts < h.ts
  /\ SatSide(h, "a", where) /\ SatSide(b, "b", where)
PairsAB(p, dir, where) == {<<i, j>> \in (1..NA) \X (1..NB) : QualifiesAB(p.a[i], p.b[j], dir, where)}
HeadsAB(p, dir, where) == {i \in 1..NA : \E j \in 1..NB : <<i, j>> \in PairsAB(p, dir, where)}
Pairs(p, dir, where) == {<<i, j>> \in (1..NA) \X (1..NB) : Qualifies(p.a[i], p.b[j], dir, where)}
Heads(p, dir, where) == {i \in 1..NA : \E j \in 1..NB : <<i, j>> \in Pairs(p, dir, where)}

Case(p, dir, where) == [dir |-> dir, where |-> where, pairs |-> Pairs(p, dir, where), heads |-> Heads(p, dir, where),
                        pairs_ab |-> PairsAB(p, dir, where), heads_ab |-> HeadsAB(p, dir, where)]

Init == pop \in Chosen
Next == UNCHANGED pop
Spec == Init /\ [][Next]_pop
Emit == PrintT(<<"POP", ToJson([pop |-> pop,
          cases |-> {Case(pop, d, w) : d \in {"followed", "preceded"}, w \in {"none", "a", "b", "ab"}}])>>)
=============================================================================
