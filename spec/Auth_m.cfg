SPECIFICATION Spec
CONSTANTS
  SubjectIds = {"u1", "byp"}
  RoleSets = {{}, {"admin"}, {"read-only"}, {"editor"}, {"write-only"}, {"viewer", "write-only"}}
  Conns = {"c1", "w1"}
  WithTick = TRUE
INVARIANTS TypeOK ExpectedTotal RefinesPropertyText OnlyValidCredentials LeastPrivilege
PROPERTIES RevocationMonotone KeyRevocationEffective ExpiryEffective PermRevocationEffective RestartChangesNothing
CHECK_DEADLOCK FALSE
