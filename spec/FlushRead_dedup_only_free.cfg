SPECIFICATION Spec
CONSTANTS
  Cap = 2
  MaxEv = 5
  Fix = {"agg-dedup"}
  ReaderAtomic = FALSE
INVARIANTS ReadExactlyOnce NoForeign
CHECK_DEADLOCK FALSE
