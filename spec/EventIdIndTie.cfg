SPECIFICATION Spec
CONSTANTS
  Shards = {1}
  SeqSpace = 4
  ShardSpace = 2
  T0 = 2
  MaxClock = 5
  Sizes = {1, 2, 4, 5}
  MaxIds = 8
  MaxRestart = 2
  MaxBack = 1
  MaxFlush = 1
  Fix = {"restore-from-store"}
  EngineOps = TRUE



CHECK_DEADLOCK FALSE
