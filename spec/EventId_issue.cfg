SPECIFICATION Spec
CONSTANTS
  Shards = {1}
  SeqSpace = 4
  ShardSpace = 2
  T0 = 1
  MaxClock = 4
  Sizes = {1, 2, 4, 5}
  MaxIds = 9
  MaxRestart = 0
  MaxBack = 1
  MaxFlush = 0
  Fix = {}
  EngineOps = FALSE
VIEW View
INVARIANTS IssueIsSteps
CHECK_DEADLOCK FALSE
