SPECIFICATION Spec
CONSTANTS
  Cap = 1
  K = 3
  Types = {"a", "b"}
  Ctxs = {"c1"}
  MaxEv = 6
  MaxCrash = 1
  MaxFlush = 1
  MaxCompact = 4
  Fix = {"prune-by-content", "replay-skips-published", "live-from-index", "reads-use-index", "alloc-past-wal", "replay-sorted-by-id", "alloc-fresh-dirs"}
  FlushCrash = {}
  CompactCrash = {"out", "idx", "norecl"}
  QuiescentCrash = FALSE
  CleanRestarts = TRUE
INVARIANTS Durable NoForeign ReplayInOrder IndexedComplete FreshL0
PROPERTIES CompactionPreserves PublishedImmutable
CHECK_DEADLOCK FALSE
