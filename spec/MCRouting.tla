---- MODULE MCRouting ----
EXTENDS Routing
RouterDef == [c \in Ctxs |-> CASE c = "a" -> 0 [] c = "b" -> 2 [] OTHER -> 0]
====
