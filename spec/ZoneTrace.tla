------------------------------ MODULE ZoneTrace ------------------------------
(* Stage T for C08: each record holds a real segment's zone contents (pop: zone ->  *)
(* row values), a probe and the rows the engine returned.  A zone that ZoneMust     *)
(* says has to be a candidate contributes at least its matching rows; a must-zone   *)
(* none of whose matching rows came back was ruled out by a pruning structure.      *)
EXTENDS Query, Json, IOUtils

Rec == ndJsonDeserialize(IOEnv.TRACE)

RowsOf(r, z) == {[k |-> (z - 1) * r.rpz + j, c |-> "x", ts |-> 0, f |-> [v |-> r.pop[z][j]]] : j \in 1..r.rpz}
LeafOf(r) == [tag |-> "cmp", f |-> "v", op |-> r.op, v |-> r.v]
Got(r) == {r.got[i] : i \in DOMAIN r.got}
MissedZones(r) == {z \in DOMAIN r.pop :
                     /\ ZoneMust(RowsOf(r, z), LeafOf(r))
                     /\ \E e \in RowsOf(r, z) : Sat(e, LeafOf(r)) /\ e.k \notin Got(r)}
Bad == {i \in DOMAIN Rec : MissedZones(Rec[i]) # {}}

ASSUME PrintT(<<"JUDGED", Len(Rec)>>)
ASSUME PrintT(<<"BAD", ToJson({Rec[i].id : i \in Bad})>>)

VARIABLE dummy
Init == dummy = 0
Next == UNCHANGED dummy
Spec == Init /\ [][Next]_dummy
=============================================================================
