------------------------------- MODULE Ingest -------------------------------
(***************************************************************************)
(* What STORE must accept, what a DEFINE error must leave alone (C06) and  *)
(* what every later read must return for an accepted value in every        *)
(* storage tier (C07).                                                     *)
(*                                                                         *)
(* Abstract domains                                                        *)
(*   kind   a declared field type: 8 base kinds and "o<kind>" = `<kind> |  *)
(*          null` (enums cannot be nullable in DEFINE)                     *)
(*   class  a class of JSON values that can stand in a payload slot        *)
(*          (absent key, null, 19 classes of strings, 11 of integers, 5 of *)
(*          floats, booleans, nested object / array); the checks pick      *)
(*          2-5 concrete representatives per class                         *)
(*   case   a STORE: schema (<= 3 kinds) x one class per field x envelope  *)
(*          (extra / misspelled key, payload not an object, empty or blank *)
(*          context id, undefined event type)                              *)
(*   tier   where an accepted event currently lives: "mem" (memtable),     *)
(*          "wal" (memtable rebuilt from the WAL after a crash), "disk"    *)
(*          (segment: flushed L0 or rewritten by compaction, this or a     *)
(*          later process lifetime)                                        *)
(*                                                                         *)
(* Two parameterisations through Fix (as in Storage.tla):                  *)
(*   Fix = AllFixes  the DESIGN = the property text + docs/commands/       *)
(*                   {store,define,query,replay}.md; ReadBack holds        *)
(*   Fix = {}        AS BUILT: the places where the pinned code is known   *)
(*                   to deviate, each behind `Fixed("name")`; a deviation  *)
(*                   of the engine from the design is a known finding only *)
(*                   if the as-built side predicts exactly that symptom.   *)
(*                                                                         *)
(* Part selects what a TLC run enumerates / explores:                      *)
(*   "slot"   kind                 -> verdict and read mode of every class *)
(*   "env"    kind x envelope      -> verdicts                             *)
(*   "multi"  schemas of 2..3 kinds x role per field -> verdicts           *)
(*   "pairs"  kind x unordered pair of storable classes (zone mixes)       *)
(*   "ret"    RETURN list          -> projected columns                    *)
(*   "def"    DEFINE / bad DEFINE / restart histories (state machine)      *)
(*   "tier"   STORE / FLUSH / compaction / restart / crash histories       *)
(***************************************************************************)
EXTENDS Naturals, Sequences, FiniteSets, TLC, Json, SequencesExt

CONSTANTS Part,    \* see above
          Fix,     \* repairs in force
          GenLen,  \* length of generated histories ("def", "tier")
          MaxB,    \* "tier": number of batches
          MaxLen   \* "multi": schema lengths enumerated are 2..MaxLen

AllFixes == {"json-aware-payload-scan",   \* STORE finds the end of the payload with a JSON scanner, not by counting braces
             "exponent-plus-tokenised",   \* the command tokenizer knows '+' inside a number
             "time-range-checked",        \* a numeric time outside the representable range is rejected, not clamped
             "text-kept-as-text",         \* a text column read from a segment is a string, whatever it looks like
             "strings-not-parsed",        \* rendering a string never re-parses it as JSON
             "null-bitmap-for-text",      \* a text column distinguishes null from ""
             "float-column-keeps-integers", \* an integer stored in a float field is not rounded to a double by FLUSH
             "return-columns-ordered",     \* the memtable flow lays out RETURN columns in one order for header and rows
             "compaction-tolerates-missing-column"} \* an optional field absent from every event of a zone does not stop compaction
Fixed(n) == n \in Fix

---------------------------------------------------------------------------
(* kinds *)
BaseSeq == <<"string", "int", "u64", "float", "bool", "datetime", "date", "enum">>
OptSeq  == <<"ostring", "oint", "ou64", "ofloat", "obool", "odatetime", "odate">>
KindSeq == BaseSeq \o OptSeq
Kinds   == ToSet(KindSeq)
IsOpt(k) == k \in ToSet(OptSeq)
Base(k) == CASE k = "ostring" -> "string" [] k = "oint" -> "int" [] k = "ou64" -> "u64"
             [] k = "ofloat" -> "float" [] k = "obool" -> "bool" [] k = "odatetime" -> "datetime"
             [] k = "odate" -> "date" [] OTHER -> k
IsTime(k) == Base(k) \in {"datetime", "date"}
IsText(k) == Base(k) \in {"string", "enum"}

(* classes *)
OtherSeq == <<"absent", "null", "b_true", "b_false", "n_object", "n_array">>
StrSeq == <<"s_plain", "s_empty", "s_space", "s_nonascii", "s_long", "s_escape",
            "s_numlike",        \* "123" "-5" " 12 " "1e3" "007" "3.14" "+5"
            "s_boollike",       \* "true" "false"
            "s_nulllike",       \* "null"
            "s_jsonlike",       \* "[1,2]" "{}" "{\"a\":1}"   (braces balanced)
            "s_biglike",        \* "18446744073709551615": digits of an integer above i64::MAX
            "s_brace",          \* "a}b" "{" : unbalanced brace inside the string
            "s_var_plain",      \* a declared enum variant
            "s_var_numlike",    \* a declared enum variant that looks like a number / boolean
            "s_var_wrongcase",  \* a declared variant in another letter case
            "s_t_rfc3339", "s_t_date",
            "s_t_epochstr",     \* "1700000000": epoch seconds as a string
            "s_t_bad">>         \* "2024-13-02" "yesterday" "2024-01-02 03:04:05"
IntSeq == <<"i_small",          \* 0 7 42
            "i_neg",            \* -1 -42
            "i_min", "i_max",   \* i64::MIN, i64::MAX
            "i_u64",            \* 2^63, u64::MAX
            "i_huge",           \* 2^64, 99999999999999999999: beyond every 64-bit integer type
            "i_big53",          \* 2^53 + 1: fits i64, is not a double
            "i_epoch_s", "i_epoch_ms", "i_epoch_us", "i_epoch_ns">>
FltSeq == <<"f_frac", "f_integral",   \* 1.5 ; 1.0 1e3 -0.0
            "f_max",            \* +-1.7976931348623157e308
            "f_tiny",           \* 5e-324
            "f_expplus">>       \* 1.25e+1 : explicit '+' in the exponent, not integral
ClassSeq == OtherSeq \o StrSeq \o IntSeq \o FltSeq
Classes  == ToSet(ClassSeq)
StrClasses == ToSet(StrSeq)
IntClasses == ToSet(IntSeq)
FltClasses == ToSet(FltSeq)
EpochInts == {"i_epoch_s", "i_epoch_ms", "i_epoch_us", "i_epoch_ns"}

(***************************************************************************)
(* "each value of the declared type, a declared enum variant, or a         *)
(* parseable time".  yes = the property / the docs say it conforms,        *)
(* no = they say it does not, open = they leave it open (either verdict is *)
(* fine, but it must be the same verdict in every later read).             *)
(***************************************************************************)
YesOf(b) ==
  CASE b = "string"   -> StrClasses
    [] b = "enum"     -> {"s_var_plain", "s_var_numlike"}
    [] b = "int"      -> {"i_small", "i_neg", "i_min", "i_max", "i_big53"} \cup EpochInts
    [] b = "u64"      -> {"i_small", "i_max", "i_u64", "i_big53"} \cup EpochInts
    [] b = "float"    -> FltClasses
    [] b = "bool"     -> {"b_true", "b_false"}
    [] b = "datetime" -> {"s_t_rfc3339", "i_small"} \cup EpochInts   \* ISO-8601 instant or epoch s/ms/us/ns
    [] b = "date"     -> {"s_t_date", "i_small"} \cup EpochInts      \* YYYY-MM-DD or epoch
\* numeric strings, negative / extreme epochs, fractional epochs, a date for a datetime and
\* vice versa: the docs do not say
TimeOpen == {"s_t_epochstr", "s_numlike", "s_var_numlike", "s_biglike", "i_neg", "i_min", "i_max", "i_big53", "i_u64",
             "f_frac", "f_integral", "f_tiny", "f_expplus"}
OpenOf(b) ==
  CASE b = "int"      -> {"f_integral"}            \* a float with zero fraction for an integer field
    [] b = "u64"      -> {"f_integral"}
    [] b = "float"    -> IntClasses                \* an integral JSON number for a float field
    [] b = "datetime" -> TimeOpen \cup {"s_t_date"}
    [] b = "date"     -> TimeOpen \cup {"s_t_rfc3339"}
    [] OTHER          -> {}
SlotOk(k, c) ==
  IF c \in {"absent", "null"} THEN (IF IsOpt(k) THEN "yes" ELSE "no")
  ELSE IF c \in YesOf(Base(k)) THEN "yes"
  ELSE IF c \in OpenOf(Base(k)) THEN "open"
  ELSE "no"

\* as built: the same judgement as the pinned code makes it, where that is known to differ
SlotBuilt(k, c) ==
  LET d == SlotOk(k, c) IN
  IF d = "yes" /\ Base(k) = "string" /\ c = "s_brace" /\ ~Fixed("json-aware-payload-scan") THEN "no"
  ELSE IF d = "yes" /\ Base(k) = "float" /\ c = "f_expplus" /\ ~Fixed("exponent-plus-tokenised") THEN "no"
  ELSE IF d = "no" /\ IsTime(k) /\ c \in {"i_huge", "f_max"} /\ ~Fixed("time-range-checked") THEN "yes"
  ELSE d
SlotDefect(k, c) ==
  IF SlotBuilt(k, c) = SlotOk(k, c) THEN "none"
  ELSE IF c = "s_brace" THEN "json-aware-payload-scan"
  ELSE IF c = "f_expplus" THEN "exponent-plus-tokenised"
  ELSE "time-range-checked"

(***************************************************************************)
(* A case and its verdict: accepted iff the type is defined, the context   *)
(* id is non-empty, the payload is a flat object whose keys are exactly    *)
(* the schema's fields, each value conforming.                             *)
(***************************************************************************)
Extras == <<"none", "extra", "misspelled">>     \* misspelled = one schema key replaced by a near miss
Shapes == <<"object", "array", "scalar">>
CtxSeq == <<"word", "quoted", "empty", "blank">> \* blank = only white space: "non-empty" read literally, open
Case(kinds, slots, extra, shape, ctx, defined) ==
  [kinds |-> kinds, slots |-> slots, extra |-> extra, shape |-> shape, ctx |-> ctx, defined |-> defined]
VerdictWith(cs, Slot(_, _)) ==
  LET n == Len(cs.kinds) IN
  IF ~cs.defined \/ cs.ctx = "empty" \/ cs.shape # "object" \/ cs.extra # "none"
     \/ \E i \in 1..n : Slot(cs.kinds[i], cs.slots[i]) = "no"
  THEN "reject"
  ELSE IF cs.ctx = "blank" \/ \E i \in 1..n : Slot(cs.kinds[i], cs.slots[i]) = "open"
  THEN "open"
  ELSE "accept"
Verdict(cs) == VerdictWith(cs, SlotOk)
Built(cs)   == VerdictWith(cs, SlotBuilt)
\* the defects that explain Built # Verdict
CaseDefects(cs) == IF Built(cs) = Verdict(cs) THEN {}
                   ELSE {SlotDefect(cs.kinds[i], cs.slots[i]) : i \in 1..Len(cs.kinds)} \ {"none"}
\* does an observed status class ("accept" / "reject") satisfy a verdict?
Satisfies(obs, v) == v = "open" \/ obs = v

(***************************************************************************)
(* Reads.  What the cell of field kind k must be when class c was stored:  *)
(*   same  the stored JSON value (numbers numerically, strings byte-wise)  *)
(*   null  JSON null                                                       *)
(*   epoch the instant in epoch seconds (datetime) / midnight UTC (date)   *)
(*   own   open classes of time fields and integers beyond 64 bits: no     *)
(*         independent value; equal to what was returned while in memory   *)
(***************************************************************************)
ReadDesign(k, c) ==
  IF c \in {"absent", "null"} THEN "null"
  ELSE IF IsTime(k) /\ c \in YesOf(Base(k)) THEN "epoch"
  ELSE IF IsTime(k) THEN "own"
  ELSE IF c = "i_huge" THEN "own"
  ELSE "same"
Tiers == <<"mem", "wal", "disk">>
\* as built: [mode, defect]; the symptom modes are
\*   scalar_of_text  the JSON number / boolean / null that the trimmed text spells
\*   json_of_text    the JSON array / object / big integer that the text spells
\*   empty_text      ""
\*   nearest_double  the double nearest to the stored integer
ReadBuilt(k, c, tier) ==
  LET d == ReadDesign(k, c) IN
  IF Base(k) = "string" /\ c \in {"s_jsonlike", "s_biglike"} /\ ~Fixed("strings-not-parsed")
    THEN [mode |-> "json_of_text", defect |-> "strings-not-parsed"]
  ELSE IF IsText(k) /\ tier = "disk" /\ c \in {"s_numlike", "s_boollike", "s_nulllike", "s_var_numlike", "s_t_epochstr"}
          /\ ~Fixed("text-kept-as-text")
    THEN [mode |-> "scalar_of_text", defect |-> "text-kept-as-text"]
  ELSE IF k = "ostring" /\ tier = "disk" /\ c \in {"absent", "null"} /\ ~Fixed("null-bitmap-for-text")
    THEN [mode |-> "empty_text", defect |-> "null-bitmap-for-text"]
  ELSE IF Base(k) = "float" /\ tier = "disk" /\ c \in {"i_big53", "i_max", "i_u64", "i_epoch_ns"}
          /\ ~Fixed("float-column-keeps-integers")
    THEN [mode |-> "nearest_double", defect |-> "float-column-keeps-integers"]
  ELSE [mode |-> d, defect |-> "none"]
Storable(k) == {c \in Classes : SlotOk(k, c) # "no"}
\* C07 as an invariant of the read model: every storable cell reads back as the design says, in every tier
ReadBackAt(tier) == \A k \in Kinds : \A c \in Storable(k) : ReadBuilt(k, c, tier).mode = ReadDesign(k, c)

(***************************************************************************)
(* RETURN: payload columns restricted to the requested schema fields;      *)
(* omitted or empty list = all; unknown names ignored; core fields always. *)
(***************************************************************************)
Core == {"context_id", "event_type", "timestamp"}
Projection(fields, ret) == IF ret = <<>> THEN Core \cup fields ELSE Core \cup (ToSet(ret) \cap fields)
\* A projected read, compared with the unrestricted read of the same events:
\*   cols   returned column names (event_id is tolerated besides the documented core fields)
\*   core   core cells equal            exact  payload cells equal under their column names
\*   perm   payload cells equal up to a permutation inside each row
\*   mem    some returned row was served from the memtable
\* as built: with two or more payload columns the memtable flow computes the column order twice from a
\* hash set, so rows served from memory may carry their payload cells under each other's names
ProjJudge(fields, ret, cols, core, exact, perm, mem) ==
  IF (cols \ {"event_id"}) # Projection(fields, ret) \/ ~core THEN "bad"
  ELSE IF exact THEN "ok"
  ELSE IF perm /\ mem /\ Cardinality(ToSet(ret) \cap fields) >= 2 /\ ~Fixed("return-columns-ordered")
    THEN "known:return-columns-ordered"
  ELSE "bad"
\* a compaction round must succeed; as built it fails (error or panic) when a zone of an input segment has no
\* block for an optional field because every event of the zone omitted it
CompactJudge(ok, absentBlock) ==
  IF ok THEN "ok"
  ELSE IF absentBlock /\ ~Fixed("compaction-tolerates-missing-column") THEN "known:compaction-tolerates-missing-column"
  ELSE "bad"

---------------------------------------------------------------------------
(* roles used for schemas of several fields: one canonical class per role and kind *)
RoleSeq == <<"good", "absent", "null", "wrong", "nested">>
RoleClass(k, r) ==
  LET b == Base(k) IN
  CASE r = "absent" -> "absent"
    [] r = "null"   -> "null"
    [] r = "nested" -> IF b \in {"string", "bool", "date"} THEN "n_object" ELSE "n_array"
    [] r = "good"   -> (CASE b = "string" -> "s_plain" [] b = "enum" -> "s_var_plain" [] b = "int" -> "i_neg"
                          [] b = "u64" -> "i_u64" [] b = "float" -> "f_frac" [] b = "bool" -> "b_false"
                          [] b = "datetime" -> "s_t_rfc3339" [] b = "date" -> "s_t_date")
    [] r = "wrong"  -> (CASE b = "string" -> "i_small" [] b = "enum" -> "s_var_wrongcase" [] b = "int" -> "s_numlike"
                          [] b = "u64" -> "i_neg" [] b = "float" -> "s_numlike" [] b = "bool" -> "s_boollike"
                          [] b = "datetime" -> "b_true" [] b = "date" -> "s_t_bad")

Pow(b, e) == IF e = 0 THEN 1 ELSE IF e = 1 THEN b ELSE IF e = 2 THEN b * b ELSE b * b * b
NR == Len(RoleSeq)
\* the n-th role tuple (1-based, first field most significant) of a schema of length len
RoleAt(n, i, len) == RoleSeq[(((n - 1) \div Pow(NR, len - i)) % NR) + 1]
MultiCase(kinds, n) ==
  Case(kinds, [i \in 1..Len(kinds) |-> RoleClass(kinds[i], RoleAt(n, i, Len(kinds)))], "none", "object", "word", TRUE)
KIdx(k) == CHOOSE i \in 1..Len(KindSeq) : KindSeq[i] = k
CIdx(c) == CHOOSE i \in 1..Len(ClassSeq) : ClassSeq[i] = c
Sorted(ks) == \A i \in 1..(Len(ks) - 1) : KIdx(ks[i]) <= KIdx(ks[i + 1])
Schemas(len) == {ks \in [1..len -> Kinds] : Sorted(ks)}      \* field order is immaterial (the schema is a map)

---------------------------------------------------------------------------
(* DEFINE state machine ("def") *)
DTypes   == {"t", "u"}
SchemaOf == [A |-> <<"int">>, B |-> <<"string", "obool">>]       \* two schemas no payload satisfies both
ProbeF1  == [pa |-> "i_small", pb |-> "s_plain"]                 \* pa conforms to A only, pb to B only
Probes   == {"pa", "pb"}
BadDefs  == {"empty_fields", "nested_type", "empty_enum", "nonstring_enum"}
ProbeCase(sid, p) ==
  IF sid = "none" THEN Case(<<"int">>, <<ProbeF1[p]>>, "none", "object", "word", FALSE)
  ELSE LET ks == SchemaOf[sid] IN
       Case(ks, [i \in 1..Len(ks) |-> IF i = 1 THEN ProbeF1[p] ELSE "absent"], "none", "object", "word", TRUE)
\* what the registry is after a DEFINE that was answered `outcome` ("ok" / "error"):
\* an error leaves everything as it was
RegAfterDefine(reg, t, sid, outcome) == IF outcome = "ok" THEN [reg EXCEPT ![t] = sid] ELSE reg
\* documented outcome: a type can be defined once
DefineOutcome(reg, t) == IF reg[t] = "none" THEN "ok" ELSE "error"
ProbeVerdicts(reg) == [t \in DTypes |-> [p \in Probes |-> Verdict(ProbeCase(reg[t], p))]]

---------------------------------------------------------------------------
VARIABLES u,      \* enumeration unit of the case parts
          reg,    \* "def": [DTypes -> {"none","A","B"}]
          lay,    \* "tier": layout record
          hist    \* generated history
vars == <<u, reg, lay, hist>>

(* ---- case parts: every unit is an initial state, no transitions ---- *)
EnvUnits == {<<k, r, e, s, c, d>> : k \in Kinds, r \in {"good", "absent"}, e \in ToSet(Extras), s \in ToSet(Shapes),
                                    c \in ToSet(CtxSeq), d \in BOOLEAN}
PairUnits == {<<k, c1, c2>> \in Kinds \X Classes \X Classes : c1 \in Storable(k) /\ c2 \in Storable(k) /\ CIdx(c1) <= CIdx(c2)}
\* column names of the value table of C07: one column per kind plus the row key k
ColName(k) == CASE k = "string" -> "s" [] k = "int" -> "i" [] k = "u64" -> "u" [] k = "float" -> "f" [] k = "bool" -> "b"
                [] k = "datetime" -> "d" [] k = "date" -> "dd" [] k = "enum" -> "e" [] k = "ostring" -> "os" [] k = "oint" -> "oi"
                [] k = "ou64" -> "ou" [] k = "ofloat" -> "of" [] k = "obool" -> "ob" [] k = "odatetime" -> "od" [] k = "odate" -> "odd"
RetFields == {ColName(k) : k \in Kinds} \cup {"k"}
RetNames == <<"k", "s", "os", "od", "nope", "context_id", "timestamp">>
RetUnits == {SetToSortSeq(S, LAMBDA a, b : (CHOOSE i \in 1..Len(RetNames) : RetNames[i] = a) < (CHOOSE i \in 1..Len(RetNames) : RetNames[i] = b)) :
               S \in SUBSET ToSet(RetNames)}
Units ==
  CASE Part = "slot"  -> Kinds
    [] Part = "env"   -> EnvUnits
    [] Part = "multi" -> UNION {Schemas(len) : len \in 2..MaxLen}
    [] Part = "pairs" -> PairUnits
    [] Part = "ret"   -> RetUnits
    [] OTHER          -> {"-"}

One(k, c) == Case(<<k>>, <<c>>, "none", "object", "word", TRUE)     \* the plain single-field case
SlotLine(k) ==
  [kind |-> k,
   slot    |-> [c \in Classes |-> SlotOk(k, c)],
   verdict |-> [c \in Classes |-> Verdict(One(k, c))],
   built   |-> [c \in Classes |-> Built(One(k, c))],
   defects |-> [c \in Classes |-> CaseDefects(One(k, c))],
   read    |-> [c \in Classes |-> ReadDesign(k, c)],
   readmem |-> [c \in Classes |-> ReadBuilt(k, c, "mem")],
   roles   |-> [r \in ToSet(RoleSeq) |-> RoleClass(k, r)]]
EnvLine(x) ==
  LET cs == Case(<<x[1]>>, <<RoleClass(x[1], x[2])>>, x[3], x[4], x[5], x[6]) IN
  [kind |-> x[1], role |-> x[2], class |-> RoleClass(x[1], x[2]), extra |-> x[3], shape |-> x[4], ctx |-> x[5],
   defined |-> x[6], verdict |-> Verdict(cs), built |-> Built(cs)]
MultiLine(ks) ==
  [kinds |-> ks, roles |-> RoleSeq,
   v |-> [n \in 1..Pow(NR, Len(ks)) |-> Verdict(MultiCase(ks, n))],
   b |-> [n \in 1..Pow(NR, Len(ks)) |-> Built(MultiCase(ks, n))]]
PairLine(x) ==
  [kind |-> x[1], col |-> ColName(x[1]), c1 |-> x[2], c2 |-> x[3],
   read |-> <<ReadDesign(x[1], x[2]), ReadDesign(x[1], x[3])>>,
   built |-> [t \in ToSet(Tiers) |-> <<ReadBuilt(x[1], x[2], t), ReadBuilt(x[1], x[3], t)>>]]
RetLine(r) == [ret |-> r, fields |-> RetFields, cols |-> Projection(RetFields, r),
               \* verdict for a memory-served read whose cells are only right up to a permutation
               permuted_mem |-> ProjJudge(RetFields, r, Projection(RetFields, r), TRUE, FALSE, TRUE, TRUE)]
Line == CASE Part = "slot"  -> SlotLine(u)
          [] Part = "env"   -> EnvLine(u)
          [] Part = "multi" -> MultiLine(u)
          [] Part = "pairs" -> PairLine(u)
          [] Part = "ret"   -> RetLine(u)
          [] OTHER          -> <<>>
EmitCase == Part \in {"slot", "env", "multi", "pairs", "ret"} => PrintT(<<"LINE", ToJson(Line)>>)

CaseInit == u \in Units /\ reg = <<>> /\ lay = <<>> /\ hist = <<>>
CaseSpec == CaseInit /\ [][FALSE]_vars

(* ---- "def": DEFINE histories ---- *)
DefObs(r) == ProbeVerdicts(r)
DefInit == u = "-" /\ reg = [t \in DTypes |-> "none"] /\ lay = <<>> /\ hist = <<>>
DoDefine(t, sid) ==
  LET o == DefineOutcome(reg, t) IN
  /\ reg' = RegAfterDefine(reg, t, sid, o)
  /\ hist' = Append(hist, [act |-> "define", type |-> t, schema |-> sid, outcome |-> o, probes |-> DefObs(reg')])
DoBadDefine(t, b) ==
  /\ reg' = reg
  /\ hist' = Append(hist, [act |-> "bad_define", type |-> t, bad |-> b, outcome |-> "error", probes |-> DefObs(reg)])
DoRestart(how) ==
  /\ reg' = reg
  /\ hist' = Append(hist, [act |-> how, probes |-> DefObs(reg)])
NRestarts == Cardinality({i \in 1..Len(hist) : hist[i].act \in {"restart", "crash"}})
DefGuard == Len(hist) < GenLen /\ UNCHANGED <<u, lay>>
DefineAct    == DefGuard /\ \E t \in DTypes, sid \in {"A", "B"} : DoDefine(t, sid)
BadDefineAct == DefGuard /\ \E t \in DTypes, b \in BadDefs : DoBadDefine(t, b)
RestartAct   == DefGuard /\ \E how \in {"restart", "crash"} : NRestarts < 2 /\ Len(hist) > 0 /\ DoRestart(how)
DefNext == DefineAct \/ BadDefineAct \/ RestartAct
DefSpec == DefInit /\ [][DefNext]_vars
\* C06, second sentence, as an invariant of the machine: whatever happened, a type answers
\* STOREs by the FIRST schema it was successfully given
FirstSchema(t) ==
  LET idx == {i \in 1..Len(hist) : hist[i].act = "define" /\ hist[i].type = t /\ hist[i].outcome = "ok"} IN
  IF idx = {} THEN "none" ELSE hist[CHOOSE i \in idx : \A j \in idx : i <= j].schema
DefineErrorKeepsSchema == Part = "def" => \A t \in DTypes : reg[t] = FirstSchema(t)
EmitDef == (Part = "def" /\ Len(hist) = GenLen) => PrintT(<<"BEH", ToJson(hist)>>)

(* ---- "tier": where accepted events live ---- *)
Batches == 1..MaxB
TierInit == u = "-" /\ reg = <<>> /\ hist = <<>>
            /\ lay = [tier |-> [b \in Batches |-> "none"], nb |-> 0, nseg |-> 0, flushed |-> FALSE, lives |-> 1, ncrash |-> 0]
InMem(b) == lay.tier[b] \in {"mem", "wal"}
OnDisk(b) == lay.tier[b] \in {"L0", "LC"}
TierClass(t) == IF t \in {"L0", "LC"} THEN "disk" ELSE t
Log(act) == hist' = Append(hist, [act |-> act, tier |-> lay'.tier, lives |-> lay'.lives])
TStore ==
  /\ lay.nb < MaxB
  /\ lay' = [lay EXCEPT !.nb = @ + 1, !.tier[lay.nb + 1] = "mem"]
  /\ Log("store")
TFlush ==
  /\ \E b \in Batches : InMem(b)
  /\ lay' = [lay EXCEPT !.tier = [b \in Batches |-> IF InMem(b) THEN "L0" ELSE @[b]], !.nseg = @ + 1, !.flushed = TRUE]
  /\ Log("flush")
TCompact ==
  /\ lay.nseg >= 2
  /\ lay' = [lay EXCEPT !.tier = [b \in Batches |-> IF OnDisk(b) THEN "LC" ELSE @[b]], !.nseg = 1]
  /\ Log("compact")
TRestart ==                        \* graceful shutdown flushes the memtable
  /\ lay.nb > 0 /\ lay.lives < 4
  /\ lay' = [lay EXCEPT !.tier = [b \in Batches |-> IF InMem(b) THEN "L0" ELSE @[b]],
                        !.nseg = IF \E b \in Batches : InMem(b) THEN @ + 1 ELSE @,
                        !.flushed = FALSE, !.lives = @ + 1]
  /\ Log("restart")
TCrash ==                          \* abort; only explored where the storage findings C01-* cannot interfere:
  /\ ~lay.flushed /\ lay.nseg = 0  \* nothing was ever flushed, so no WAL file has been pruned
  /\ \E b \in Batches : lay.tier[b] = "mem"
  /\ lay.ncrash < 2
  /\ lay' = [lay EXCEPT !.tier = [b \in Batches |-> IF InMem(b) THEN "wal" ELSE @[b]], !.lives = @ + 1, !.ncrash = @ + 1]
  /\ Log("crash")
TierGuard == Len(hist) < GenLen /\ UNCHANGED <<u, reg>>
StoreAct   == TierGuard /\ TStore
FlushAct   == TierGuard /\ TFlush
CompactAct == TierGuard /\ TCompact
CleanRestartAct == TierGuard /\ TRestart
CrashAct   == TierGuard /\ TCrash
TierNext == StoreAct \/ FlushAct \/ CompactAct \/ CleanRestartAct \/ CrashAct
TierSpec == TierInit /\ [][TierNext]_vars
\* C07 over the tier machine: wherever a stored batch lives, every cell reads back as stored
ReadBack == Part = "tier" => \A b \in Batches : lay.tier[b] # "none" => ReadBackAt(TierClass(lay.tier[b]))
\* no accepted event disappears by a tier move
NothingLost == Part = "tier" => \A b \in Batches : b <= lay.nb <=> lay.tier[b] # "none"
EmitTier == (Part = "tier" /\ Len(hist) = GenLen) => PrintT(<<"BEH", ToJson(hist)>>)

---------------------------------------------------------------------------
(* sanity of the judgement itself (Stage M), evaluated once at start-up *)
ASSUME Fix \subseteq AllFixes
ASSUME \A k \in Kinds : \E c \in Classes : SlotOk(k, c) = "yes"
ASSUME \A k \in Kinds : \E c \in Classes \ {"absent", "null"} : SlotOk(k, c) = "no"
ASSUME \A c \in Classes \ {"n_object", "n_array"} : \E k \in Kinds : SlotOk(k, c) # "no"
ASSUME \A k \in Kinds : SlotOk(k, "n_object") = "no" /\ SlotOk(k, "n_array") = "no"          \* flat payloads only
ASSUME \A k \in ToSet(OptSeq), c \in Classes \ {"absent", "null"} : SlotOk(k, c) = SlotOk(Base(k), c)
ASSUME \A k \in Kinds, r \in {"good"} : SlotOk(k, RoleClass(k, r)) = "yes"
ASSUME \A k \in Kinds, r \in {"wrong", "nested"} : SlotOk(k, RoleClass(k, r)) = "no"
ASSUME \A k \in Kinds, c \in Classes : YesOf(Base(k)) \cap OpenOf(Base(k)) = {}
\* one non-conforming slot, or any defect of the envelope, rejects whatever the other fields hold
ASSUME \A k1 \in Kinds, k2 \in Kinds, c \in Classes :
         Verdict(Case(<<k1, k2>>, <<RoleClass(k1, "wrong"), c>>, "none", "object", "word", TRUE)) = "reject"
ASSUME \A k \in Kinds, c \in Classes, e \in {"extra", "misspelled"} :
         Verdict(Case(<<k>>, <<c>>, e, "object", "word", TRUE)) = "reject"
\* a payload of conforming values is accepted, and optional fields may be absent or null
ASSUME \A k1 \in Kinds, k2 \in ToSet(OptSeq), r \in {"absent", "null"} :
         Verdict(Case(<<k1, k2>>, <<RoleClass(k1, "good"), r>>, "none", "object", "word", TRUE)) = "accept"
\* the design read model satisfies C07 in every tier; the as-built one is allowed not to
ASSUME Fix = AllFixes => \A t \in ToSet(Tiers) : ReadBackAt(t)
ASSUME Fix = AllFixes => \A k \in Kinds, c \in Classes : SlotBuilt(k, c) = SlotOk(k, c)
ASSUME \A sid \in {"A", "B"}, p \in Probes : Verdict(ProbeCase(sid, p)) = (IF (sid = "A") = (p = "pa") THEN "accept" ELSE "reject")
=============================================================================
