---------------------------- MODULE EventIdTrace ----------------------------
(***************************************************************************)
(* Judges recorded executions of the real code with the operators of        *)
(* EventId (SeqSpace = 4096, ShardSpace = 1024 in the cfg).                  *)
(*                                                                         *)
(* One record (line of IOEnv.TRACE) = one execution:                        *)
(*   mode "gen"    the actions were performed on the real EventIdGenerator; *)
(*                 every burst carries the ids it returned                   *)
(*   mode "engine" the actions were performed on a real engine (STOREs,      *)
(*                 FLUSH, compaction, crash / shutdown + restart with WAL    *)
(*                 recovery); after every action the whole store was read    *)
(*                 back: table k -> event id (k = payload key, 1, 2, .. in   *)
(*                 apply order), and which k each response form returned     *)
(*                                                                         *)
(* Real ids are 64-bit; they arrive as 5 digits base 2^15 (most significant *)
(* first) and are only compared and incremented here - the verdict never    *)
(* depends on how the code packs an id.  Runs: [d, n] = the n consecutive    *)
(* values d, d+1, .. (a lossless transport encoding of the id list).        *)
(*                                                                         *)
(* Verdict of a record:                                                     *)
(*   "ok"          the property holds on what was observed                  *)
(*   "known:<x>"   it does not, the as-built model (Fix = {}) predicts the   *)
(*                 same order/equality pattern, and the design model none    *)
(*   "violation:.."  anything else                                          *)
(* `conform` (reported, never a verdict): the as-built model predicts the    *)
(* observed clock after every action and the observed pattern.              *)
(***************************************************************************)
EXTENDS EventId, Json, IOUtils

Trace == IF "TRACE" \in DOMAIN IOEnv /\ IOEnv.TRACE # "" THEN ndJsonDeserialize(IOEnv.TRACE) ELSE <<>>

-----------------------------------------------------------------------------
(* 64-bit values as digit tuples *)
B == 32768
DLess(a, b) == \E i \in 1 .. 5 : a[i] < b[i] /\ \A j \in 1 .. i - 1 : a[j] = b[j]
DAdd(a, n) ==
  LET s5 == a[5] + n       c5 == s5 \div B
      s4 == a[4] + c5      c4 == s4 \div B
      s3 == a[3] + c4      c3 == s3 \div B
      s2 == a[2] + c3      c2 == s2 \div B
  IN <<a[1] + c2, s2 % B, s3 % B, s4 % B, s5 % B>>
OFirst(r) == r.d
OLast(r) == DAdd(r.d, r.n - 1)
OAppendRun(rs, r) ==
  IF rs # <<>> /\ DAdd(rs[Len(rs)].d, rs[Len(rs)].n) = r.d
  THEN [rs EXCEPT ![Len(rs)] = [d |-> @.d, n |-> @.n + r.n]]
  ELSE Append(rs, [d |-> r.d, n |-> r.n])
RECURSIVE OCat(_, _)
OCat(rs, more) == IF more = <<>> THEN rs ELSE OCat(OAppendRun(rs, Head(more)), Tail(more))
\* the property on observed ids of one shard, in apply order
ORunsIncreasing(rs) == \A i \in 1 .. Len(rs) - 1 : DLess(OLast(rs[i]), OFirst(rs[i + 1]))
OOverlap(a, b) == ~DLess(OLast(a), OFirst(b)) /\ ~DLess(OLast(b), OFirst(a))

Rel(lt1, lt2) == IF lt1 THEN -1 ELSE IF lt2 THEN 1 ELSE 0
\* order/equality relation of two runs (first and last ids against each other)
ORel4(a, b) == <<Rel(DLess(OFirst(a), OFirst(b)), DLess(OFirst(b), OFirst(a))),
                 Rel(DLess(OFirst(a), OLast(b)),  DLess(OLast(b), OFirst(a))),
                 Rel(DLess(OLast(a), OFirst(b)),  DLess(OFirst(b), OLast(a))),
                 Rel(DLess(OLast(a), OLast(b)),   DLess(OLast(b), OLast(a)))>>
MRel4(a, b) == <<Rel(PairLess(RunFirst(a), RunFirst(b)), PairLess(RunFirst(b), RunFirst(a))),
                 Rel(PairLess(RunFirst(a), RunLast(b)),  PairLess(RunLast(b), RunFirst(a))),
                 Rel(PairLess(RunLast(a), RunFirst(b)),  PairLess(RunFirst(b), RunLast(a))),
                 Rel(PairLess(RunLast(a), RunLast(b)),   PairLess(RunLast(b), RunLast(a)))>>

-----------------------------------------------------------------------------
(* the model along the recorded actions *)
MInit(t0) == [clock |-> t0, gen |-> [s \in Shards |-> Fresh], issued |-> [s \in Shards |-> <<>>], waits |-> 0]
MAct(st, a, fix) ==
  CASE a.op = "tick" -> [st EXCEPT !.clock = @ + a.d]
    [] a.op = "burst" ->
         LET r == AutoBurst(st.gen[a.s], st.clock, a.n)
         IN [st EXCEPT !.gen[a.s] = r.g, !.issued[a.s] = CatRuns(@, r.runs), !.clock = r.clock, !.waits = @ + r.waits]
    [] a.op = "restart" -> [st EXCEPT !.gen = [s \in Shards |-> RestoredGen(fix, st.issued[s], 0)]]
    [] OTHER -> st                                   \* flush, compaction: id-transparent
RECURSIVE MRun(_, _, _, _)
\* states after each action
MRun(st, acts, i, fix) == IF i > Len(acts) THEN <<>> ELSE LET nx == MAct(st, acts[i], fix) IN <<nx>> \o MRun(nx, acts, i + 1, fix)

MOK(st) == \A s \in Shards : RunsIncreasing(st.issued[s]) /\ RunsDistinct(st.issued[s])

\* observed ids per shard (apply order) and the model's ids have the same shape
SamePattern(obs, st) ==
  \A s \in Shards :
    /\ Len(obs[s]) = Len(st.issued[s])
    /\ \A i \in 1 .. Len(obs[s]) : obs[s][i].n = st.issued[s][i].n
    /\ \A i, j \in 1 .. Len(obs[s]) : i < j => ORel4(obs[s][i], obs[s][j]) = MRel4(st.issued[s][i], st.issued[s][j])
OShardsOK(obs) == \A s \in Shards : ORunsIncreasing(obs[s])
\* pairs of runs (any shards) that share an id
ODistinct(obs) ==
  \A s1, s2 \in Shards : \A i \in 1 .. Len(obs[s1]), j \in 1 .. Len(obs[s2]) :
     (s1 # s2 \/ i < j) => ~OOverlap(obs[s1][i], obs[s2][j])

V(kind, what) == [kind |-> kind, what |-> what]
OK == V("ok", "")
Attribute(obs, stA, stD, what) ==
  IF ~MOK(stA) /\ MOK(stD) /\ SamePattern(obs, stA) THEN V("known", "generator-not-restored") ELSE V("violation", what)

-----------------------------------------------------------------------------
(* mode "gen" *)
RECURSIVE GenObs(_, _, _, _)
\* observed runs of shard s up to action `upto`
GenObs(rec, s, i, upto) ==
  IF i > upto THEN <<>>
  ELSE LET rest == GenObs(rec, s, i + 1, upto)
       IN IF rec.acts[i].op = "burst" /\ rec.acts[i].s = s THEN rec.obs[i].runs \o rest ELSE rest

JudgeGen(rec) ==
  LET n == Len(rec.acts)
      asb == MRun(MInit(rec.t0), rec.acts, 1, {})
      des == MRun(MInit(rec.t0), rec.acts, 1, AllFixes)
      obs == [s \in Shards |-> OCat(<<>>, GenObs(rec, s, 1, n))]
      counts == \A i \in 1 .. n : rec.acts[i].op = "burst" =>
                   rec.acts[i].n = LET RECURSIVE S(_) S(j) == IF j = 0 THEN 0 ELSE rec.obs[i].runs[j].n + S(j - 1) IN S(Len(rec.obs[i].runs))
      clocks == \A i \in 1 .. n : rec.obs[i].t = asb[i].clock
      verdict == IF rec.stalled THEN V("violation", "stalled")
                 ELSE IF ~counts THEN V("violation", "id-count")
                 ELSE IF OShardsOK(obs) /\ ODistinct(obs) THEN OK
                 ELSE Attribute(obs, asb[n], des[n], IF ~OShardsOK(obs) THEN "not-increasing" ELSE "duplicate")
  IN [id |-> rec.id, verdict |-> verdict,
      conform |-> (~rec.stalled /\ clocks /\ SamePattern(obs, asb[n])),
      waits |-> IF n = 0 THEN 0 ELSE asb[n].waits,
      modelBreaks |-> (n > 0 /\ ~MOK(asb[n])), evals |-> 1]

-----------------------------------------------------------------------------
(* mode "engine": obs[i] = [t, has, bad, tab, q, qn, r, rn, p]               *)
(*   bad  rows of any response without an integer event id                                            *)
(*   tab  table of every row seen at this point in any response (plain QUERY, RETURN [k], REPLAY per  *)
(*        context, point queries): <<[k, d, n]>> = keys k .. k+n-1 carry ids d .. d+n-1; sorted by k;  *)
(*        no entry spans two bursts                                                                   *)
(*   q, r key intervals <<[k, n]>> returned by QUERY and by QUERY RETURN [k]; qn, rn their row counts  *)
(*   p    rows found by point queries for keys the plain QUERY did not return                          *)
KSet(iv) == UNION {iv[i].k .. iv[i].k + iv[i].n - 1 : i \in 1 .. Len(iv)}
KOverlap(a, b) == ~(a.k + a.n - 1 < b.k) /\ ~(b.k + b.n - 1 < a.k)
\* no key with two ids
TabConsistent(tab) == \A i, j \in 1 .. Len(tab) : i < j => ~KOverlap(tab[i], tab[j])
\* two tables agree on the keys they share
TabsAgree(ta, tb) ==
  \A i \in 1 .. Len(ta), j \in 1 .. Len(tb) :
     KOverlap(ta[i], tb[j]) =>
        LET kk == Max2(ta[i].k, tb[j].k) IN DAdd(ta[i].d, kk - ta[i].k) = DAdd(tb[j].d, kk - tb[j].k)
\* no two keys with one id
TabDistinct(tab) == \A i, j \in 1 .. Len(tab) : i < j => ~OOverlap(tab[i], tab[j])

Bursts(acts, upto) == SelectSeq([i \in 1 .. upto |-> acts[i]], LAMBDA a : a.op = "burst")
\* observed ids of shard s in apply order (= key order: one client, keys handed out in order)
RECURSIVE TabOfBursts(_, _, _)
TabOfBursts(tab, bs, s) ==
  IF bs = <<>> THEN <<>>
  ELSE (IF Head(bs).s = s THEN SelectSeq(tab, LAMBDA e : e.k >= Head(bs).k0 /\ e.k < Head(bs).k0 + Head(bs).n) ELSE <<>>)
       \o TabOfBursts(tab, Tail(bs), s)
Stored(acts, upto) == LET bs == Bursts(acts, upto) IN IF bs = <<>> THEN 0 ELSE bs[Len(bs)].k0 + bs[Len(bs)].n - 1

JudgeView(rec, i, asb, des) ==
  LET o == rec.obs[i]
      obs == [s \in Shards |-> OCat(<<>>, TabOfBursts(o.tab, Bursts(rec.acts, i), s))]
      known == KSet(o.tab)
      hiddenQ == known \ KSet(o.q)
      hiddenR == known \ KSet(o.r)
      earlier == {j \in 1 .. i - 1 : rec.obs[j].has}
  IN IF o.bad > 0 THEN V("violation", "row-without-id")
     ELSE IF ~TabConsistent(o.tab) THEN V("violation", "key-with-two-ids")
     ELSE IF \E j \in earlier : ~TabsAgree(rec.obs[j].tab, o.tab) THEN V("violation", "id-changed")
     ELSE IF OShardsOK(obs) /\ TabDistinct(o.tab) /\ hiddenQ = {} /\ hiddenR = {}
          THEN IF o.qn # Cardinality(KSet(o.q)) \/ o.rn # Cardinality(KSet(o.r)) THEN V("unrelated", "same-event-returned-twice") ELSE OK
     \* not about ids: a row that exists is not returned although no other row carries its id, or one
     \* event (same key, same id) is returned twice - storage / query findings, judged by C01 / C02
     ELSE IF TabDistinct(o.tab) /\ OShardsOK(obs) THEN V("unrelated", "rows-hidden-although-ids-distinct")
     ELSE Attribute(obs, asb[i], des[i],
                    IF hiddenQ # {} \/ hiddenR # {} THEN "events-merged-by-id" ELSE IF ~OShardsOK(obs) THEN "not-increasing" ELSE "duplicate")

JudgeEngine(rec) ==
  LET n == Len(rec.acts)
      asb == MRun(MInit(rec.t0), rec.acts, 1, {})
      des == MRun(MInit(rec.t0), rec.acts, 1, AllFixes)
      views == {i \in 1 .. n : rec.obs[i].has}
      vs == [i \in views |-> JudgeView(rec, i, asb, des)]
      bad == {i \in views : vs[i].kind # "ok"}
      viol == {i \in views : vs[i].kind = "violation"}
      pick == IF viol # {} THEN CHOOSE i \in viol : \A j \in viol : i <= j
              ELSE IF bad # {} THEN CHOOSE i \in bad : \A j \in bad : i <= j ELSE 0
      lost == IF views = {} THEN 0
              ELSE LET l == CHOOSE i \in views : \A j \in views : j <= i
                   IN Stored(rec.acts, l) - Cardinality(KSet(rec.obs[l].tab))
      clocks == \A i \in 1 .. n : rec.obs[i].t = asb[i].clock
  IN [id |-> rec.id,
      verdict |-> IF rec.stalled THEN V("violation", "stalled") ELSE IF pick = 0 THEN OK ELSE vs[pick],
      at |-> pick,
      conform |-> (~rec.stalled /\ clocks /\ \A i \in views :
                      SamePattern([s \in Shards |-> OCat(<<>>, TabOfBursts(rec.obs[i].tab, Bursts(rec.acts, i), s))], asb[i])),
      waits |-> IF n = 0 THEN 0 ELSE asb[n].waits,
      modelBreaks |-> (n > 0 /\ ~MOK(asb[n])), lost |-> lost, evals |-> Cardinality(views)]

Judge(rec) == IF rec.mode = "gen" THEN JudgeGen(rec) ELSE JudgeEngine(rec)

-----------------------------------------------------------------------------
(* one state per record: a binary splitting tree over 1 .. Len(Trace) so that the workers share the records *)
VARIABLES lo, up
TInit == Init /\ lo = 1 /\ up = Len(Trace)
TNext == /\ lo < up /\ UNCHANGED vars
         /\ LET mid == (lo + up) \div 2 IN \/ lo' = lo /\ up' = mid
                                           \/ lo' = mid + 1 /\ up' = up
TSpec == TInit /\ [][TNext]_<<vars, lo, up>>
Emit == (lo = up /\ lo >= 1) => PrintT(<<"VERDICT", ToJson(Judge(Trace[lo]))>>)

\* burst sizes at this scale, for the driver that concretises size indices
ASSUME PrintT(<<"SIZES", ToJson([bi \in 1 .. 6 |-> BurstSize(bi)])>>)
=============================================================================
