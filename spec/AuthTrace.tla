----------------------------- MODULE AuthTrace -----------------------------
(* Stage T: re-judges recorded executions of the real server.  IOEnv.TRACE is   *)
(* NDJSON, in the order things happened:                                        *)
(*   {"k":"life","sid":S}                         a new server lifetime          *)
(*   {"k":"act","a":..,"roles"|"p","t"|"c":..,    a management action the admin  *)
(*    "snap":{ex,act,roles,perms}}                performed, and the subject's   *)
(*                                                row of the server's user table *)
(*                                                read back afterwards           *)
(*   {"k":"req","id":N,"fe","form","cred","who","c","cmd":{k,t,t2},             *)
(*    "cls":class,"seen":[types],"eff":"yes"|"no"|"na"}   a request and what     *)
(*                                                the server did with it         *)
(* The specification state is rebuilt from the actions with Auth!Apply; every   *)
(* request is judged with Auth!Expected / Auth!MaySee in the state at the time  *)
(* of the request.  A verdict is printed for every record that is not exactly   *)
(* as expected; `exec`, `eff`, `leak` are the C13 violations (executed, side    *)
(* effect, or data shown without authentication + permission), `state` a user   *)
(* table that differs from the model, the rest is informational.                *)
EXTENDS Auth, Json, IOUtils
VARIABLE i

Trace == ndJsonDeserialize(IOEnv.TRACE)
ToSet(sq) == {sq[j] : j \in DOMAIN sq}

ActOf(r) == CASE r.a = "create" -> [a |-> "create", roles |-> ToSet(r.roles)]
              [] r.a \in {"grant", "revoke"} -> [a |-> r.a, p |-> ToSet(r.p), t |-> r.t]
              [] r.a = "auth" -> [a |-> "auth", c |-> r.c]
              [] OTHER -> [a |-> r.a]

ReqOf(r) == Req(r.fe, r.form, r.cred, r.who, r.c, Cmd(r.cmd.k, r.cmd.t, r.cmd.t2))

SnapOf(s) == [ex |-> s.ex, act |-> s.act, roles |-> s.roles,
              perms |-> [t \in Types |-> [set |-> s.perms[t].set, r |-> s.perms[t].r, w |-> s.perms[t].w]]]
SnapIn(r) == [ex |-> r.snap.ex, act |-> r.snap.act, roles |-> ToSet(r.snap.roles),
              perms |-> [t \in Types |-> [set |-> r.snap.perms[t].set, r |-> r.snap.perms[t].r, w |-> r.snap.perms[t].w]]]

TInit == i = 1 /\ st = Blank("u1") /\ last = [a |-> "init"]
TNext == /\ i <= Len(Trace)
         /\ i' = i + 1
         /\ LET r == Trace[i] IN
            CASE r.k = "life" -> st' = Blank(r.sid) /\ last' = [a |-> "init"]
              [] r.k = "act"  -> st' = Apply(st, ActOf(r)) /\ last' = ActOf(r)
              [] OTHER        -> UNCHANGED <<st, last>>
TSpec == TInit /\ [][TNext]_<<vars, i>>

\* judged in the state BEFORE record i is consumed (requests do not change the state)
JudgeReq(r) ==
  LET q    == ReqOf(r)
      e    == Expected(st, q)
      see  == MaySee(st, q)
      v    == [i |-> i, id |-> r.id, exp |-> e, see |-> see,
               wf   |-> WellFormed(st, q),
               exec |-> r.cls = "Executed" /\ e # "Executed",
               eff  |-> r.eff = "yes" /\ e # "Executed",
               leak |-> ToSet(r.seen) \ see,
               soft |-> r.cls # e]
  IN  (v.exec \/ v.eff \/ v.leak # {} \/ ~v.wf \/ v.soft) => PrintT(<<"JUDGE", ToJson(v)>>)

\* a management action must be enabled in the model, and the server's user table must
\* afterwards show the subject exactly as the model has it
JudgeAct(r) ==
  LET a  == ActOf(r)
      s2 == Apply(st, a)
      v  == [i |-> i, enabled |-> Enabled(st, a), state |-> SnapIn(r) # SnapOf(s2), model |-> SnapOf(s2)]
  IN  (~v.enabled \/ v.state) => PrintT(<<"STATE", ToJson(v)>>)

Judge == i <= Len(Trace) =>
           CASE Trace[i].k = "req" -> JudgeReq(Trace[i])
             [] Trace[i].k = "act" /\ Trace[i].a # "tick" -> JudgeAct(Trace[i])
             [] OTHER -> TRUE
=============================================================================
