--------------------------- MODULE FlushReadTrace ---------------------------
(* Stage T for C03: reads recorded from free-running concurrent clients.  For each *)
(* read: `before` = events acknowledged before it was issued, `after` = events     *)
(* whose STORE had been sent when it returned (they may be visible already).  The properties of FlushRead, stated on the      *)
(* observation: nothing applied before the read is missing, nothing that was never *)
(* stored is returned, no event is returned twice, and COUNT lies between the      *)
(* number of events before and after (a count above `after` is a double count).    *)
EXTENDS Naturals, Integers, FiniteSets, Sequences, TLC, Json, IOUtils

Rec == ndJsonDeserialize(IOEnv.TRACE)
S(q) == {q[i] : i \in DOMAIN q}
IsSel(r) == r.kind \in {"query", "replay"}
Missed == {i \in DOMAIN Rec : IsSel(Rec[i]) /\ ~(S(Rec[i].before) \subseteq S(Rec[i].ks))}
Foreign == {i \in DOMAIN Rec : IsSel(Rec[i]) /\ ~(S(Rec[i].ks) \subseteq S(Rec[i].after))}
Twice == {i \in DOMAIN Rec : IsSel(Rec[i]) /\ Cardinality(S(Rec[i].ks)) # Len(Rec[i].ks)}
Over == {i \in DOMAIN Rec : Rec[i].kind = "count" /\ Rec[i].count > Cardinality(S(Rec[i].after))}
Under == {i \in DOMAIN Rec : Rec[i].kind = "count" /\ Rec[i].count < Cardinality(S(Rec[i].before))}
Ids(X) == {Rec[i].id : i \in X}
ASSUME PrintT(<<"MISSED", ToJson(Ids(Missed))>>)
ASSUME PrintT(<<"FOREIGN", ToJson(Ids(Foreign))>>)
ASSUME PrintT(<<"OVERCOUNT", ToJson(Ids(Over))>>)
ASSUME PrintT(<<"TWICE", ToJson(Ids(Twice))>>)
ASSUME PrintT(<<"UNDERCOUNT", ToJson(Ids(Under))>>)
VARIABLE dummy
Init == dummy = 0
Next == UNCHANGED dummy
Spec == Init /\ [][Next]_dummy
=============================================================================
