----------------------------- MODULE EventIdInd ------------------------------
(***************************************************************************)
(* C18, generator level, UNBOUNDED: one shard's id generator                *)
(* (EventIdGenerator::next, src/engine/core/event/event_id.rs) under an     *)
(* arbitrary clock - any integer reading at every call, forwards, standing  *)
(* still or backwards - and any sequence space > 1.  Checked with Apalache  *)
(* as an inductive invariant (no bound on clock values, number of calls or  *)
(* SeqSpace):                                                               *)
(*   - the sequence field stays inside its space (never spills into the     *)
(*     shard bits),                                                         *)
(*   - every id is lexicographically above the one issued before it, hence  *)
(*     ids of a shard are unique and increase in issue order.               *)
(* StepA transcribes the same function as EventId!Step (TLC checks that on  *)
(* a grid: MCEventIdInd), which in turn is bound to the code by C18's       *)
(* recorded executions of the real generator.                               *)
(***************************************************************************)
EXTENDS Integers

CONSTANT
  \* @type: Int;
  SeqSpace

VARIABLES
  \* @type: Int;
  last,
  \* @type: Int;
  seq,
  \* @type: Int;
  pl,
  \* @type: Int;
  ps,
  \* @type: Bool;
  issued

CInit == SeqSpace \in Int /\ SeqSpace > 1

\* the clock reading after pinning a backward step to the last issued millisecond
Pin(l, c) == IF c < l THEN l ELSE c
\* does this call have to wait for the next millisecond (sequence space used up)?
MustWait(l, s, c) == Pin(l, c) = l /\ (s + 1) % SeqSpace = 0

\* one call of next() with clock reading c; w = the millisecond wait_next_millis returns when it has to wait
\* @type: (Int, Int, Int, Int) => <<Int, Int>>;
StepA(l, s, c, w) ==
  IF MustWait(l, s, c) THEN <<w, 0>>
  ELSE IF Pin(l, c) = l THEN <<l, s + 1>>
  ELSE <<Pin(l, c), 0>>

Init == last = -1 /\ seq = 0 /\ pl = -1 /\ ps = 0 /\ issued = FALSE

Next ==
  \E c \in Int : \E w \in Int :
    /\ c >= 0
    /\ w > last                      \* wait_next_millis(last) spins until the clock is above `last`
    /\ last' = StepA(last, seq, c, w)[1]
    /\ seq' = StepA(last, seq, c, w)[2]
    /\ pl' = last /\ ps' = seq /\ issued' = TRUE

Lex(a1, a2, b1, b2) == a1 < b1 \/ (a1 = b1 /\ a2 < b2)

\* the inductive invariant
IndInv ==
  /\ last >= -1 /\ pl >= -1
  /\ 0 <= seq /\ seq < SeqSpace
  /\ 0 <= ps /\ ps < SeqSpace
  /\ issued => Lex(pl, ps, last, seq)

\* for the inductive step: any state satisfying the invariant
IndInit == last \in Int /\ seq \in Int /\ pl \in Int /\ ps \in Int /\ issued \in BOOLEAN /\ IndInv
=============================================================================
