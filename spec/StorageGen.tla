----------------------------- MODULE StorageGen -----------------------------
(* Behaviour generator over Storage: carries the command history with, after  *)
(* every command, the observation the (as-built or design) model predicts at  *)
(* quiescence, and prints each behaviour of length GenLen as one JSON line.   *)
EXTENDS Storage, Json
CONSTANT GenLen
VARIABLE hist

KC(s) == [i \in DOMAIN s |-> <<s[i].k, s[i].c>>]
\* predicted observation in the NEXT state: per type the segment-flow rows and the
\* memtable-flow rows (each in delivery order), plus disk and list projections
ObsNext == [rows |-> [t \in Types |-> [seg |-> KC(SegRows(t)'), mem |-> KC(MemRows(t)')]],
            live |-> live', segs |-> DOMAIN dirs', idx |-> {<<s, idx'[s]>> : s \in DOMAIN idx'},
            wal |-> DOMAIN wal',
            dirrows |-> {<<s, t, KC(dirs'[s][t])>> : s \in DOMAIN dirs', t \in Types}, memlen |-> Len(mem'), nextL0 |-> nextL0',
            fired |-> fired']

GenInit == Init /\ hist = <<>>
GenNext ==
  /\ Len(hist) < GenLen
  /\ \/ \E t \in Types, c \in Ctxs, cr \in FlushCrash \cup {"none"}, p \in SUBSET Types :
          /\ Store(t, c, cr, p)
          /\ hist' = Append(hist, [cmd |-> "store", k |-> nstored + 1, t |-> t, c |-> c,
                                   crash |-> cr, part |-> p, obs |-> ObsNext])
     \/ \E cr \in FlushCrash \cup {"none"}, p \in SUBSET Types :
          /\ ManualFlush(cr, p)
          /\ hist' = Append(hist, [cmd |-> "flush", crash |-> cr, part |-> p, obs |-> ObsNext])
     \/ \E cr \in CompactCrash \cup {"none"} :
          /\ Compact(cr)
          /\ hist' = Append(hist, [cmd |-> "compact", crash |-> cr, obs |-> ObsNext])
     \/ /\ CrashRestart
        /\ hist' = Append(hist, [cmd |-> "crash", obs |-> ObsNext])
     \/ /\ CleanRestart
        /\ hist' = Append(hist, [cmd |-> "restart", obs |-> ObsNext])
GenSpec == GenInit /\ [][GenNext]_<<vars, hist>>

Emit == Len(hist) = GenLen => PrintT(<<"BEH", ToJson(hist)>>)
\* exhaustive generation: the history is part of the state, so breadth-first search
\* enumerates every behaviour of length <= GenLen exactly once
=============================================================================
