SPECIFICATION GenSpec
CONSTANTS
  SubjectIds = {"u1", "byp"}
  RoleSets = {{}, {"read-only"}, {"editor"}}
  Conns = {"c1", "w1"}
  WithTick = TRUE
  GenLen = 5
INVARIANT Emit
CHECK_DEADLOCK FALSE
