---------------------------- MODULE FlushReadGenR ----------------------------
(* Behaviour generator over FlushRead with a reader whose own steps interleave  *)
(* with the flush pipeline, at the grain the code allows a test to force:       *)
(*   rbegin    the mailbox step (copy of the active memtable, list of the       *)
(*             non-empty passive buffers)             hook read.mailbox_done    *)
(*   rsegs     the segment flow: live list + in-flight set, then the files of   *)
(*             every listed segment          hooks read.seglist_begin .. read.segments_done *)
(*   rpassive  the memtable flow locks the next snapshotted passive buffer      *)
(*             (oldest first)                hooks read.passive .. read.passive_done *)
(*   rend      the response is complete                                         *)
(* Stores and every step of the flush worker may be scheduled between them.     *)
(* Each behaviour carries, at rend, what the as-built model says the read       *)
(* returns and the set of events applied before the read began.                 *)
EXTENDS FlushRead, Json
CONSTANT GenLen
VARIABLE hist

MinOf(S) == CHOOSE x \in S : \A y \in S : x <= y

RSegAll ==
  /\ rd.pc = "run" /\ ~rd.listed
  /\ LET L == live \cup inflight
         got == FoldSet(LAMBDA s, acc : acc \o (IF s \in DOMAIN dirs THEN dirs[s] ELSE <<>>), <<>>, L)
     IN rd' = [rd EXCEPT !.listed = TRUE, !.segList = L, !.todoS = {}, !.srows = @ \o got]
  /\ UNCHANGED <<nst, mem, passive, queue, job, inflight, dirs, live, nextSeg>>
RPassiveNext == rd.pc = "run" /\ rd.todoP # {} /\ RPassive(MinOf(rd.todoP))

GenInit == Init /\ hist = <<>>
MustRecv == queue # <<>> /\ job = Idle
GenNext ==
  /\ Len(hist) < GenLen
  /\ IF MustRecv THEN FlushRecv /\ hist' = Append(hist, [a |-> "recv", seg |-> Head(queue)])
     ELSE \/ Store /\ hist' = Append(hist, [a |-> "store", k |-> nst + 1])
          \/ FlushWriteBegin /\ hist' = Append(hist, [a |-> "wbegin", seg |-> job.seg])
          \/ FlushWrite /\ hist' = Append(hist, [a |-> "write", seg |-> job.seg])
          \/ FlushPublish /\ hist' = Append(hist, [a |-> "publish", seg |-> job.seg])
          \/ FlushClear /\ hist' = Append(hist, [a |-> "clear", seg |-> job.seg])
          \/ FlushClean /\ hist' = Append(hist, [a |-> "clean", seg |-> job.seg])
          \/ FlushDone /\ hist' = Append(hist, [a |-> "done", seg |-> job.seg])
          \/ RBegin /\ hist' = Append(hist, [a |-> "rbegin", before |-> 1..nst,
                                             passives |-> Cardinality({s \in DOMAIN passive : ~passive[s].cleared}),
                                             stage |-> job.stage])
          \/ RSegAll /\ hist' = Append(hist, [a |-> "rsegs", stage |-> job.stage, segs |-> live \cup inflight,
                                            \* an incomplete directory is scanned: as built the segment rows of this read may all be lost
                                            partial |-> job.stage = "writing",
                                            partial_evs |-> IF job.stage = "writing" THEN SeqSet(passive[job.seg].evs) ELSE {}])
          \/ RPassiveNext /\ hist' = Append(hist, [a |-> "rpassive", seg |-> MinOf(rd.todoP),
                                                   cleared |-> passive[MinOf(rd.todoP)].cleared])
          \/ REnd /\ hist' = Append(hist, [a |-> "rend", before |-> rd.before, selection |-> SeqSet(rd.rows \o rd.srows),
                                           count |-> Len(rd.rows \o rd.srows),
                                           mem_selection |-> SeqSet(rd.rows), mem_count |-> Len(rd.rows)])
GenSpec == GenInit /\ [][GenNext]_<<vars, hist>>
Emit == Len(hist) = GenLen => PrintT(<<"BEH", ToJson(hist)>>)
=============================================================================
