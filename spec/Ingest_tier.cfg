SPECIFICATION TierSpec
CONSTANTS
  Part = "tier"
  Fix = {"json-aware-payload-scan", "exponent-plus-tokenised", "time-range-checked", "text-kept-as-text", "strings-not-parsed", "null-bitmap-for-text", "float-column-keeps-integers", "return-columns-ordered", "compaction-tolerates-missing-column"}
  GenLen = 7
  MaxB = 3
  MaxLen = 2
INVARIANTS ReadBack NothingLost EmitTier
CHECK_DEADLOCK FALSE
