------------------------------ MODULE AuthGen ------------------------------
(* Behaviour generator over Auth (Stage R): carries the history of management   *)
(* actions with the state the specification reaches after each, and prints      *)
(* each behaviour of length GenLen as one JSON line.  What the specification    *)
(* expects of the probe requests in each of these states is printed by          *)
(* AuthProbe for the states of the behaviours that are actually replayed.       *)
EXTENDS Auth, Json
CONSTANT GenLen
VARIABLE hist

GenInit == Init /\ hist = <<>>
GenNext == /\ Len(hist) < GenLen
           /\ Next
           /\ hist' = Append(hist, [act |-> last', st |-> st'])
GenSpec == GenInit /\ [][GenNext]_<<vars, hist>>

Emit == Len(hist) = GenLen => PrintT(<<"BEH", ToJson([sid |-> st.sid, steps |-> hist])>>)
=============================================================================
