SPECIFICATION Spec
CONSTANTS
  Cap = 2
  MaxEv = 5
  Fix = {}
  ReaderAtomic = FALSE
INVARIANTS ReadExactlyOnce NoForeign
CHECK_DEADLOCK FALSE
