-------------------------------- MODULE Auth --------------------------------
(***************************************************************************)
(* C13 - no data command runs without authentication and the required      *)
(* permission.                                                             *)
(*                                                                         *)
(* The module states, from the property text and the product's own         *)
(* documentation (docs/src/commands/user_management.md: authentication     *)
(* formats, role table, "Access Control Priority"), NOT from the handlers:  *)
(*   - who a request is authenticated as (AuthAs): only a valid signature   *)
(*     over exactly the command text, made with the key of an existing,    *)
(*     active user, or a live session token of an active user, counts;     *)
(*   - what that principal may do (Authorized): STORE needs write on the   *)
(*     type; every command that hands out events or figures computed from  *)
(*     them (QUERY / FIND / aggregates / REPLAY / sequence / comparison /  *)
(*     REMEMBER / SHOW) needs read on EVERY type it touches; FLUSH and     *)
(*     PING need authentication only; DEFINE and user / permission         *)
(*     management need the admin role;                                     *)
(*   - Expected(s, req) in {Unauthenticated, Forbidden, Executed} and      *)
(*     MaySee(s, req), the event types whose data may occur in the answer. *)
(* The state is what an admin can set up for ONE subject user (any id the  *)
(* system lets an admin create, including the strings the code treats      *)
(* specially), next to three fixed principals: the bootstrap admin, an     *)
(* ordinary second user (whose signatures are offered under the subject's  *)
(* name) and an id that was never created.                                 *)
(*                                                                         *)
(* A request is judged only in the safety direction demanded by C13:       *)
(* executing / showing data / leaving a side effect is allowed only when    *)
(* Expected = "Executed" (and data only of MaySee).  An answer that is     *)
(* stricter than documented is recorded, not condemned.                    *)
(***************************************************************************)
EXTENDS Naturals, Sequences, FiniteSets, TLC

CONSTANTS
  SubjectIds,   \* abstract ids of the subject: "u1" ordinary, "byp" = "bypass", "noa" = "no-auth", "adm2" = "admin"
  RoleSets,     \* role sets a subject may be created with (a set of sets of role names)
  Conns,        \* persistent connections that may AUTH as the subject: "c1" (TCP), "w1" (WebSocket)
  WithTick      \* BOOLEAN: session expiry explored

Types        == {"ta", "tb"}
RoleNames    == {"admin", "read-only", "viewer", "editor", "write-only"}
ReadingRoles == {"read-only", "viewer", "editor"}     \* role table in the documentation
WritingRoles == {"editor", "write-only"}
Classes      == {"Unauthenticated", "Forbidden", "Executed"}

NoPerm   == [set |-> FALSE, r |-> FALSE, w |-> FALSE]
NoPerms  == [t \in Types |-> NoPerm]

VARIABLES st,    \* [sid, ex, act, roles, perms, conn, tok]: what the admin has set up for the subject
          last   \* the management action that led here (record), for the action properties

vars == <<st, last>>

(***************************************************************************)
(* Principals                                                              *)
(***************************************************************************)
Principals == {"subj", "adm", "u2", "ghost"}

AdminUser == [ex |-> TRUE, act |-> TRUE, roles |-> {"admin"}, perms |-> NoPerms]
\* fixed second user: no roles, READ on tb only
OtherUser == [ex |-> TRUE, act |-> TRUE, roles |-> {},
              perms |-> [t \in Types |-> IF t = "tb" THEN [set |-> TRUE, r |-> TRUE, w |-> FALSE] ELSE NoPerm]]
GhostUser == [ex |-> FALSE, act |-> FALSE, roles |-> {}, perms |-> NoPerms]

U(s, p) == CASE p = "subj"  -> [ex |-> s.ex, act |-> s.act, roles |-> s.roles, perms |-> s.perms]
             [] p = "adm"   -> AdminUser
             [] p = "u2"    -> OtherUser
             [] OTHER       -> GhostUser

(***************************************************************************)
(* Authorisation.  CanRead / CanWrite follow the documented priority       *)
(* (admin > specific permission > role > deny; a permission entry with     *)
(* neither right is an explicit denial; for WRITE an existing entry        *)
(* replaces the role).  MayRead / MayWrite are the bare reading of the     *)
(* property text (permission OR role); Stage M checks that the documented  *)
(* rule never grants more than that.                                       *)
(***************************************************************************)
IsAdmin(u)          == "admin" \in u.roles
ExplicitDeny(u, t)  == u.perms[t].set /\ ~u.perms[t].r /\ ~u.perms[t].w
CanRead(u, t)  == \/ IsAdmin(u)
                  \/ u.perms[t].set /\ u.perms[t].r
                  \/ ~ExplicitDeny(u, t) /\ u.roles \cap ReadingRoles # {}
CanWrite(u, t) == \/ IsAdmin(u)
                  \/ IF u.perms[t].set THEN u.perms[t].w ELSE u.roles \cap WritingRoles # {}
MayRead(u, t)  == IsAdmin(u) \/ u.perms[t].r \/ u.roles \cap ReadingRoles # {}
MayWrite(u, t) == IsAdmin(u) \/ u.perms[t].w \/ u.roles \cap WritingRoles # {}

(***************************************************************************)
(* Commands: [k, t, t2].  t2 only for the two-type kinds, "-" otherwise.   *)
(***************************************************************************)
WriteKinds  == {"store", "store_tokpayload", "store_sigpayload", "batch_store", "json_store"}
Read1Kinds  == {"query", "find", "count", "agg", "replay", "remember", "show", "json_query", "json_replay"}
Read2Kinds  == {"seq", "compare"}
ReadAllKinds == {"replay_all"}
AuthOnlyKinds == {"flush", "ping"}
AdminKinds  == {"define", "create_user", "revoke_key", "list_users", "grant", "revoke", "show_perms"}
JsonKinds   == {"json_store", "json_query", "json_replay"}

Cmd(k, t, t2) == [k |-> k, t |-> t, t2 |-> t2]
AllCmds ==
  {Cmd(k, t, "-") : k \in WriteKinds \cup Read1Kinds, t \in Types}
  \cup ({Cmd(k, t, t2) : k \in Read2Kinds, t \in Types, t2 \in Types} \ ({Cmd("compare", "tb", "ta")} \cup {Cmd(k, t, t) : k \in Read2Kinds, t \in Types}))
  \cup {Cmd(k, "-", "-") : k \in ReadAllKinds \cup AuthOnlyKinds \cup AdminKinds}
TextCmds == {c \in AllCmds : c.k \notin JsonKinds}
JsonCmds == {c \in AllCmds : c.k \in JsonKinds}

Touches(c) == CASE c.k \in Read1Kinds   -> {c.t}
                [] c.k \in Read2Kinds   -> {c.t, c.t2}
                [] c.k \in ReadAllKinds -> Types
                [] OTHER                -> {}

Authorized(u, c) ==
  CASE c.k \in WriteKinds    -> CanWrite(u, c.t)
    [] c.k \in AdminKinds    -> IsAdmin(u)
    [] c.k \in AuthOnlyKinds -> TRUE
    [] OTHER                 -> \A t \in Touches(c) : CanRead(u, t)

\* the same with the bare property-text reading (upper bound)
MayBeAuthorized(u, c) ==
  CASE c.k \in WriteKinds    -> MayWrite(u, c.t)
    [] c.k \in AdminKinds    -> IsAdmin(u)
    [] c.k \in AuthOnlyKinds -> TRUE
    [] OTHER                 -> \A t \in Touches(c) : MayRead(u, t)

(***************************************************************************)
(* Requests: [fe, form, cred, who, c, cmd].                                *)
(*  fe   front end: tcp | ws | unix | http | httpjson                      *)
(*  form inline      user:sig:cmd                                          *)
(*       authconn    AUTH user:sig(user) then sig:cmd on the same fresh    *)
(*                   connection                                            *)
(*       conn        sig:cmd on persistent connection c (AUTHed earlier)   *)
(*       token       cmd TOKEN <token minted on connection c>              *)
(*       header      X-Auth-User / X-Auth-Signature                        *)
(*       none        the bare command                                      *)
(*  cred valid       signature over exactly the command with who's key /   *)
(*                   the token as minted                                   *)
(*       wrongkey    signature made with a key that is not who's           *)
(*       othersig    signature made with u2's real key, offered as who     *)
(*       othercmd    who's key, but over a different command text          *)
(*       truncated / extended / empty   a valid credential mangled         *)
(*       flipped     token with its last digit changed                     *)
(*       badauth     authconn: AUTH made with a wrong key, then a valid    *)
(*                   signature                                             *)
(*       nosig       authconn / conn: AUTH valid, then the bare command    *)
(*       none        no credential                                         *)
(***************************************************************************)
SigCreds   == {"valid", "wrongkey", "othersig", "othercmd", "truncated", "extended", "empty"}
ConnCreds  == {"valid", "wrongkey", "othercmd", "truncated", "badauth", "nosig"}
TokenCreds == {"valid", "truncated", "flipped"}

FeOf(c) == IF c = "w1" THEN "ws" ELSE "tcp"

Req(fe, form, cred, who, c, cmd) == [fe |-> fe, form |-> form, cred |-> cred, who |-> who, c |-> c, cmd |-> cmd]

\* the principal a request is authenticated as ("nobody" if none)
AuthAs(s, q) ==
  CASE q.form \in {"inline", "header", "authconn"} ->
         IF q.cred = "valid" /\ U(s, q.who).ex /\ U(s, q.who).act THEN q.who ELSE "nobody"
    [] q.form = "conn" ->
         IF q.cred = "valid" /\ q.c \in Conns /\ s.conn[q.c] /\ s.ex /\ s.act THEN "subj" ELSE "nobody"
    [] q.form = "token" ->
         IF q.cred = "valid" /\ q.c \in Conns /\ s.tok[q.c] = "live" /\ s.ex /\ s.act THEN "subj" ELSE "nobody"
    [] OTHER -> "nobody"

Expected(s, q) ==
  LET p == AuthAs(s, q) IN
  IF p = "nobody" THEN "Unauthenticated"
  ELSE IF Authorized(U(s, p), q.cmd) THEN "Executed" ELSE "Forbidden"

MaySee(s, q) == IF Expected(s, q) = "Executed" THEN Touches(q.cmd) ELSE {}

\* upper bound from the bare property text (for Stage M only)
MayExecute(s, q) ==
  LET p == AuthAs(s, q) IN p # "nobody" /\ MayBeAuthorized(U(s, p), q.cmd)

(***************************************************************************)
(* The request space.  WellFormed says which combinations exist on the     *)
(* wire; ProbeSet is the pairwise selection Stage R prints with expected   *)
(* results (every credential variant with one write and one read, every    *)
(* command kind with valid credentials); Stage T judges arbitrary          *)
(* well-formed requests.                                                   *)
(***************************************************************************)
WellFormed(s, q) ==
  /\ q.who \in Principals
  /\ q.cmd \in AllCmds
  /\ (q.cred = "othersig" => q.who # "u2")
  /\ (q.fe = "httpjson") = (q.cmd.k \in JsonKinds)
  /\ CASE q.form = "inline"   -> q.fe \in {"tcp", "ws", "unix", "http"} /\ q.cred \in SigCreds /\ q.c = "-"
       [] q.form = "header"   -> q.fe \in {"http", "httpjson"} /\ q.cred \in SigCreds /\ q.c = "-"
       [] q.form = "authconn" -> q.fe \in {"tcp", "ws"} /\ q.cred \in ConnCreds /\ q.c = "-"
       [] q.form = "conn"     -> q.c \in Conns /\ q.fe = FeOf(q.c) /\ s.conn[q.c] /\ q.who = "subj"
                                 /\ q.cred \in ConnCreds \ {"badauth"}
       [] q.form = "token"    -> q.c \in Conns /\ q.fe \in {"tcp", "ws"} /\ s.tok[q.c] # "none" /\ q.who = "subj"
                                 /\ q.cred \in TokenCreds
       [] q.form = "none"     -> q.fe \in {"tcp", "ws", "unix", "http", "httpjson"} /\ q.cred = "none" /\ q.c = "-"
       [] OTHER               -> FALSE
  \* a batch panics the connection task in the pinned code (C17's business): only on fresh connections
  /\ q.cmd.k = "batch_store" => q.form \in {"inline", "header", "none"} /\ q.fe \in {"tcp", "http"}

CredCmds == {Cmd("store", "ta", "-"), Cmd("query", "ta", "-")}
CredJsonCmds == {Cmd("json_query", "ta", "-")}

CredProbes(s) ==
  \* signature forms, claimed as the subject
     {Req(fe, "inline", cr, "subj", "-", c) : fe \in {"tcp", "ws", "unix", "http"}, cr \in SigCreds, c \in CredCmds}
  \cup {Req("http", "header", cr, "subj", "-", c) : cr \in SigCreds, c \in CredCmds}
  \cup {Req("httpjson", "header", cr, "subj", "-", c) : cr \in {"valid", "wrongkey", "othercmd", "othersig"}, c \in CredJsonCmds}
  \cup {Req(fe, "authconn", cr, "subj", "-", c) : fe \in {"tcp", "ws"}, cr \in ConnCreds, c \in CredCmds}
  \* an id that was never created, with a well-formed signature
  \cup {Req(fe, "inline", "valid", "ghost", "-", c) : fe \in {"tcp", "ws", "unix", "http"}, c \in CredCmds}
  \cup {Req("http", "header", "valid", "ghost", "-", c) : c \in CredCmds}
  \cup {Req("tcp", "authconn", "valid", "ghost", "-", c) : c \in CredCmds}
  \* nothing at all
  \cup {Req(fe, "none", "none", "subj", "-", c) : fe \in {"tcp", "ws", "unix", "http"}, c \in CredCmds}
  \cup {Req("httpjson", "none", "none", "subj", "-", c) : c \in CredJsonCmds}
  \* connections and tokens set up earlier
  \cup {Req(FeOf(k), "conn", cr, "subj", k, c) : k \in {x \in Conns : s.conn[x]}, cr \in ConnCreds \ {"badauth"}, c \in CredCmds}
  \cup {Req(fe, "token", cr, "subj", k, c) : fe \in {"tcp", "ws"}, k \in {x \in Conns : s.tok[x] # "none"}, cr \in TokenCreds, c \in CredCmds}

KindProbes(who) ==
     {Req("tcp", "inline", "valid", who, "-", c) : c \in TextCmds}
  \cup {Req("httpjson", "header", "valid", who, "-", c) : c \in JsonCmds}

ProbeSet(s) == CredProbes(s) \cup KindProbes("subj")
StaticProbes == KindProbes("adm") \cup KindProbes("u2")

(***************************************************************************)
(* Management actions (issued by the bootstrap admin with a valid          *)
(* signature; their own acceptance is checked against the real server's    *)
(* user table after every step).                                           *)
(***************************************************************************)
PermSpecs == {{"r"}, {"w"}, {"r", "w"}}
RevSpecs  == {{"r"}, {"w"}, {}}          \* {} = "REVOKE ON t FROM u": everything

Blank(sid) == [sid |-> sid, ex |-> FALSE, act |-> FALSE, roles |-> {}, perms |-> NoPerms,
               conn |-> [c \in Conns |-> FALSE], tok |-> [c \in Conns |-> "none"]]

KillTokens(tk) == [c \in Conns |-> IF tk[c] = "live" THEN "dead" ELSE tk[c]]

ApplyCreate(s, rs)   == [s EXCEPT !.ex = TRUE, !.act = TRUE, !.roles = rs, !.perms = NoPerms]
ApplyGrant(s, P, t)  == [s EXCEPT !.perms[t] = [set |-> TRUE, r |-> @.r \/ "r" \in P, w |-> @.w \/ "w" \in P]]
ApplyRevoke(s, P, t) == [s EXCEPT !.perms[t] = [set |-> TRUE, r |-> @.r /\ ~(P = {} \/ "r" \in P),
                                                               w |-> @.w /\ ~(P = {} \/ "w" \in P)]]
ApplyRevokeKey(s)    == [s EXCEPT !.act = FALSE, !.tok = KillTokens(@)]
ApplyAuth(s, c)      == [s EXCEPT !.conn[c] = TRUE, !.tok[c] = "live"]
ApplyTick(s)         == [s EXCEPT !.tok = KillTokens(@)]
\* the server process is stopped and started again on the same directories: connections and
\* session tokens are gone, users, keys, roles and permissions are what they were
ApplyRestart(s)      == [s EXCEPT !.conn = [c \in Conns |-> FALSE], !.tok = KillTokens(@)]

\* one step of a recorded / generated history
Apply(s, a) ==
  CASE a.a = "create"     -> ApplyCreate(s, a.roles)
    [] a.a = "grant"      -> ApplyGrant(s, a.p, a.t)
    [] a.a = "revoke"     -> ApplyRevoke(s, a.p, a.t)
    [] a.a = "revoke_key" -> ApplyRevokeKey(s)
    [] a.a = "auth"       -> ApplyAuth(s, a.c)
    [] a.a = "tick"       -> ApplyTick(s)
    [] a.a = "restart"    -> ApplyRestart(s)
    [] OTHER              -> s

Enabled(s, a) ==
  CASE a.a = "create"     -> ~s.ex
    [] a.a \in {"grant", "revoke"} -> s.ex
    [] a.a = "revoke_key" -> s.ex /\ s.act
    [] a.a = "auth"       -> s.ex /\ s.act /\ ~s.conn[a.c]
    [] a.a = "tick"       -> WithTick /\ \E c \in Conns : s.tok[c] = "live"
    [] a.a = "restart"    -> s.ex
    [] OTHER              -> FALSE

Actions ==
     {[a |-> "create", roles |-> rs] : rs \in RoleSets}
  \cup {[a |-> "grant", p |-> P, t |-> t] : P \in PermSpecs, t \in Types}
  \cup {[a |-> "revoke", p |-> P, t |-> t] : P \in RevSpecs, t \in Types}
  \cup {[a |-> "revoke_key"], [a |-> "tick"], [a |-> "restart"]}
  \cup {[a |-> "auth", c |-> c] : c \in Conns}

Init == \E sid \in SubjectIds : st = Blank(sid) /\ last = [a |-> "init"]
Do(a)       == Enabled(st, a) /\ st' = Apply(st, a) /\ last' = a
DoCreate    == \E a \in Actions : a.a = "create" /\ Do(a)
DoGrant     == \E a \in Actions : a.a = "grant" /\ Do(a)
DoRevoke    == \E a \in Actions : a.a = "revoke" /\ Do(a)
DoRevokeKey == \E a \in Actions : a.a = "revoke_key" /\ Do(a)
DoAuth      == \E a \in Actions : a.a = "auth" /\ Do(a)
DoTick      == \E a \in Actions : a.a = "tick" /\ Do(a)
DoRestart   == \E a \in Actions : a.a = "restart" /\ last.a # "restart" /\ Do(a)
Next == DoCreate \/ DoGrant \/ DoRevoke \/ DoRevokeKey \/ DoAuth \/ DoTick \/ DoRestart
Spec == Init /\ [][Next]_vars

(***************************************************************************)
(* Stage M: consistency of the model itself.                               *)
(***************************************************************************)
PermOK(p) == p \in [set : BOOLEAN, r : BOOLEAN, w : BOOLEAN] /\ (~p.set => ~p.r /\ ~p.w)
TypeOK ==
  /\ st.sid \in SubjectIds /\ st.ex \in BOOLEAN /\ st.act \in BOOLEAN
  /\ st.roles \subseteq RoleNames
  /\ \A t \in Types : PermOK(st.perms[t])
  /\ \A c \in Conns : st.conn[c] \in BOOLEAN /\ st.tok[c] \in {"none", "live", "dead"}
  /\ (st.act => st.ex)

AllProbes(s) == ProbeSet(s) \cup StaticProbes

\* Expected is total over the request space and every printed probe is well-formed
ExpectedTotal == \A q \in AllProbes(st) : WellFormed(st, q) /\ Expected(st, q) \in Classes /\ MaySee(st, q) \subseteq Types

\* the documented priority rule never allows more than the property text does
RefinesPropertyText == \A q \in AllProbes(st) : Expected(st, q) = "Executed" => MayExecute(st, q)

\* nothing but an intact credential of an existing active user authenticates
OnlyValidCredentials ==
  \A q \in AllProbes(st) : Expected(st, q) # "Unauthenticated" =>
      /\ q.cred = "valid"
      /\ U(st, AuthAs(st, q)).ex /\ U(st, AuthAs(st, q)).act
      /\ (q.form = "token" => st.tok[q.c] = "live")

\* data is promised only of readable types, writes only with CanWrite, management only to admins
LeastPrivilege ==
  \A q \in AllProbes(st) : Expected(st, q) = "Executed" =>
      LET u == U(st, AuthAs(st, q)) IN
      /\ \A t \in MaySee(st, q) : CanRead(u, t)
      /\ (q.cmd.k \in WriteKinds => CanWrite(u, q.cmd.t))
      /\ (q.cmd.k \in AdminKinds => IsAdmin(u))

\* revocation takes effect for the next request and never widens access
RevocationMonotone ==
  [][ last'.a \in {"revoke", "revoke_key", "tick", "restart"} =>
        \A q \in ProbeSet(st) \cap ProbeSet(st') :
            Expected(st', q) = "Executed" => Expected(st, q) = "Executed" ]_vars
KeyRevocationEffective ==
  [][ last'.a = "revoke_key" =>
        \A q \in ProbeSet(st') : q.who = "subj" => Expected(st', q) = "Unauthenticated" ]_vars
ExpiryEffective ==
  [][ last'.a = "tick" =>
        \A q \in ProbeSet(st') : q.form = "token" => Expected(st', q) = "Unauthenticated" ]_vars
\* a restart neither restores a revoked key nor changes what a signed request may do
RestartChangesNothing ==
  [][ last'.a = "restart" =>
        \A q \in KindProbes("subj") : Expected(st', q) = Expected(st, q) ]_vars
PermRevocationEffective ==
  [][ last'.a = "revoke" =>
        LET u == U(st', "subj") IN
        /\ (last'.p = {} \/ "w" \in last'.p) => (CanWrite(u, last'.t) => IsAdmin(u))
        /\ (last'.p = {} \/ "r" \in last'.p) => (CanRead(u, last'.t) => IsAdmin(u) \/ u.roles \cap ReadingRoles # {})
        /\ last'.p = {} => (CanRead(u, last'.t) => IsAdmin(u)) ]_vars
=============================================================================
