SPECIFICATION Spec
CONSTANTS
  Shards = {1}
  SeqSpace = 4
  ShardSpace = 2
  T0 = 2
  MaxClock = 4
  Sizes = {1, 2}
  MaxIds = 4
  MaxRestart = 1
  MaxBack = 1
  MaxFlush = 0
  Fix = {}
  EngineOps = FALSE
INVARIANTS GloballyDistinct
CHECK_DEADLOCK FALSE
