SPECIFICATION Spec
CONSTANTS
  Family = "W"
  Writers <- WriterKinds
  IdCells <- IdCellsThorough
  MaxBatches = 3
  MaxBatchLen = 3
  MaxRows = 4
  Limits <- LimitsThorough
  Offsets <- OffsetsThorough
INVARIANTS Counters MachineIsDecl NoRepeatedId RunIsSteps
CHECK_DEADLOCK FALSE
