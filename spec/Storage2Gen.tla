----------------------------- MODULE Storage2Gen -----------------------------
(* Two shards of one engine process, both active: the product of two instances *)
(* of Storage that share the process-wide events.  Per-shard actions: STORE   *)
(* (routed by context to one shard) and a compaction round of one shard.      *)
(* Process-wide actions: manual FLUSH (dispatched to every shard), quiescent  *)
(* crash + restart, graceful restart.  A crash inside the flush pipeline of a *)
(* rotation triggered by a STORE, or inside a compaction round, kills the     *)
(* process: the OTHER shard, idle at that moment (the driver waits for flush  *)
(* completion and a drained WAL after every command), takes a quiescent crash *)
(* and restarts with it.  Crash stages inside a MANUAL flush are not explored *)
(* here (both shards' pipelines would run concurrently; Storage.tla covers    *)
(* them one shard at a time).                                                 *)
(* The generator carries the command history with the predicted observation   *)
(* of BOTH shards after every command and prints each behaviour of length     *)
(* GenLen as one JSON line.  TypesA and TypesB may be disjoint (a read by type *)
(* is then a read of one shard's model state) or equal (the same event types  *)
(* - the same uids, file names and per-type caches - live on both shards; the *)
(* driver attributes the rows of a fanned-out read to a shard by context).    *)
EXTENDS Naturals, Sequences, FiniteSets, TLC, Json
CONSTANTS Cap, K, TypesA, TypesB, Ctxs, MaxEv, MaxCrash, MaxFlush, MaxCompact, Fix,
          FlushCrash, CompactCrash, QuiescentCrash, CleanRestarts, GenLen
VARIABLES a_nstored, a_mem, a_wal, a_walCur, a_walCnt, a_walLinked, a_dirs, a_idx, a_live, a_nextL0, a_ncrash, a_nflush, a_ncompact, a_applied, a_fired, a_seenIds,
          b_nstored, b_mem, b_wal, b_walCur, b_walCnt, b_walLinked, b_dirs, b_idx, b_live, b_nextL0, b_ncrash, b_nflush, b_ncompact, b_applied, b_fired, b_seenIds,
          hist

avars == <<a_nstored, a_mem, a_wal, a_walCur, a_walCnt, a_walLinked, a_dirs, a_idx, a_live, a_nextL0, a_ncrash, a_nflush, a_ncompact, a_applied, a_fired, a_seenIds>>
bvars == <<b_nstored, b_mem, b_wal, b_walCur, b_walCnt, b_walLinked, b_dirs, b_idx, b_live, b_nextL0, b_ncrash, b_nflush, b_ncompact, b_applied, b_fired, b_seenIds>>

A == INSTANCE Storage WITH Types <- TypesA, nstored <- a_nstored, mem <- a_mem, wal <- a_wal, walCur <- a_walCur, walCnt <- a_walCnt, walLinked <- a_walLinked, dirs <- a_dirs, idx <- a_idx, live <- a_live, nextL0 <- a_nextL0, ncrash <- a_ncrash, nflush <- a_nflush, ncompact <- a_ncompact, applied <- a_applied, fired <- a_fired, seenIds <- a_seenIds
B == INSTANCE Storage WITH Types <- TypesB, nstored <- b_nstored, mem <- b_mem, wal <- b_wal, walCur <- b_walCur, walCnt <- b_walCnt, walLinked <- b_walLinked, dirs <- b_dirs, idx <- b_idx, live <- b_live, nextL0 <- b_nextL0, ncrash <- b_ncrash, nflush <- b_nflush, ncompact <- b_ncompact, applied <- b_applied, fired <- b_fired, seenIds <- b_seenIds

KC(s) == [i \in DOMAIN s |-> <<s[i].k, s[i].c>>]
ObsA == [rows |-> [t \in TypesA |-> [seg |-> KC(A!SegRows(t)'), mem |-> KC(A!MemRows(t)')]],
   live |-> a_live', segs |-> DOMAIN a_dirs', idx |-> {<<s, a_idx'[s]>> : s \in DOMAIN a_idx'},
   wal |-> DOMAIN a_wal',
   dirrows |-> {<<s, t, KC(a_dirs'[s][t])>> : s \in DOMAIN a_dirs', t \in TypesA},
   memlen |-> Len(a_mem'), nextL0 |-> a_nextL0', fired |-> a_fired']
ObsB == [rows |-> [t \in TypesB |-> [seg |-> KC(B!SegRows(t)'), mem |-> KC(B!MemRows(t)')]],
   live |-> b_live', segs |-> DOMAIN b_dirs', idx |-> {<<s, b_idx'[s]>> : s \in DOMAIN b_idx'},
   wal |-> DOMAIN b_wal',
   dirrows |-> {<<s, t, KC(b_dirs'[s][t])>> : s \in DOMAIN b_dirs', t \in TypesB},
   memlen |-> Len(b_mem'), nextL0 |-> b_nextL0', fired |-> b_fired']

\* what the idle shard goes through when the other one's command kills the process
OtherB(cr) == IF cr = "none" THEN UNCHANGED bvars ELSE B!CrashRestart
OtherA(cr) == IF cr = "none" THEN UNCHANGED avars ELSE A!CrashRestart

GenInit == A!Init /\ B!Init /\ hist = <<>>
GenNext ==
  /\ Len(hist) < GenLen
  /\ \/ \E t \in TypesA, c \in Ctxs, cr \in FlushCrash \cup {"none"}, p \in SUBSET TypesA :
          /\ A!Store(t, c, cr, p) /\ OtherB(IF a_ncrash' # a_ncrash THEN cr ELSE "none")
          /\ hist' = Append(hist, [cmd |-> "store", sh |-> "A", k |-> a_nstored + 1, t |-> t, c |-> c,
                                   crash |-> cr, part |-> p, obsA |-> ObsA, obsB |-> ObsB])
     \/ \E t \in TypesB, c \in Ctxs, cr \in FlushCrash \cup {"none"}, p \in SUBSET TypesB :
          /\ B!Store(t, c, cr, p) /\ OtherA(IF b_ncrash' # b_ncrash THEN cr ELSE "none")
          /\ hist' = Append(hist, [cmd |-> "store", sh |-> "B", k |-> b_nstored + 1, t |-> t, c |-> c,
                                   crash |-> cr, part |-> p, obsA |-> ObsA, obsB |-> ObsB])
     \/ /\ A!ManualFlush("none", {}) /\ B!ManualFlush("none", {})
        /\ hist' = Append(hist, [cmd |-> "flush", sh |-> "AB", crash |-> "none", part |-> {}, obsA |-> ObsA, obsB |-> ObsB])
     \/ \E cr \in CompactCrash \cup {"none"} :
          /\ A!Compact(cr) /\ OtherB(cr)
          /\ hist' = Append(hist, [cmd |-> "compact", sh |-> "A", crash |-> cr, obsA |-> ObsA, obsB |-> ObsB])
     \/ \E cr \in CompactCrash \cup {"none"} :
          /\ B!Compact(cr) /\ OtherA(cr)
          /\ hist' = Append(hist, [cmd |-> "compact", sh |-> "B", crash |-> cr, obsA |-> ObsA, obsB |-> ObsB])
     \/ /\ A!CrashRestart /\ B!CrashRestart
        /\ hist' = Append(hist, [cmd |-> "crash", sh |-> "AB", obsA |-> ObsA, obsB |-> ObsB])
     \/ /\ A!CleanRestart /\ B!CleanRestart
        /\ hist' = Append(hist, [cmd |-> "restart", sh |-> "AB", obsA |-> ObsA, obsB |-> ObsB])
GenSpec == GenInit /\ [][GenNext]_<<avars, bvars, hist>>

\* Lockstep family: every per-shard command of shard A is repeated on shard B straight away, so both shards go through
\* the same layouts with the SAME segment labels, WAL log ids and (when TypesA = TypesB) event-type uids, and a
\* compaction round of A is followed by a round of B over an identical list of input labels.  Anything in the process
\* that is keyed by label / id / uid without the shard is shared between the two in these behaviours.  Pipeline crashes
\* are left to GenNext (they make the shards diverge); quiescent crashes and graceful restarts hit both.
LastCmd == hist[Len(hist)]
MustMirror == hist # <<>> /\ LastCmd.sh = "A"
LockNext ==
  /\ Len(hist) < GenLen
  /\ IF MustMirror
     THEN \/ /\ LastCmd.cmd = "store"
             /\ B!Store(LastCmd.t, LastCmd.c, "none", {}) /\ UNCHANGED avars
             /\ hist' = Append(hist, [cmd |-> "store", sh |-> "B", k |-> b_nstored + 1, t |-> LastCmd.t, c |-> LastCmd.c,
                                      crash |-> "none", part |-> {}, obsA |-> ObsA, obsB |-> ObsB])
          \/ /\ LastCmd.cmd = "compact"
             /\ B!Compact("none") /\ UNCHANGED avars
             /\ hist' = Append(hist, [cmd |-> "compact", sh |-> "B", crash |-> "none", obsA |-> ObsA, obsB |-> ObsB])
     ELSE \/ \E t \in TypesA \cap TypesB, c \in Ctxs :
               /\ A!Store(t, c, "none", {}) /\ UNCHANGED bvars
               /\ hist' = Append(hist, [cmd |-> "store", sh |-> "A", k |-> a_nstored + 1, t |-> t, c |-> c,
                                        crash |-> "none", part |-> {}, obsA |-> ObsA, obsB |-> ObsB])
          \/ /\ A!ManualFlush("none", {}) /\ B!ManualFlush("none", {})
             /\ hist' = Append(hist, [cmd |-> "flush", sh |-> "AB", crash |-> "none", part |-> {}, obsA |-> ObsA, obsB |-> ObsB])
          \/ /\ A!Compact("none") /\ UNCHANGED bvars
             /\ hist' = Append(hist, [cmd |-> "compact", sh |-> "A", crash |-> "none", obsA |-> ObsA, obsB |-> ObsB])
          \/ /\ A!CrashRestart /\ B!CrashRestart
             /\ hist' = Append(hist, [cmd |-> "crash", sh |-> "AB", obsA |-> ObsA, obsB |-> ObsB])
          \/ /\ A!CleanRestart /\ B!CleanRestart
             /\ hist' = Append(hist, [cmd |-> "restart", sh |-> "AB", obsA |-> ObsA, obsB |-> ObsB])
LockSpec == GenInit /\ [][LockNext]_<<avars, bvars, hist>>

\* the product keeps every per-shard property of Storage (checked on small constants by Storage2_m.cfg)
DurableBoth == A!Durable /\ B!Durable
NoForeignBoth == A!NoForeign /\ B!NoForeign
\* both shards live in one process: they restart together
RestartTogether == a_ncrash = b_ncrash
FlushTogether == a_nflush = b_nflush

Emit == Len(hist) = GenLen => PrintT(<<"BEH", ToJson(hist)>>)
=============================================================================
