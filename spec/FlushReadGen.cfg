SPECIFICATION GenSpec
CONSTANTS
  Cap = 2
  MaxEv = 40
  Fix = {}
  ReaderAtomic = TRUE
  GenLen = 14
  HoldUntil = 0
INVARIANT Emit
CHECK_DEADLOCK FALSE
