SPECIFICATION TierSpec
CONSTANTS
  Part = "tier"
  Fix = {}
  GenLen = 4
  MaxB = 2
  MaxLen = 2
INVARIANTS ReadBack
CHECK_DEADLOCK FALSE
