---------------------------- MODULE IngestTrace ----------------------------
(***************************************************************************)
(* Stage T of C06 / C07: re-judges recorded executions of the real engine  *)
(* with the operators of Ingest.  The trace (env TRACE, NDJSON) holds one  *)
(* record per judged item; Python only concretised the abstract case,      *)
(* ran it and decoded the answers into the relations named below.          *)
(*                                                                         *)
(*  t = "case"  a STORE: kinds, slots, extra, shape, ctx, defined (the     *)
(*              abstract case), status = "accept" | "reject" (status class *)
(*              of the response), seen = <<tier name, row present>> for    *)
(*              every later read (memory, after WAL recovery, after FLUSH, *)
(*              after restart)                                             *)
(*  t = "cell"  one returned cell: kind, class, tier, rel = which of the   *)
(*              relations same / null / epoch / own / scalar_of_text /     *)
(*              json_of_text / empty_text / nearest_double hold between    *)
(*              the cell and the stored value                              *)
(*  t = "proj"  a RETURN list: fields, ret, cols (returned column names),  *)
(*              core / exact / perm / mem (see ProjJudge in Ingest)        *)
(*  t = "compact" a compaction round: ok, absent_block                     *)
(*  t = "def"   a DEFINE history: steps with the observed outcome of every *)
(*              DEFINE and the observed status class of every probe STORE  *)
(*                                                                         *)
(* Verdict per record: "ok", "known:<defect>" (the as-built side of Ingest *)
(* predicts exactly this symptom), "bad" (property violated), "unmodelled" *)
(* (the machinery is off: reported as a tool error, never as a violation). *)
(***************************************************************************)
EXTENDS Ingest, IOUtils

Recs == ndJsonDeserialize(IOEnv.TRACE)
N == Len(Recs)

CaseOf(r) == Case(r.kinds, r.slots, r.extra, r.shape, r.ctx, r.defined)
JudgeCase(r) ==
  LET cs == CaseOf(r)
      seenOk == \A i \in 1..Len(r.seen) : r.seen[i][2] = (r.status = "accept") IN
  IF r.status \notin {"accept", "reject"} THEN "bad"
  ELSE IF ~seenOk THEN "bad"                      \* a rejected STORE left a trace / an accepted one is not readable
  ELSE IF Satisfies(r.status, Verdict(cs)) THEN "ok"
  ELSE IF Satisfies(r.status, Built(cs)) /\ CaseDefects(cs) # {}
    THEN "known:" \o (CHOOSE d \in CaseDefects(cs) : TRUE)
  ELSE "bad"

JudgeCell(r) ==
  LET want == ReadDesign(r.kind, r.class)
      b == ReadBuilt(r.kind, r.class, r.tier) IN
  IF SlotOk(r.kind, r.class) = "no" /\ SlotBuilt(r.kind, r.class) = "no" THEN "unmodelled"   \* such a cell cannot have been stored
  ELSE IF r.rel[want] THEN "ok"
  ELSE IF b.defect # "none" /\ r.rel[b.mode] THEN "known:" \o b.defect
  ELSE "bad"

JudgeProj(r) == ProjJudge(ToSet(r.fields), r.ret, ToSet(r.cols), r.core, r.exact, r.perm, r.mem)
JudgeCompact(r) == CompactJudge(r.ok, r.absent_block)

RECURSIVE RegAt(_, _)
RegAt(steps, i) ==
  IF i = 0 THEN [t \in DTypes |-> "none"]
  ELSE LET prev == RegAt(steps, i - 1)
           s == steps[i] IN
       IF s.act = "define" THEN RegAfterDefine(prev, s.type, s.schema, s.outcome) ELSE prev
JudgeDef(r) ==
  LET n == Len(r.steps) IN
  IF \E i \in 1..n : r.steps[i].act = "bad_define" /\ r.steps[i].outcome # "error" THEN "unmodelled"
  ELSE IF \A i \in 1..n : \A t \in DTypes : \A p \in Probes :
            Satisfies(r.steps[i].probes[t][p], Verdict(ProbeCase(RegAt(r.steps, i)[t], p)))
  THEN "ok" ELSE "bad"

Judge(r) == CASE r.t = "case" -> JudgeCase(r)
              [] r.t = "cell" -> JudgeCell(r)
              [] r.t = "proj" -> JudgeProj(r)
              [] r.t = "def"  -> JudgeDef(r)
              [] r.t = "compact" -> JudgeCompact(r)
              [] OTHER        -> "unmodelled"

Verdicts == [i \in 1..N |-> Judge(Recs[i])]
NotOk == SelectSeq([i \in 1..N |-> <<i, Verdicts[i]>>], LAMBDA x : x[2] # "ok")
ASSUME PrintT(<<"TRACE", ToJson([n |-> N, notok |-> NotOk])>>)
=============================================================================
