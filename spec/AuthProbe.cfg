SPECIFICATION PSpec
CONSTANTS
  SubjectIds = {"u1", "byp", "noa", "adm2"}
  RoleSets = {{}}
  Conns = {"c1", "w1"}
  WithTick = TRUE
INVARIANT PrintTable
CHECK_DEADLOCK FALSE
