---------------------------- MODULE MaterializeGen ----------------------------
EXTENDS Materialize, Json
CONSTANT GenLen
VARIABLE hist
GenInit == Init /\ hist = <<>>
GenNext ==
  /\ Len(hist) < GenLen
  /\ \/ Tick /\ hist' = Append(hist, [a |-> "tick"])
     \/ \E sh \in Shards, lag \in {0, 1} :
          /\ Store(sh, lag)
          /\ hist' = Append(hist, [a |-> "store", k |-> Cardinality(evs) + 1, sh |-> sh, lag |-> lag, tick |-> clock,
                                   ts |-> Sec(clock) - lag])
     \/ Remember /\ hist' = Append(hist, [a |-> "remember", stored |-> {e.k : e \in evs}])
     \/ Show /\ hist' = Append(hist, [a |-> "show", asbuilt |-> lastShow', live |-> {e.k : e \in evs}])
GenSpec == GenInit /\ [][GenNext]_<<vars, hist>>
Emit == Len(hist) = GenLen => PrintT(<<"BEH", ToJson(hist)>>)
=============================================================================
