SPECIFICATION Spec
CONSTANTS
  NZ = 12
  RowsPerZone = 2
  Vals = {1, 2, 3}
  Probes = {0, 1, 2, 3, 4}
  Sample = 12
  ProbeOps = {"=", "!=", "<", "<=", ">", ">="}
INVARIANT Emit
CHECK_DEADLOCK FALSE
