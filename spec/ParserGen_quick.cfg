SPECIFICATION GSpec
CONSTANTS
  MaxDepth = 3
  Offsets = {1}
  QLen = 2
  TripleMod = 1
  Families = {"expr", "query", "numeral", "replay", "store", "define", "remember", "simple", "auth", "plot", "batch", "kwident"}
INVARIANT Emit
CHECK_DEADLOCK FALSE
