------------------------------- MODULE TimeGen -------------------------------
(* C16: a time value denotes the same instant on every path.                      *)
(* Instants are 1..N in chronological order; Digits[i] is the number of decimal   *)
(* digits of |epoch seconds| of instant i (the harness supplies the table).       *)
(* Integer spellings follow the documented magnitude rule: total digit count      *)
(*   <= 11 -> seconds, 12..14 -> ms, 15..16 -> us, 17..19 -> ns;                  *)
(* an integer spelling in unit U is a spelling OF instant i only if the rule      *)
(* reads it back in unit U (Faithful); otherwise it denotes some other instant    *)
(* and is not used as a spelling of i.  String spellings (RFC 3339 with any       *)
(* offset, fractional seconds, date-only for midnight instants) always denote i.  *)
EXTENDS Naturals, Integers, FiniteSets, Sequences, TLC, Json, SequencesExt

CONSTANTS N, Digits, Midnight
VARIABLE req

Instants == 1..N
Shift(u) == CASE u = "s" -> 0 [] u = "ms" -> 3 [] u = "us" -> 6 [] u = "ns" -> 9
UnitOf(d) == IF d <= 11 THEN "s" ELSE IF d <= 14 THEN "ms" ELSE IF d <= 16 THEN "us" ELSE IF d <= 19 THEN "ns" ELSE "none"
Faithful(i, u) == UnitOf(Digits[i] + Shift(u)) = u
IntForms == {"int_s", "int_ms", "int_us", "int_ns", "str_s", "str_ms"}
UnitOfForm(f) == CASE f \in {"int_s", "str_s"} -> "s" [] f \in {"int_ms", "str_ms"} -> "ms" [] f = "int_us" -> "us" [] f = "int_ns" -> "ns"
StrForms == {"iso_z", "iso_plus", "iso_minus", "iso_frac"}
Usable(i, f) == IF f \in IntForms THEN Faithful(i, UnitOfForm(f))
                ELSE IF f = "date_only" THEN i \in Midnight ELSE TRUE
AllForms == IntForms \cup StrForms \cup {"date_only"}
UsableTable == {<<i, f>> \in Instants \X AllForms : Usable(i, f)}

\* one stored event per usable (instant, spelling) pair
EvSeq == SetToSeq(UsableTable)
Events == {[k |-> n, i |-> EvSeq[n][1], form |-> EvSeq[n][2]] : n \in DOMAIN EvSeq}

Holds(a, op, b) == CASE op = "=" -> a = b [] op = "!=" -> a # b [] op = "<" -> a < b
                     [] op = "<=" -> a <= b [] op = ">" -> a > b [] op = ">=" -> a >= b
Ops == {"=", "!=", "<", "<=", ">", ">="}

\* query-side literal forms: WHERE accepts ISO strings and epoch seconds; SINCE accepts every spelling
WhereForms == StrForms \cup {"int_s"}
Requests ==
       UNION {{[site |-> "where", op |-> op, i |-> i, form |-> f] : op \in Ops, f \in {f \in WhereForms : Usable(i, f)}} : i \in Instants}
  \cup UNION {{[site |-> "since", op |-> ">=", i |-> i, form |-> f] : f \in {f \in AllForms : Usable(i, f)}} : i \in Instants}
Expected(r) == {e.k : e \in {e \in Events : Holds(e.i, r.op, r.i)}}

Init == req \in Requests
Next == UNCHANGED req
Spec == Init /\ [][Next]_req
Emit == PrintT(<<"CASE", ToJson([r |-> req, exp |-> Expected(req)])>>)
ASSUME PrintT(<<"EVENTS", ToJson(EvSeq)>>)
=============================================================================
