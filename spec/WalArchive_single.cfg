SPECIFICATION Spec
CONSTANTS
  N = 3
  InitN = 3
  Shapes = {"empty", "two", "tornLast", "bad"}
  GrowShapes = {"one"}
  DirFaults = {"noShard", "noRoot", "rootFile", "shardFile"}
  PreKinds = {"garbage", "stale"}
  Mode = "cases"
  MaxSteps = 1
  StepKinds = {"cleanup"}
  Mutant = "none"
  DoPrint = TRUE
  Stride = 1
  Phase = 0
INVARIANTS Emit LastCleanupJudged GoneAreArchived GoneRecovered NoResurrection
CHECK_DEADLOCK FALSE
