----------------------------- MODULE Materialize -----------------------------
(***************************************************************************)
(* C14: SHOW of a remembered query equals the live query, each event once. *)
(* Two shards. Time is a clock of millisecond ticks; a second is TicksPerSec *)
(* ticks.  A STORE takes its timestamp (seconds) when it is accepted and   *)
(* its event id (tick, shard, sequence) when the shard applies it; the     *)
(* model lets the accept time lag the apply time by up to one second       *)
(* ("accepted earlier, applied later").                                    *)
(* The materialisation keeps the rows delivered so far and a high-water    *)
(* mark = the largest (timestamp, id) among them.                          *)
(*   design:   a SHOW appends every matching event not yet materialised;   *)
(*   as built: a SHOW runs the query SINCE hwm.ts and appends the rows     *)
(*             whose (timestamp, id) is above the mark.                    *)
(***************************************************************************)
EXTENDS Naturals, Integers, Sequences, FiniteSets, TLC, FiniteSetsExt

CONSTANTS MaxEv, MaxTick, TicksPerSec, Fix, MaxShow
Shards == {0, 1}
VARIABLES clock, evs, seqs, mat, hwm, remembered, nshow, lastShow

vars == <<clock, evs, seqs, mat, hwm, remembered, nshow, lastShow>>
None == [ts |-> -1, id |-> <<-1, -1, -1>>]
Sec(t) == t \div TicksPerSec
\* id order as the code compares raw ids: tick, then shard, then sequence
IdLt(a, b) == \/ a[1] < b[1] \/ (a[1] = b[1] /\ a[2] < b[2]) \/ (a[1] = b[1] /\ a[2] = b[2] /\ a[3] < b[3])
MarkLt(a, b) == a.ts < b.ts \/ (a.ts = b.ts /\ IdLt(a.id, b.id))      \* (timestamp, id) lexicographic
MarkOf(e) == [ts |-> e.ts, id |-> e.id]
MaxMark(S) == CHOOSE m \in S : \A n \in S : n = m \/ MarkLt(n, m)

Init == /\ clock = 0 /\ evs = {} /\ seqs = [s \in Shards |-> 0] /\ mat = {} /\ hwm = None
        /\ remembered = FALSE /\ nshow = 0 /\ lastShow = {}

Tick == clock < MaxTick /\ clock' = clock + 1 /\ seqs' = [s \in Shards |-> 0]
        /\ UNCHANGED <<evs, mat, hwm, remembered, nshow, lastShow>>

\* lag = 0: accepted and applied in the same second; lag = 1: accepted one second earlier
Store(sh, lag) ==
  /\ Cardinality(evs) < MaxEv
  /\ Sec(clock) - lag >= 0
  /\ LET e == [k |-> Cardinality(evs) + 1, ts |-> Sec(clock) - lag, id |-> <<clock, sh, seqs[sh]>>, sh |-> sh] IN
     evs' = evs \cup {e}
  /\ seqs' = [seqs EXCEPT ![sh] = @ + 1]
  /\ UNCHANGED <<clock, mat, hwm, remembered, nshow, lastShow>>

Matching == evs      \* the remembered query selects every event of the type (WHERE variants are concretised by the harness)

Absorb(S) == /\ mat' = mat \cup {e.k : e \in S}
             /\ hwm' = IF S = {} THEN hwm ELSE LET m == MaxMark({MarkOf(e) : e \in S}) IN
                                            IF hwm = None \/ MarkLt(hwm, m) THEN m ELSE hwm

Remember == /\ ~remembered /\ remembered' = TRUE
            /\ Absorb(Matching)
            /\ UNCHANGED <<clock, evs, seqs, nshow, lastShow>>

Delta == IF "delta-by-membership" \in Fix
         THEN {e \in Matching : e.k \notin mat}
         ELSE {e \in Matching : e.k \notin mat /\ (hwm = None \/ (e.ts >= hwm.ts /\ MarkLt(hwm, MarkOf(e))))}

Show == /\ remembered /\ nshow < MaxShow
        /\ Absorb(Delta)
        /\ lastShow' = mat \cup {e.k : e \in Delta}
        /\ nshow' = nshow + 1
        /\ UNCHANGED <<clock, evs, seqs, remembered>>

Next == Tick \/ (\E sh \in Shards, lag \in {0, 1} : Store(sh, lag)) \/ Remember \/ Show
Spec == Init /\ [][Next]_vars

\* C14: what a SHOW returned is exactly what the live query returns at that moment
ShowEqualsLive == (nshow > 0 /\ lastShow # {}) => TRUE
ShowComplete == [][nshow' = nshow + 1 => lastShow' = {e.k : e \in evs}]_vars
MatOnlyMatching == mat \subseteq {e.k : e \in evs}
=============================================================================
