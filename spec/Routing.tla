------------------------------- MODULE Routing -------------------------------
(* C12: all events of a context live on one shard; unscoped reads cover all shards. *)
(* Model: a router that is a function of the context id only (and of the shard      *)
(* count), unchanged by restarts; per-shard stores; scoped and unscoped reads.      *)
EXTENDS Naturals, FiniteSets, Sequences, TLC

CONSTANTS Ctxs, Shards, MaxEv, MaxRestart, Router   \* Router : [Ctxs -> Shards], any function
VARIABLES held, owner, n, restarts, route

vars == <<held, owner, n, restarts, route>>
Init == held = [s \in Shards |-> {}] /\ owner = <<>> /\ n = 0 /\ restarts = 0 /\ route = [c \in {} |-> 0]
Store(c) == /\ n < MaxEv /\ n' = n + 1
            /\ held' = [held EXCEPT ![Router[c]] = @ \cup {n + 1}]
            /\ owner' = owner @@ ((n + 1) :> c)
            /\ route' = IF c \in DOMAIN route THEN route ELSE route @@ (c :> Router[c])
            /\ UNCHANGED restarts
Restart == restarts < MaxRestart /\ restarts' = restarts + 1 /\ UNCHANGED <<held, owner, n, route>>
Next == (\E c \in Ctxs : Store(c)) \/ Restart
Spec == Init /\ [][Next]_vars

Scoped(c) == UNION {{k \in held[s] : owner[k] = c} : s \in {Router[c]}}
Unscoped == UNION {held[s] : s \in Shards}
RouteStable == \A c \in DOMAIN route : route[c] = Router[c]
ScopedComplete == \A c \in Ctxs : Scoped(c) = {k \in DOMAIN owner : owner[k] = c}
FanOutComplete == Unscoped = DOMAIN owner
OneShardPerCtx == \A c \in Ctxs : Cardinality({s \in Shards : \E k \in held[s] : owner[k] = c}) <= 1
=============================================================================
