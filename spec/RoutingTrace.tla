---------------------------- MODULE RoutingTrace ----------------------------
(* Stage T for C12: observations of real multi-lifetime runs.                      *)
(*  {"e":"store","k":k,"ctx":c,"life":l}    an acknowledged STORE                  *)
(*  {"e":"shard","k":k,"shard":s,"src":..} shard of event k as seen in its event   *)
(*                                          id / in the shard's WAL directory      *)
(*  {"e":"for","ctx":c,"ks":[..],"life":l}  result of QUERY .. FOR c               *)
(*  {"e":"all","ks":[..],"life":l,"stored":[..]} result of an unscoped QUERY       *)
(* Judged with the meaning of Routing: a context's shard is fixed by its first     *)
(* observation and never changes (also across lifetimes); scoped reads return all  *)
(* of the context's events; unscoped reads return the union.                       *)
EXTENDS Naturals, FiniteSets, Sequences, TLC, Json, IOUtils

Rec == ndJsonDeserialize(IOEnv.TRACE)
S(q) == {q[i] : i \in DOMAIN q}
Stores == {i \in DOMAIN Rec : Rec[i].e = "store"}
CtxOf(k) == LET i == CHOOSE i \in Stores : Rec[i].k = k IN Rec[i].ctx
ShardObs == {i \in DOMAIN Rec : Rec[i].e = "shard"}
\* two observations of events of the same context on different shards
Unstable == {i \in ShardObs : \E j \in ShardObs : j < i /\ CtxOf(Rec[j].k) = CtxOf(Rec[i].k) /\ Rec[j].shard # Rec[i].shard}
StoredBefore(i, c) == {Rec[j].k : j \in {j \in Stores : j < i /\ Rec[j].ctx = c}}
BadFor == {i \in DOMAIN Rec : Rec[i].e = "for" /\ (S(Rec[i].ks) # StoredBefore(i, Rec[i].ctx) \/ Len(Rec[i].ks) # Cardinality(S(Rec[i].ks)))}
BadAll == {i \in DOMAIN Rec : Rec[i].e = "all" /\ (S(Rec[i].ks) # {Rec[j].k : j \in {j \in Stores : j < i}} \/ Len(Rec[i].ks) # Cardinality(S(Rec[i].ks)))}
Ids(X) == {Rec[i].id : i \in X}
ASSUME PrintT(<<"JUDGED", Cardinality(ShardObs) + Cardinality({i \in DOMAIN Rec : Rec[i].e \in {"for", "all"}})>>)
ASSUME PrintT(<<"UNSTABLE", ToJson(Ids(Unstable))>>)
ASSUME PrintT(<<"BADFOR", ToJson(Ids(BadFor))>>)
ASSUME PrintT(<<"BADALL", ToJson(Ids(BadAll))>>)
VARIABLE dummy
Init == dummy = 0
Next == UNCHANGED dummy
Spec == Init /\ [][Next]_dummy
=============================================================================
