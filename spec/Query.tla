------------------------------- MODULE Query --------------------------------
(***************************************************************************)
(* Reference meaning of reads (C02, C08, C09, C10, C15, C16).              *)
(*                                                                         *)
(* Values are drawn from a small ORDERED abstract domain 0..V-1 (plus Null *)
(* for optional fields); the harness maps it through order-preserving      *)
(* embeddings into ints, u64, floats, strings, enum variants and instants. *)
(* An event is a record [k, c, ts, f] with f : Field -> Val \cup {Null}.   *)
(* Expressions are records:                                                *)
(*   [tag |-> "cmp", f, op, v]     op \in {"=","!=","<","<=",">",">="}     *)
(*   [tag |-> "in",  f, vs]        vs a set of values                      *)
(*   [tag |-> "and"|"or", l, r]    [tag |-> "not", e]                      *)
(*   [tag |-> "true"]              (no WHERE clause)                       *)
(* A missing (Null) value satisfies no comparison (so NOT over it is true, *)
(* as in any two-valued reading of "the events satisfying the condition"). *)
(***************************************************************************)
EXTENDS Naturals, Integers, Sequences, FiniteSets, TLC, SequencesExt, FiniteSetsExt

Null == -1      \* an integer outside 0..V-1 (TLC cannot compare integers with strings)
Ops == {"=", "!=", "<", "<=", ">", ">="}

Holds(a, op, b) ==
  CASE op = "="  -> a = b
    [] op = "!=" -> a # b
    [] op = "<"  -> a < b
    [] op = "<=" -> a <= b
    [] op = ">"  -> a > b
    [] op = ">=" -> a >= b

RECURSIVE Sat(_, _)
Sat(e, x) ==
  CASE x.tag = "true" -> TRUE
    [] x.tag = "cmp"  -> e.f[x.f] # Null /\ Holds(e.f[x.f], x.op, x.v)
    [] x.tag = "in"   -> e.f[x.f] # Null /\ e.f[x.f] \in x.vs
    [] x.tag = "and"  -> Sat(e, x.l) /\ Sat(e, x.r)
    [] x.tag = "or"   -> Sat(e, x.l) \/ Sat(e, x.r)
    [] x.tag = "not"  -> ~Sat(e, x.e)

\* a request: [ctx : context or "*", since : time or -1, where : expr]
Selected(data, q) ==
  {e \in data : /\ (q.ctx = "*" \/ e.c = q.ctx)
                /\ (q.since = -1 \/ e.ts >= q.since)
                /\ Sat(e, q.where)}
Eval(data, q) == {e.k : e \in Selected(data, q)}

\* C08: the zones a pruning structure must keep for a leaf: those with at least one row satisfying it
ZoneMust(zone, leaf) == \E e \in zone : Sat(e, leaf)

-----------------------------------------------------------------------------
\* expression spaces used by the generators
Leaves(Fields, OpsOf(_), Probes) ==
  UNION {[tag : {"cmp"}, f : {f}, op : OpsOf(f), v : Probes] : f \in Fields}
InLeaves(Fields, ProbeSets) == [tag : {"in"}, f : Fields, vs : ProbeSets]
Nots(S) == [tag : {"not"}, e : S]
Ands(A, B) == [tag : {"and"}, l : A, r : B]
Ors(A, B) == [tag : {"or"}, l : A, r : B]

-----------------------------------------------------------------------------
\* C09: aggregates as folds over the selected events
SumOf(S, f) == FoldSet(LAMBDA e, acc : acc + e.f[f], 0, S)
NonNull(S, f) == {e \in S : e.f[f] # Null}
Metric(m, S) ==
  CASE m.fn = "count"        -> Cardinality(S)
    [] m.fn = "count_field"  -> Cardinality(NonNull(S, m.f))
    [] m.fn = "count_unique" -> Cardinality({e.f[m.f] : e \in NonNull(S, m.f)})
    [] m.fn = "total"        -> SumOf(NonNull(S, m.f), m.f)
    [] m.fn = "min"          -> IF NonNull(S, m.f) = {} THEN Null ELSE Min({e.f[m.f] : e \in NonNull(S, m.f)})
    [] m.fn = "max"          -> IF NonNull(S, m.f) = {} THEN Null ELSE Max({e.f[m.f] : e \in NonNull(S, m.f)})
    [] m.fn = "avg"          -> IF NonNull(S, m.f) = {} THEN Null
                                ELSE <<SumOf(NonNull(S, m.f), m.f), Cardinality(NonNull(S, m.f))>>  \* rational sum/count

\* group key of an event: the values of the BY fields, and the bucket of its time (bucket function
\* supplied as a table Bucket : time -> bucket id by the harness's independent calendar routine)
GroupKey(e, by, per, Bucket) ==
  <<IF per THEN Bucket[e.ts] ELSE -1, [i \in DOMAIN by |-> e.f[by[i]]]>>
Groups(S, by, per, Bucket) == {GroupKey(e, by, per, Bucket) : e \in S}
AggTable(data, q, metrics, by, per, Bucket) ==
  LET S == Selected(data, q) IN
  {[key |-> g, vals |-> [i \in DOMAIN metrics |-> Metric(metrics[i], {e \in S : GroupKey(e, by, per, Bucket) = g})]]
     : g \in Groups(S, by, per, Bucket)}

-----------------------------------------------------------------------------
\* C10: ORDER BY / LIMIT / OFFSET.  The slice is determined up to ties: what is determined is
\* the sequence of sort keys.  Missing keys sort as the code's documented order requires the
\* harness to say; here rows with a Null key are kept out of generated cases unless stated.
KeysSorted(S, f, desc) ==
  LET ks == SortSeq(SetToSeq({<<e.f[f], e.k>> : e \in S}),
                    LAMBDA a, b : IF desc THEN a[1] > b[1] \/ (a[1] = b[1] /\ a[2] < b[2])
                                  ELSE a[1] < b[1] \/ (a[1] = b[1] /\ a[2] < b[2]))
  IN [i \in DOMAIN ks |-> ks[i][1]]
SliceKeys(data, q, f, desc, off, lim) ==
  LET all == KeysSorted(Selected(data, q), f, desc)
      lo  == off + 1
      hi  == IF lim = -1 THEN Len(all) ELSE Min({Len(all), off + lim})
  IN IF lo > hi THEN <<>> ELSE SubSeq(all, lo, hi)
\* without ORDER BY: LIMIT n returns min(n, matches) distinct matching events
UnorderedCount(data, q, lim) == Min({lim, Cardinality(Selected(data, q))})

=============================================================================
