------------------------------- MODULE AggGen --------------------------------
(* Case generator for C09: aggregate requests over a fixed data set with the     *)
(* expected group table Query!AggTable.  Numeric fields carry their real (small) *)
(* values, so that TOTAL / AVG / MIN / MAX are computed on the numbers stored.   *)
EXTENDS Query, Json, Randomization

CONSTANTS Data, NumFields, CatFields, OptFields, Ctxs, Times, Probes, BucketTables, WhereSample

VARIABLE req

Metrics1 == {[fn |-> "count"]}
             \cup [fn : {"total", "avg", "min", "max", "count_unique", "count_field"}, f : NumFields]
             \cup [fn : {"count_unique", "min", "max", "count_field"}, f : CatFields]
             \cup [fn : {"count_field", "total", "count_unique", "min", "max", "avg"}, f : OptFields]
MetricLists == {<<m>> : m \in Metrics1} \cup {<<[fn |-> "count"], m>> : m \in Metrics1 \ {[fn |-> "count"]}}
                 \cup RandomSubset(40, {<<a, b>> : a \in Metrics1, b \in Metrics1})
Bys == {<<>>} \cup {<<f>> : f \in CatFields \cup NumFields \cup OptFields}
         \cup {<<a, b>> : a \in CatFields, b \in NumFields}
         \* two fields over the same value domain: the groups (u, v), (v, u) and (v, v) all occur
         \cup {<<a, b>> : a \in NumFields, b \in OptFields} \cup {<<b, a>> : a \in NumFields, b \in OptFields}
         \cup {<<a, b>> \in NumFields \X NumFields : a # b}
OpsOf(f) == Ops
Wheres == {[tag |-> "true"]} \cup RandomSubset(WhereSample, Leaves(NumFields, OpsOf, Probes))
Pers == {"none"} \cup DOMAIN BucketTables

Requests ==
       [metrics : MetricLists, by : {<<>>}, per : {"none"}, where : {[tag |-> "true"]}, ctx : {"*"}, since : {-1}]
  \cup [metrics : RandomSubset(20, MetricLists), by : Bys, per : {"none"}, where : Wheres, ctx : {"*"}, since : {-1}]
  \cup [metrics : RandomSubset(10, MetricLists), by : RandomSubset(4, Bys), per : Pers, where : RandomSubset(3, Wheres), ctx : {"*"}, since : {-1}]
  \cup [metrics : RandomSubset(3, MetricLists), by : RandomSubset(2, Bys), per : {"none"}, where : {[tag |-> "true"]}, ctx : Ctxs, since : {-1}]
  \cup [metrics : RandomSubset(3, MetricLists), by : RandomSubset(2, Bys), per : {"none"}, where : {[tag |-> "true"]}, ctx : {"*"}, since : Times]

Table(r) ==
  LET q == [ctx |-> r.ctx, since |-> r.since, where |-> r.where]
      B == IF r.per = "none" THEN [t \in {} |-> 0] ELSE BucketTables[r.per]
  IN AggTable(Data, q, r.metrics, r.by, r.per # "none", B)

Init == req \in Requests
Next == UNCHANGED req
Spec == Init /\ [][Next]_req
Emit == PrintT(<<"CASE", ToJson([r |-> req, table |-> Table(req),
                                 selected |-> Eval(Data, [ctx |-> req.ctx, since |-> req.since, where |-> req.where])])>>)
=============================================================================
