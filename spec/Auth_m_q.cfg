SPECIFICATION Spec
CONSTANTS
  SubjectIds = {"byp"}
  RoleSets = {{}, {"admin"}, {"read-only"}, {"editor"}, {"write-only"}}
  Conns = {"c1"}
  WithTick = TRUE
INVARIANTS TypeOK ExpectedTotal RefinesPropertyText OnlyValidCredentials LeastPrivilege
PROPERTIES RevocationMonotone KeyRevocationEffective ExpiryEffective PermRevocationEffective RestartChangesNothing
CHECK_DEADLOCK FALSE
