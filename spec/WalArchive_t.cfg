SPECIFICATION Spec
CONSTANTS
  N = 6
  InitN = 2
  Shapes = {"empty", "one", "two", "full", "tornLast", "onlyTorn", "mixed", "bad"}
  GrowShapes = {"empty", "one", "two", "full", "tornLast", "onlyTorn", "mixed", "bad"}
  DirFaults = {"noShard", "noRoot", "rootFile", "shardFile"}
  PreKinds = {"garbage", "stale"}
  Mode = "cases"
  MaxSteps = 7
  StepKinds = {"cleanup", "heal", "addlog", "fault"}
  Mutant = "none"
  DoPrint = TRUE
  Stride = 1
  Phase = 0
INVARIANTS Emit LastCleanupJudged GoneAreArchived GoneRecovered NoResurrection
CHECK_DEADLOCK FALSE
