----------------------------- MODULE WalBuffer ------------------------------
(***************************************************************************)
(* C01, buffered-WAL clause: with wal.buffered = true and                   *)
(* flush_each_write = false an acknowledged, applied STORE sits in the WAL  *)
(* writer's buffer until the buffer is flushed (when it fills, when the log *)
(* rotates, at shutdown).  One shard: events are numbered in append order.  *)
(* Claimed: after a CRASH the recovered events are a PREFIX of the applied  *)
(* ones, none twice; after a CLEAN SHUTDOWN all of them are there.          *)
(***************************************************************************)
EXTENDS Naturals, Sequences, FiniteSets, TLC

CONSTANTS Cap, MaxEv, MaxLives

VARIABLES
  nst,       \* events applied so far (1..nst, in append order)
  mem,       \* active memtable
  segs,      \* events in published segments
  wal,       \* entries handed to the WAL writer for the open log, in order
  onDisk,    \* how many of them have reached the file
  lives,     \* lifetimes so far
  alive,     \* events applied and not lost by an earlier crash
  recovered  \* what the last start-up found: [kind, evs, all = the events alive just before]

vars == <<nst, mem, segs, wal, onDisk, lives, alive, recovered>>
SeqSet(s) == {s[i] : i \in DOMAIN s}

Init == nst = 0 /\ mem = <<>> /\ segs = {} /\ wal = <<>> /\ onDisk = 0 /\ lives = 1 /\ alive = {}
        /\ recovered = [kind |-> "none", evs |-> {}, all |-> {}]

\* STORE: WAL append is issued first (into the buffer), then the memtable insert; a full memtable is rotated,
\* written as a segment and its WAL log dropped (the new log starts empty; rotation closes - flushes - the old one)
Store ==
  /\ nst < MaxEv
  /\ nst' = nst + 1 /\ alive' = alive \cup {nst + 1}
  /\ LET m1 == Append(mem, nst + 1) IN
     IF Len(m1) >= Cap
     THEN /\ segs' = segs \cup SeqSet(m1) /\ mem' = <<>> /\ wal' = <<>> /\ onDisk' = 0
     ELSE /\ mem' = m1 /\ wal' = Append(wal, nst + 1) /\ UNCHANGED <<segs, onDisk>>
  /\ UNCHANGED <<lives, recovered>>
\* the buffer reaches the file (it filled up, or the periodic flush ran): some more entries, in order
BufFlush ==
  /\ onDisk < Len(wal)
  /\ \E n \in (onDisk + 1)..Len(wal) : onDisk' = n
  /\ UNCHANGED <<nst, mem, segs, wal, lives, alive, recovered>>
\* process crash: the buffer content is lost; start-up replays what is in the file
Crash ==
  /\ lives < MaxLives
  /\ LET back == SeqSet(SubSeq(wal, 1, onDisk)) IN
     /\ recovered' = [kind |-> "crash", evs |-> segs \cup back, all |-> alive]
     /\ alive' = segs \cup back
     /\ mem' = SubSeq(wal, 1, onDisk) /\ wal' = SubSeq(wal, 1, onDisk)
  /\ lives' = lives + 1
  /\ UNCHANGED <<nst, segs, onDisk>>
\* graceful shutdown: every memtable is flushed to a segment, the WAL writer flushes and closes
Shutdown ==
  /\ lives < MaxLives
  /\ segs' = segs \cup SeqSet(mem) /\ mem' = <<>> /\ wal' = <<>> /\ onDisk' = 0
  /\ recovered' = [kind |-> "shutdown", evs |-> segs \cup SeqSet(mem), all |-> alive]
  /\ lives' = lives + 1
  /\ UNCHANGED <<nst, alive>>
Next == Store \/ BufFlush \/ Crash \/ Shutdown
Spec == Init /\ [][Next]_vars

\* a crash keeps a downward-closed part (a prefix, in append order) of the events that were alive, a clean
\* shutdown keeps all of them
Prefix(S, U) == \A a \in U, b \in U : (a < b /\ b \in S) => a \in S
CrashKeepsPrefix == recovered.kind = "crash" => (recovered.evs \subseteq recovered.all /\ Prefix(recovered.evs, recovered.all))
ShutdownKeepsAll == recovered.kind = "shutdown" => recovered.evs = recovered.all
\* the memtable and the segments always hold exactly the alive events, each once
Accounted == alive = segs \cup SeqSet(mem) /\ segs \cap SeqSet(mem) = {} /\ Len(mem) = Cardinality(SeqSet(mem))
=============================================================================
