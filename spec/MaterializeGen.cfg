SPECIFICATION GenSpec
CONSTANTS
  MaxEv = 30
  MaxTick = 30
  TicksPerSec = 2
  Fix = {}
  MaxShow = 6
  GenLen = 14
INVARIANT Emit
CHECK_DEADLOCK FALSE
