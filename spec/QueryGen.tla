------------------------------ MODULE QueryGen ------------------------------
(* Case generator for C02 / C08: enumerates requests over a fixed abstract data   *)
(* set (defined by the including MC module) and prints each with its expected     *)
(* result Eval(Data, request).                                                    *)
EXTENDS Query, Json, Randomization

CONSTANTS Data,      \* set of events [k, c, ts, f]
          Fields,    \* field names used in leaves
          Probes,    \* values used as literals (inside, between and outside the data)
          Ctxs,      \* context ids present
          Times,     \* SINCE probes
          N2, N3,    \* how many random depth-2 / depth-3 expressions to add
          OrdFields  \* fields whose kind is ordered (others get = and != only)

VARIABLE q

OpsOf(f) == IF f \in OrdFields THEN Ops ELSE {"=", "!="}
L  == Leaves(Fields, OpsOf, Probes)
IL == InLeaves(Fields, {S \in SUBSET Probes : Cardinality(S) \in {1, 2}})
E1 == L \cup IL \cup Nots(L) \cup Ands(L, L) \cup Ors(L, L)
\* random deeper trees (TLC's seed makes the choice reproducible)
R1 == RandomSubset(40, E1)
E2 == Nots(RandomSubset(N2, Ands(L, L) \cup Ors(L, L)))
        \cup Ands(RandomSubset(N2 \div 8 + 1, L), RandomSubset(8, Ors(L, L)))
        \cup Ors(RandomSubset(N2 \div 8 + 1, L), RandomSubset(8, Ands(L, L)))
        \cup Ands(RandomSubset(N2 \div 8 + 1, Nots(L)), RandomSubset(8, L \cup IL))
E3 == Ands(RandomSubset(N3 \div 6 + 1, R1), RandomSubset(6, R1))
        \cup Ors(RandomSubset(N3 \div 6 + 1, R1), RandomSubset(6, R1))
        \cup Nots(Ors(RandomSubset(N3 \div 12 + 1, R1), RandomSubset(4, Nots(L))))

True == [tag |-> "true"]
Requests ==
       [ctx : {"*"}, since : {-1}, where : E1 \cup E2 \cup E3 \cup {True}]
  \cup [ctx : Ctxs, since : {-1}, where : RandomSubset(60, E1) \cup {True}]
  \cup [ctx : {"*"}, since : Times, where : RandomSubset(20, E1) \cup {True}]
  \cup [ctx : Ctxs, since : Times, where : RandomSubset(8, L) \cup {True}]

Init == q \in Requests
Next == UNCHANGED q
Spec == Init /\ [][Next]_q

Emit == PrintT(<<"CASE", ToJson([q |-> q, exp |-> Eval(Data, q)])>>)
=============================================================================
