SPECIFICATION Spec
CONSTANTS
  NZ = 3
  RowsPerZone = 2
  Vals = {1, 2, 3}
  Probes = {0, 1, 2, 3, 4}
  Sample = 0
  ProbeOps = {"=", "!=", "<", "<=", ">", ">="}
INVARIANT Emit
CHECK_DEADLOCK FALSE
