--------------------------- MODULE WalBufferTrace ---------------------------
(* Stage T for the buffered-WAL clause of C01: one record per (run, lifetime, shard) of a real   *)
(* multi-lifetime history with wal.buffered = true, flush_each_write = false:                   *)
(*   durable   events of this shard found at the start of the lifetime                          *)
(*   applied   events applied to this shard during the lifetime, in append order                *)
(*   end       "crash" | "shutdown"                                                             *)
(*   survivors events of this shard found at the start of the next lifetime (as returned)       *)
(* Judged with the meaning of WalBuffer: nothing twice, nothing foreign, nothing that was       *)
(* durable is lost, a clean shutdown keeps everything, a crash keeps a prefix of `applied`.     *)
EXTENDS Naturals, FiniteSets, Sequences, TLC, Json, IOUtils

Rec == ndJsonDeserialize(IOEnv.TRACE)
S(q) == {q[i] : i \in DOMAIN q}
Twice == {i \in DOMAIN Rec : Len(Rec[i].survivors) # Cardinality(S(Rec[i].survivors))}
Foreign == {i \in DOMAIN Rec : ~(S(Rec[i].survivors) \subseteq S(Rec[i].durable) \cup S(Rec[i].applied))}
LostDurable == {i \in DOMAIN Rec : ~(S(Rec[i].durable) \subseteq S(Rec[i].survivors))}
LostAtShutdown == {i \in DOMAIN Rec : Rec[i].end = "shutdown" /\ ~(S(Rec[i].applied) \subseteq S(Rec[i].survivors))}
IsPrefixSet(X, q) == \E j \in 0..Len(q) : X = {q[n] : n \in 1..j}
NotPrefix == {i \in DOMAIN Rec : Rec[i].end = "crash" /\ ~IsPrefixSet(S(Rec[i].survivors) \ S(Rec[i].durable), Rec[i].applied)}
Ids(X) == {Rec[i].id : i \in X}
ASSUME PrintT(<<"JUDGED", Len(Rec)>>)
ASSUME PrintT(<<"TWICE", ToJson(Ids(Twice))>>)
ASSUME PrintT(<<"FOREIGN", ToJson(Ids(Foreign))>>)
ASSUME PrintT(<<"LOSTDURABLE", ToJson(Ids(LostDurable))>>)
ASSUME PrintT(<<"LOSTATSHUTDOWN", ToJson(Ids(LostAtShutdown))>>)
ASSUME PrintT(<<"NOTPREFIX", ToJson(Ids(NotPrefix))>>)
VARIABLE dummy
Init == dummy = 0
Next == UNCHANGED dummy
Spec == Init /\ [][Next]_dummy
=============================================================================
