SPECIFICATION Spec
CONSTANTS
  Shards = {0, 1}
  SeqSpace = 4
  ShardSpace = 2
  T0 = 1
  MaxClock = 3
  Sizes = {1, 5}
  MaxIds = 5
  MaxRestart = 1
  MaxBack = 1
  MaxFlush = 0
  Fix = {"restore-from-store"}
  EngineOps = FALSE
VIEW View
INVARIANTS TypeOK IncreasingPerShard GloballyDistinct NotAhead GenInSync RunPredsAgree PackFaithful AsBuiltOnlyNamed
PROPERTIES StepIncreasing IdsOnlyAppended RecoveryReproducesIds WaitOnlyEndsBeyondLast
CHECK_DEADLOCK FALSE
