SPECIFICATION TSpec
CONSTANTS
  SubjectIds = {"u1", "byp", "noa", "adm2"}
  RoleSets = {{}}
  Conns = {"c1", "w1"}
  WithTick = TRUE
INVARIANT Judge
CHECK_DEADLOCK FALSE
