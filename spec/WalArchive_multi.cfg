SPECIFICATION Spec
CONSTANTS
  N = 3
  InitN = 3
  Shapes = {"two", "bad"}
  GrowShapes = {"one", "bad"}
  DirFaults = {"noRoot", "shardFile"}
  PreKinds = {"stale"}
  Mode = "cases"
  MaxSteps = 3
  StepKinds = {"cleanup", "heal", "addlog"}
  Mutant = "none"
  DoPrint = TRUE
  Stride = 1
  Phase = 0
INVARIANTS Emit LastCleanupJudged GoneAreArchived GoneRecovered NoResurrection
CHECK_DEADLOCK FALSE
