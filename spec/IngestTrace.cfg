SPECIFICATION CaseSpec
CONSTANTS
  Part = "none"
  Fix = {}
  GenLen = 0
  MaxB = 1
  MaxLen = 2
CHECK_DEADLOCK FALSE
