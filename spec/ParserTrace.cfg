SPECIFICATION TSpec
CONSTANTS
  MaxDepth = 1
  Offsets = {1}
INVARIANT Report
CHECK_DEADLOCK FALSE
