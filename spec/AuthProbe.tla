----------------------------- MODULE AuthProbe -----------------------------
(* Stage R oracle: for every set-up state named in the file IOEnv.STATES (one   *)
(* JSON object per line: key, sid, ex, act, roles, perms, conn, tok) print the  *)
(* probe requests of Auth!ProbeSet with the class the specification expects     *)
(* and the event types whose data the answer may contain; once, the same for    *)
(* the static principals (bootstrap admin, second user).                        *)
(* A probe is printed as <<fe, form, cred, who, c, k, t, t2, expected, maysee>>. *)
EXTENDS Auth, Json, IOUtils, SequencesExt
VARIABLE key

States == ndJsonDeserialize(IOEnv.STATES)
\* ToSet comes from SequencesExt
ToState(r) == [sid |-> r.sid, ex |-> r.ex, act |-> r.act, roles |-> ToSet(r.roles),
               perms |-> [t \in Types |-> [set |-> r.perms[t].set, r |-> r.perms[t].r, w |-> r.perms[t].w]],
               conn |-> [c \in Conns |-> r.conn[c]], tok |-> [c \in Conns |-> r.tok[c]]]

Row(s, q) == <<q.fe, q.form, q.cred, q.who, q.c, q.cmd.k, q.cmd.t, q.cmd.t2, Expected(s, q), MaySee(s, q)>>
Table(s, Q) == SetToSeq({Row(s, q) : q \in Q})

PInit == \E n \in DOMAIN States : st = ToState(States[n]) /\ key = States[n].key /\ last = [a |-> "init"]
PNext == UNCHANGED <<vars, key>>
PSpec == PInit /\ [][PNext]_<<vars, key>>

PrintTable == PrintT(<<"TAB", ToJson([key |-> key, probes |-> Table(st, ProbeSet(st))])>>)
ASSUME PrintT(<<"STATIC", ToJson(Table(Blank("u1"), StaticProbes))>>)
=============================================================================
