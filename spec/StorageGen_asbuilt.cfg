SPECIFICATION GenSpec
CONSTANTS
  Cap = 2
  K = 2
  Types = {"a", "b"}
  Ctxs = {"c1", "c2"}
  MaxEv = 30
  MaxCrash = 3
  MaxFlush = 3
  MaxCompact = 3
  Fix = {}
  GenLen = 8
INVARIANT Emit
CHECK_DEADLOCK FALSE
