----------------------------- MODULE SliceTrace -----------------------------
(* Stage T for C10: recorded ORDER BY / LIMIT / OFFSET reads of larger random data *)
(* sets re-judged with Query!SliceKeys / UnorderedCount.                           *)
(*   {"data":[...]}                                                               *)
(*   {"id":n, "r":{kind,f,desc,off,lim,where,ctx}, "keys":[abstract keys], "ks":[k...]} *)
EXTENDS Query, Json, IOUtils

Rec == ndJsonDeserialize(IOEnv.TRACE)
DataOf(r) == {r.data[i] : i \in DOMAIN r.data}
RECURSIVE DataIdx(_)
DataIdx(i) == IF "data" \in DOMAIN Rec[i] THEN i ELSE DataIdx(i - 1)

BadRec(i) ==
  LET rec == Rec[i]
      r == rec.r
      d == DataOf(Rec[DataIdx(i)])
      q == [ctx |-> r.ctx, since |-> -1, where |-> r.where]
      ks == {rec.ks[j] : j \in DOMAIN rec.ks}
  IN \/ Cardinality(ks) # Len(rec.ks)
     \/ ~(ks \subseteq Eval(d, q))
     \/ IF r.kind = "ordered"
        THEN rec.keys # SliceKeys(d, q, r.f, r.desc, r.off, r.lim)
        ELSE Len(rec.ks) # UnorderedCount(d, q, r.lim)
Bad == {i \in DOMAIN Rec : "r" \in DOMAIN Rec[i] /\ BadRec(i)}

ASSUME PrintT(<<"JUDGED", Cardinality({i \in DOMAIN Rec : "r" \in DOMAIN Rec[i]})>>)
ASSUME PrintT(<<"BAD", ToJson({Rec[i].id : i \in Bad})>>)

VARIABLE dummy
Init == dummy = 0
Next == UNCHANGED dummy
Spec == Init /\ [][Next]_dummy
=============================================================================
