SPECIFICATION Spec
CONSTANTS
  Family = "W"
  Writers <- WriterKinds
  IdCells <- IdCellsQuick
  MaxBatches = 3
  MaxBatchLen = 2
  MaxRows = 3
  Limits <- LimitsQuick
  Offsets <- OffsetsQuick
INVARIANTS Counters MachineIsDecl NoRepeatedId RunIsSteps Emit
CHECK_DEADLOCK FALSE
