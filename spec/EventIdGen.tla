----------------------------- MODULE EventIdGen -----------------------------
(* Behaviour generator over EventId: carries the history of actions and prints *)
(* every behaviour of length GenLen as one JSON line.  Issue/AutoBurst are      *)
(* closed forms, so behaviours are generated at the real scale (SeqSpace =      *)
(* 4096: a burst of BurstSize(5) = 4097 ids really overflows the sequence       *)
(* field) and carry what the as-built model predicts (waits, pinned, broke).    *)
(* A burst is the macro step the harness realises: time passes                  *)
(* (the clock moves by one per read) while a call waits, i.e.                    *)
(*    Burst ; (Tick(1)* ; WaitDone)*      until the burst is through.            *)
EXTENDS EventId, Json
CONSTANTS GenLen, RestartKinds
VARIABLE hist

GenInit == Init /\ hist = <<>>

GBurst(s, bi) ==
  /\ NIds(issued[s]) + BurstSize(bi) <= MaxIds
  /\ LET r == AutoBurst(gen[s], clock, BurstSize(bi))
     IN /\ r.clock <= MaxClock
        /\ gen' = [gen EXCEPT ![s] = r.g]
        /\ issued' = [issued EXCEPT ![s] = CatRuns(@, r.runs)]
        /\ clock' = r.clock /\ hi' = Max2(hi, r.clock)
        /\ fired' = IF BreaksOrder(gen[s], issued[s], r.runs) THEN fired \cup {"generator-not-restored"} ELSE fired
        /\ hist' = Append(hist, [op |-> "burst", s |-> s, bi |-> bi, n |-> BurstSize(bi), waits |-> r.waits,
                                 pinned |-> (clock < gen[s].last), broke |-> BreaksOrder(gen[s], issued[s], r.runs)])
  /\ UNCHANGED <<pend, flushed, nseg, nrestart, nback, nflush>>

GenNext ==
  /\ Len(hist) < GenLen
  /\ \/ \E d \in {-2, -1, 1, 2} : Tick(d) /\ hist' = Append(hist, [op |-> "tick", d |-> d])
     \/ \E s \in Shards, bi \in Sizes : GBurst(s, bi)
     \/ \E kind \in RestartKinds : Restart(kind) /\ hist' = Append(hist, [op |-> "restart", kind |-> kind])
     \/ \E s \in Shards : Flush(s) /\ hist' = Append(hist, [op |-> "flush", s |-> s])
     \/ \E s \in Shards : Compact(s) /\ hist' = Append(hist, [op |-> "compact", s |-> s])
GenSpec == GenInit /\ [][GenNext]_<<vars, hist>>

\* the history is part of the state: breadth-first search enumerates every behaviour once
Emit == Len(hist) = GenLen => PrintT(<<"BEH", ToJson(hist)>>)
=============================================================================
