SPECIFICATION Spec
CONSTANTS
  Ctxs = {"a", "b", "c"}
  Shards = {0, 1, 2}
  MaxEv = 4
  MaxRestart = 2
  Router <- RouterDef
INVARIANTS RouteStable ScopedComplete FanOutComplete OneShardPerCtx
CHECK_DEADLOCK FALSE
