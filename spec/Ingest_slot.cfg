SPECIFICATION CaseSpec
CONSTANTS
  Part = "slot"
  Fix = {}
  GenLen = 0
  MaxB = 1
  MaxLen = 2
INVARIANTS EmitCase
CHECK_DEADLOCK FALSE
