SPECIFICATION GenSpec
CONSTANTS
  SubjectIds = {"u1", "byp", "noa", "adm2"}
  RoleSets = {{}, {"admin"}, {"read-only"}, {"viewer"}, {"editor"}, {"write-only"}, {"admin", "read-only"}, {"read-only", "write-only"}}
  Conns = {"c1", "w1"}
  WithTick = FALSE
  GenLen = 7
INVARIANT Emit
CHECK_DEADLOCK FALSE
