------------------------------- MODULE EventId -------------------------------
(***************************************************************************)
(* Event ids of SnelDB (C18): every applied event carries an id that no     *)
(* other event has; within a shard ids strictly increase in apply order -   *)
(* across bursts beyond the sequence space, backward steps of the clock and *)
(* restarts; recovery / flush / compaction never change an id.              *)
(*                                                                         *)
(* Code: src/engine/core/event/event_id.rs (EventIdGenerator::next,         *)
(* wait_next_millis), src/engine/shard/context.rs (one generator per shard, *)
(* created afresh at start-up), src/engine/shard/worker.rs (on_store        *)
(* assigns the id), wal_recovery.rs (ids re-read from the log).             *)
(*                                                                         *)
(* An id is a triple (ms, sh, sq) packed most-significant first:            *)
(*     raw = (ms * ShardSpace + sh) * SeqSpace + sq                          *)
(* (42 | 10 | 12 bits in the code; SeqSpace = 4 in the small model, 4096    *)
(* when recorded executions of the real generator are judged).              *)
(*                                                                         *)
(* Sequences of ids are kept run-length encoded: a run [ms, sq, n] stands   *)
(* for the n ids (ms, sh, sq), (ms, sh, sq+1) .. (ms, sh, sq+n-1) of one    *)
(* shard.  `Issue` is the closed form of n consecutive calls of `next`;     *)
(* `Step` transcribes one call; TLC checks that they agree (IssueIsSteps).  *)
(*                                                                         *)
(* Two parameterisations through Fix (as in Storage.tla):                   *)
(*   Fix = AllFixes  DESIGN   - what the property demands; must pass.       *)
(*   Fix = {}        AS BUILT - the generator is created afresh at start-up *)
(*                              and not advanced past the ids the store     *)
(*                              already holds: a restart with the clock at  *)
(*                              or behind the last issued millisecond       *)
(*                              re-issues ids ("generator-not-restored").   *)
(*   Fix = {"restore-from-wal"} a tempting partial repair (advance the      *)
(*                              generator over the ids re-read from the     *)
(*                              log); TLC shows it is not enough once the   *)
(*                              ids have been flushed to segments.          *)
(***************************************************************************)
EXTENDS Naturals, Integers, Sequences, FiniteSets, TLC

CONSTANTS
  Shards,      \* shard indices in use (subset of 0 .. ShardSpace-1)
  SeqSpace,    \* size of the sequence field
  ShardSpace,  \* size of the shard field
  T0,          \* clock value at the start (ms, relative to the scripted base)
  MaxClock,    \* horizon of the model
  Sizes,       \* burst size indices explored (see BurstSize)
  MaxIds,      \* bound on ids per shard
  MaxRestart, MaxBack, MaxFlush,
  Fix,         \* repairs in force
  EngineOps    \* BOOLEAN: flush / compaction steps explored (they must be id-transparent)

AllFixes == {"restore-from-store"}

Min2(a, b) == IF a < b THEN a ELSE b
Max2(a, b) == IF a < b THEN b ELSE a

\* burst sizes are expressed relative to the sequence space so that the same behaviour can be
\* replayed at SeqSpace = 4096
BurstSize(bi) == CASE bi = 1 -> 1
                   [] bi = 2 -> 2
                   [] bi = 3 -> SeqSpace - 1
                   [] bi = 4 -> SeqSpace
                   [] bi = 5 -> SeqSpace + 1
                   [] bi = 6 -> 2 * SeqSpace + 1

-----------------------------------------------------------------------------
(* The generator: pure functions over g = [last, seq].                      *)

Fresh == [last |-> -1, seq |-> 0]      \* last_millis = 0 in the code: before every clock value

\* one call of EventIdGenerator::next with clock reading `now`; wait = it enters wait_next_millis
Step(g, now) ==
  LET m == IF now < g.last THEN g.last ELSE now          \* clock moved backwards: pin to last
  IN IF m = g.last
       THEN LET sq == (g.seq + 1) % SeqSpace
            IN IF sq = 0 THEN [wait |-> TRUE,  g |-> [last |-> g.last, seq |-> 0]]
                         ELSE [wait |-> FALSE, g |-> [last |-> m, seq |-> sq]]
       ELSE [wait |-> FALSE, g |-> [last |-> m, seq |-> 0]]

\* n consecutive calls at clock reading `now`, up to the first call that has to wait:
\* the ids issued (one run at most), the generator afterwards, the calls still to be made
Issue(g, now, n) ==
  IF n = 0 THEN [g |-> g, runs |-> <<>>, rest |-> 0]
  ELSE LET m == IF now < g.last THEN g.last ELSE now
           start == IF m = g.last THEN g.seq + 1 ELSE 0
           k == Min2(n, SeqSpace - start)
       IN [g    |-> IF k = n THEN [last |-> m, seq |-> start + k - 1] ELSE [last |-> m, seq |-> 0],
           runs |-> IF k > 0 THEN <<[ms |-> m, sq |-> start, n |-> k]>> ELSE <<>>,
           rest |-> n - k]

\* append keeping runs maximal
AppendRun(rs, r) ==
  IF rs # <<>> /\ rs[Len(rs)].ms = r.ms /\ rs[Len(rs)].sq + rs[Len(rs)].n = r.sq
  THEN [rs EXCEPT ![Len(rs)].n = @ + r.n]
  ELSE Append(rs, r)
RECURSIVE CatRuns(_, _)
CatRuns(rs, more) == IF more = <<>> THEN rs ELSE CatRuns(AppendRun(rs, Head(more)), Tail(more))

\* the same by single calls (used only to check Issue)
RECURSIVE Steps(_, _, _)
Steps(g, now, n) ==
  IF n = 0 THEN [g |-> g, runs |-> <<>>, rest |-> 0]
  ELSE LET r == Step(g, now)
       IN IF r.wait THEN [g |-> r.g, runs |-> <<>>, rest |-> n]
          ELSE LET more == Steps(r.g, now, n - 1)
               IN [g |-> more.g, rest |-> more.rest,
                   runs |-> CatRuns(<<[ms |-> r.g.last, sq |-> r.g.seq, n |-> 1]>>, more.runs)]

\* a burst while time passes whenever the caller is blocked: a waiting call returns at the
\* first clock value beyond `last` (this is what the harness realises with a clock that moves
\* by one at every read)
RECURSIVE AutoBurst(_, _, _)
AutoBurst(g, now, n) ==
  LET r == Issue(g, now, n)
  IN IF r.rest = 0 THEN [g |-> r.g, runs |-> r.runs, clock |-> now, waits |-> 0]
     ELSE LET more == AutoBurst(r.g, r.g.last + 1, r.rest)
          IN [g |-> more.g, runs |-> CatRuns(r.runs, more.runs), clock |-> more.clock, waits |-> more.waits + 1]

-----------------------------------------------------------------------------
(* Ids and runs.                                                             *)
NIds(rs) == IF rs = <<>> THEN 0 ELSE LET RECURSIVE Sum(_) Sum(i) == IF i = 0 THEN 0 ELSE rs[i].n + Sum(i - 1) IN Sum(Len(rs))
LastOf(rs) == [ms |-> rs[Len(rs)].ms, sq |-> rs[Len(rs)].sq + rs[Len(rs)].n - 1]
\* order of two (ms, sq) pairs of ONE shard = order of the packed values
PairLess(a, b) == a.ms < b.ms \/ (a.ms = b.ms /\ a.sq < b.sq)
RunFirst(r) == [ms |-> r.ms, sq |-> r.sq]
RunLast(r) == [ms |-> r.ms, sq |-> r.sq + r.n - 1]
\* a run list is strictly increasing iff every run starts beyond the end of the one before
RunsIncreasing(rs) == \A i \in 1 .. Len(rs) - 1 : PairLess(RunLast(rs[i]), RunFirst(rs[i + 1]))
\* positions (run indices) at which the order is broken
Drops(rs) == {i \in 2 .. Len(rs) : ~PairLess(RunLast(rs[i - 1]), RunFirst(rs[i]))}
\* two runs of one shard share an id
RunsOverlap(a, b) == a.ms = b.ms /\ ~(a.sq + a.n - 1 < b.sq) /\ ~(b.sq + b.n - 1 < a.sq)
RunsDistinct(rs) == \A i, j \in 1 .. Len(rs) : i < j => ~RunsOverlap(rs[i], rs[j])

\* expansion into single ids (small models only)
RECURSIVE Expand(_, _)
Expand(rs, sh) ==
  IF rs = <<>> THEN <<>>
  ELSE [i \in 1 .. Head(rs).n |-> [ms |-> Head(rs).ms, sh |-> sh, sq |-> Head(rs).sq + i - 1]] \o Expand(Tail(rs), sh)
Raw(id) == (id.ms * ShardSpace + id.sh) * SeqSpace + id.sq
IdLess(a, b) == a.ms < b.ms \/ (a.ms = b.ms /\ (a.sh < b.sh \/ (a.sh = b.sh /\ a.sq < b.sq)))

\* generator state that continues after id p = (ms, sq)
GenAt(p) == [last |-> p.ms, seq |-> p.sq]
GenBehind(g, p) == g.last < p.ms \/ (g.last = p.ms /\ g.seq < p.sq)

\* what start-up makes of the generator of a shard whose store holds `rs`, `nflushed` of them in segments
RestoredGen(fix, rs, nflushed) ==
  IF rs = <<>> THEN Fresh
  ELSE IF "restore-from-store" \in fix THEN GenAt(LastOf(rs))
  ELSE IF "restore-from-wal" \in fix /\ nflushed < NIds(rs) THEN GenAt(LastOf(rs))
  ELSE Fresh                                          \* as built: EventIdGenerator::new()

-----------------------------------------------------------------------------
VARIABLES
  clock,     \* the system clock (ms)
  gen,       \* [Shards -> generator state]
  pend,      \* [Shards -> Nat]: > 0 = the shard is spinning in wait_next_millis with that many ids of its burst to go
  issued,    \* [Shards -> runs]: ids of the applied events in apply order = what the store holds (all tiers)
  flushed,   \* [Shards -> Nat]: how many of them are in segments (the rest are in the WAL / memtable)
  nseg,      \* [Shards -> Nat]: number of segments
  nrestart, nback, nflush,
  hi,        \* highest clock value so far
  fired      \* as-built defects that made a difference so far

vars == <<clock, gen, pend, issued, flushed, nseg, nrestart, nback, nflush, hi, fired>>

Init ==
  /\ clock = T0 /\ hi = T0
  /\ gen = [s \in Shards |-> Fresh]
  /\ pend = [s \in Shards |-> 0]
  /\ issued = [s \in Shards |-> <<>>]
  /\ flushed = [s \in Shards |-> 0] /\ nseg = [s \in Shards |-> 0]
  /\ nrestart = 0 /\ nback = 0 /\ nflush = 0 /\ fired = {}

Tick(d) ==
  /\ clock + d >= 0 /\ clock + d <= MaxClock
  /\ d < 0 => nback < MaxBack
  /\ clock' = clock + d /\ hi' = Max2(hi, clock + d)
  /\ nback' = IF d < 0 THEN nback + 1 ELSE nback
  /\ UNCHANGED <<gen, pend, issued, flushed, nseg, nrestart, nflush, fired>>

\* as built: does issuing `runs` from generator g break the order of a shard whose store holds rs ?
\* (only a generator that a restart left behind the store can do that)
BreaksOrder(g, rs, runs) ==
  rs # <<>> /\ GenBehind(g, LastOf(rs)) /\ runs # <<>> /\ ~PairLess(LastOf(rs), RunFirst(runs[1]))

\* effect of issuing from generator state g on shard s
Apply(s, r) ==
  /\ gen' = [gen EXCEPT ![s] = r.g]
  /\ issued' = [issued EXCEPT ![s] = CatRuns(@, r.runs)]
  /\ pend' = [pend EXCEPT ![s] = r.rest]
  /\ fired' = IF pend[s] = 0 /\ BreaksOrder(gen[s], issued[s], r.runs)
              THEN fired \cup {"generator-not-restored"} ELSE fired

\* a burst of STOREs reaches shard s: ids are issued until the sequence space of the millisecond is used up
Burst(s, bi) ==
  /\ pend[s] = 0
  /\ NIds(issued[s]) + BurstSize(bi) <= MaxIds
  /\ LET r == Issue(gen[s], clock, BurstSize(bi))
     IN /\ r.rest > 0 => r.g.last < MaxClock          \* the wait can end inside the horizon
        /\ Apply(s, r)
  /\ UNCHANGED <<clock, flushed, nseg, nrestart, nback, nflush, hi>>

\* wait_next_millis sees the clock beyond `last`: the blocked call returns and the burst goes on
WaitDone(s) ==
  /\ pend[s] > 0 /\ clock > gen[s].last
  /\ LET r == Issue(gen[s], clock, pend[s])
     IN /\ r.rest > 0 => r.g.last < MaxClock
        /\ Apply(s, r)
  /\ UNCHANGED <<clock, flushed, nseg, nrestart, nback, nflush, hi>>

\* process restart (crash, or shutdown which flushes): generators are rebuilt, the store keeps its ids
\* (WAL recovery re-reads them; it does not issue any)
Restart(kind) ==
  /\ nrestart < MaxRestart
  /\ kind = "clean" => \A s \in Shards : pend[s] = 0
  /\ nrestart' = nrestart + 1
  /\ LET fl == IF kind = "clean" /\ EngineOps THEN [s \in Shards |-> NIds(issued[s])] ELSE flushed
     IN /\ flushed' = fl
        /\ gen' = [s \in Shards |-> RestoredGen(Fix, issued[s], fl[s])]
  /\ nseg' = IF kind = "clean" /\ EngineOps
             THEN [s \in Shards |-> IF flushed[s] < NIds(issued[s]) THEN nseg[s] + 1 ELSE nseg[s]] ELSE nseg
  /\ pend' = [s \in Shards |-> 0]                      \* the blocked STOREs were never applied
  /\ UNCHANGED <<clock, issued, nback, nflush, hi, fired>>

Flush(s) ==
  /\ EngineOps /\ pend[s] = 0 /\ nflush < MaxFlush
  /\ flushed[s] < NIds(issued[s])
  /\ flushed' = [flushed EXCEPT ![s] = NIds(issued[s])]
  /\ nseg' = [nseg EXCEPT ![s] = @ + 1] /\ nflush' = nflush + 1
  /\ UNCHANGED <<clock, gen, pend, issued, nrestart, nback, hi, fired>>

Compact(s) ==
  /\ EngineOps /\ nseg[s] >= 2
  /\ nseg' = [nseg EXCEPT ![s] = 1]
  /\ UNCHANGED <<clock, gen, pend, issued, flushed, nrestart, nback, nflush, hi, fired>>

Next ==
  \/ \E d \in {-2, -1, 1, 2} : Tick(d)
  \/ \E s \in Shards, bi \in Sizes : Burst(s, bi)
  \/ \E s \in Shards : WaitDone(s)
  \/ \E kind \in {"crash", "clean"} : Restart(kind)
  \/ \E s \in Shards : Flush(s) \/ Compact(s)

Spec == Init /\ [][Next]_vars
\* the clock eventually runs forward (finitely many backward steps: MaxBack), the spinning call is scheduled
LiveSpec == Spec /\ WF_vars(Tick(1)) /\ \A s \in Shards : WF_vars(WaitDone(s))

-----------------------------------------------------------------------------
(* Properties.                                                               *)
Ids(s) == Expand(issued[s], s)

TypeOK ==
  /\ clock \in 0 .. MaxClock
  /\ \A s \in Shards : /\ s \in 0 .. ShardSpace - 1
                       /\ gen[s].seq \in 0 .. SeqSpace - 1
                       /\ \A i \in 1 .. Len(issued[s]) : /\ issued[s][i].n >= 1
                                                          /\ issued[s][i].sq + issued[s][i].n <= SeqSpace
                                                          /\ issued[s][i].ms \in 0 .. MaxClock

\* C18: within a shard ids strictly increase in apply order
IncreasingPerShard ==
  \A s \in Shards : \A i \in 1 .. Len(Ids(s)) - 1 : Raw(Ids(s)[i]) < Raw(Ids(s)[i + 1])
\* C18: no two applied events (any shards) carry the same id
GloballyDistinct ==
  \A s1, s2 \in Shards : \A i \in 1 .. Len(Ids(s1)), j \in 1 .. Len(Ids(s2)) :
     (s1 # s2 \/ i # j) => Raw(Ids(s1)[i]) # Raw(Ids(s2)[j])
\* the same as a property of every step (every run appended lies beyond everything the shard issued
\* before): with Init it implies IncreasingPerShard by induction.  TLC checks step properties on every
\* transition, also into states it has already seen, so this stays sound under the VIEW below.
NewRuns(s) == SubSeq(issued[s]', IF issued[s] = <<>> THEN 1 ELSE Len(issued[s]), Len(issued[s]'))
StepKeepsOrder(s) ==
  issued[s]' # issued[s] =>
     /\ Len(issued[s]') >= Len(issued[s])
     /\ \A i \in 1 .. Len(issued[s]) - 1 : issued[s]'[i] = issued[s][i]
     \* the run that was last is kept or extended (AppendRun merges contiguous ids) ...
     /\ issued[s] # <<>> => /\ NewRuns(s)[1].ms = issued[s][Len(issued[s])].ms
                            /\ NewRuns(s)[1].sq = issued[s][Len(issued[s])].sq
                            /\ NewRuns(s)[1].n >= issued[s][Len(issued[s])].n
     \* ... and every further run starts beyond the end of the one before
     /\ RunsIncreasing(NewRuns(s))
StepIncreasing == [][\A s \in Shards : StepKeepsOrder(s)]_vars
\* as built: a step that breaks the order is one taken from a generator that a restart left behind the store
StepExplained == [][\A s \in Shards : ~StepKeepsOrder(s) => "generator-not-restored" \in fired']_vars
\* what of the history the future depends on: the last id and the count per shard
Summary(rs) == IF rs = <<>> THEN <<>> ELSE <<LastOf(rs), NIds(rs)>>
View == <<clock, gen, pend, [s \in Shards |-> Summary(issued[s])], flushed, nseg, nrestart, nback, nflush, hi, fired>>

\* recovery, flush and compaction reproduce the ids: only issuing changes the store's ids, and only by appending
IdsOnlyAppended ==
  [][\A s \in Shards : Len(Ids(s)') >= Len(Ids(s)) /\ SubSeq(Ids(s)', 1, Len(Ids(s))) = Ids(s)]_vars
RecoveryReproducesIds ==
  [][(nrestart' # nrestart \/ nflush' # nflush \/ nseg' # nseg) => issued' = issued]_vars
\* the millisecond carried by an id is a clock value that was actually reached
NotAhead == \A s \in Shards : gen[s].last <= hi
\* design: outside a wait the generator is never behind the store
GenInSync == \A s \in Shards : (pend[s] = 0 /\ issued[s] # <<>>) => ~GenBehind(gen[s], LastOf(issued[s]))
\* as built: every violation is explained by the named defect
AsBuiltExplained == (fired = {}) => (IncreasingPerShard /\ GloballyDistinct)
AsBuiltOnlyNamed == fired \subseteq {"generator-not-restored"}

\* the run-level predicates used on recorded executions mean the same as the plain ones
RunPredsAgree ==
  \A s \in Shards : /\ RunsIncreasing(issued[s]) <=> (\A i \in 1 .. Len(Ids(s)) - 1 : IdLess(Ids(s)[i], Ids(s)[i + 1]))
                    /\ RunsDistinct(issued[s]) <=> (\A i, j \in 1 .. Len(Ids(s)) : i # j => Ids(s)[i] # Ids(s)[j])
                    /\ NIds(issued[s]) = Len(Ids(s))
\* packing is injective and order preserving on the field ranges
PackFaithful ==
  \A s1, s2 \in Shards : \A i \in 1 .. Len(Ids(s1)), j \in 1 .. Len(Ids(s2)) :
     /\ IdLess(Ids(s1)[i], Ids(s2)[j]) <=> Raw(Ids(s1)[i]) < Raw(Ids(s2)[j])
     /\ Ids(s1)[i] = Ids(s2)[j] <=> Raw(Ids(s1)[i]) = Raw(Ids(s2)[j])
\* the closed form equals the call-by-call transcription, from every reachable generator state
IssueIsSteps ==
  \A s \in Shards : \A n \in 0 .. 2 * SeqSpace + 1 : \A now \in {clock, gen[s].last, gen[s].last + 1} :
     now >= 0 => Issue(gen[s], now, n) = Steps(gen[s], now, n)

\* progress: a call that waits because the sequence space of its millisecond is used up returns
\* (under LiveSpec: once the clock has passed `last` for good)
WaitEnds == \A s \in Shards : (pend[s] > 0) ~> (pend[s] = 0)
\* and it returns no earlier than the clock passes `last` (a step property: besides a restart, which kills the
\* blocked call, only WaitDone ends a wait)
WaitOnlyEndsBeyondLast ==
  [][\A s \in Shards : (pend[s] > 0 /\ pend'[s] < pend[s] /\ nrestart' = nrestart) => clock > gen[s].last]_vars

Bound == \A s \in Shards : NIds(issued[s]) <= MaxIds
=============================================================================
