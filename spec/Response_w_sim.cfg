SPECIFICATION Spec
CONSTANTS
  Family = "W"
  Writers <- WriterKinds
  IdCells <- IdCellsThorough
  MaxBatches = 3
  MaxBatchLen = 3
  MaxRows = 4
  Limits <- LimitsThorough
  Offsets <- OffsetsThorough
INVARIANTS Emit
CHECK_DEADLOCK FALSE
