----------------------------- MODULE ParserGen -----------------------------
(* Case generator for C17 (Stage R): TLC enumerates command syntax trees of   *)
(* every command kind within small bounds and prints, for each, the token      *)
(* sequence that prints it and the command the parser must return             *)
(* (exp.kind = "exact"), or the outcome class the property demands            *)
(* ("err": a numeral the target type cannot hold must be refused; "total":    *)
(* any of ok / err; "ok": a command of one of the listed variants).           *)
(* One state per case; the invariant Emit prints the case as a JSON line.     *)
EXTENDS Parser, Json

CONSTANTS Families,     \* which case families to enumerate
          QLen,         \* QUERY: number of clauses per enumerated clause sequence (1..QLen)
          TripleMod     \* of the sequences of 3 clauses keep those whose index sum is divisible by TripleMod

Q(s) == <<KW("QUERY"), ID(s)>>
Exact(cmd) == [kind |-> "exact", cmd |-> cmd]

\* ------------------------------------------------------------------ expression family
\* every labelled tree of the bound, printed minimally and fully parenthesised, in WHERE position
ExprCases == {[fam |-> "expr", variant |-> v,
               toks |-> Q("ev") \o <<KW("WHERE")>> \o (IF v = "min" THEN Pr(t) ELSE PrFull(t)),
               exp |-> Exact([cmd |-> "Query", event_type |-> "ev", where_clause |-> Tree(t)])]
              : t \in AllLabelled(MaxDepth, Offsets), v \in {"min", "full"}}

\* a few fixed expressions reused inside other commands
E1 == Lab(Or(Leaf(0), And(Leaf(0), Not(Leaf(0)))), 1)          \* a OR b AND NOT c
E2 == Lab(And(Or(Leaf(0), Leaf(0)), Leaf(0)), 1)               \* (a OR b) AND c
E3 == Lab(Not(And(Leaf(0), Or(Leaf(0), Leaf(0)))), 4)          \* NOT (flag AND (o.k OR e))
E4 == Lab(Leaf(0), 3)                                          \* c IN (...)
E5 == Lab(Not(And(Leaf(0), Or(Leaf(0), Leaf(0)))), 5)          \* NOT (o.k AND (e OR f))     - no bare boolean field
E6 == Lab(And(Or(Leaf(0), Leaf(0)), Leaf(0)), 4)               \* (flag OR o.k) AND e        - parentheses, no IN list
E7 == Lab(Or(Leaf(0), And(Leaf(0), Not(Leaf(0)))), 6)          \* e OR f AND NOT android     - no parentheses, no dotted field
Exprs == <<E1, E2, E3, E4>>
PlotExprs == <<E1, E2, E5, E4>>                                \* PlotQL has no bare boolean field

\* ------------------------------------------------------------------ QUERY clauses
Agg(a, f) == [a |-> a, f |-> f]
Agg0(a)   == [a |-> a]
QC == <<
  [kind |-> "for",    p |-> <<KW("FOR"), ID("ctx-1")>>,                 set |-> [context_id |-> "ctx-1"]],
  [kind |-> "for",    p |-> <<KW("FOR"), STR("ctx 2")>>,                set |-> [context_id |-> "ctx 2"]],
  [kind |-> "since",  p |-> <<KW("SINCE"), STR("2025-01-02T03:04:05Z")>>, set |-> [since |-> "2025-01-02T03:04:05Z"]],
  [kind |-> "using",  p |-> <<KW("USING"), ID("ts")>>,                  set |-> [time_field |-> "ts"]],
  [kind |-> "utime",  p |-> <<KW("USING"), KW("TIME"), ID("created_at")>>, set |-> [sequence_time_field |-> "created_at"]],
  [kind |-> "return", p |-> <<KW("RETURN"), LB, RB>>,                   set |-> [return_fields |-> <<>>]],
  [kind |-> "return", p |-> <<KW("RETURN"), LB, ID("k"), RB>>,          set |-> [return_fields |-> <<"k">>]],
  [kind |-> "return", p |-> <<KW("RETURN"), LB, ID("k"), COMMA, STR("s t"), COMMA, FLD("o.k"), RB>>,
                                                                        set |-> [return_fields |-> <<"k", "s t", "o.k">>]],
  [kind |-> "link",   p |-> <<KW("LINKED"), KW("BY"), ID("user_id")>>,  set |-> [link_field |-> "user_id"]],
  [kind |-> "where",  p |-> <<KW("WHERE")>> \o Pr(E1),                  set |-> [where_clause |-> Tree(E1)]],
  [kind |-> "where",  p |-> <<KW("WHERE")>> \o Pr(E2),                  set |-> [where_clause |-> Tree(E2)]],
  [kind |-> "where",  p |-> <<KW("WHERE")>> \o Pr(E3),                  set |-> [where_clause |-> Tree(E3)]],
  [kind |-> "aggs",   p |-> <<KW("COUNT")>>,                            set |-> [aggs |-> <<Agg0("Count")>>]],
  [kind |-> "aggs",   p |-> <<KW("COUNT"), KW("UNIQUE"), ID("u")>>,     set |-> [aggs |-> <<Agg("CountUnique", "u")>>]],
  [kind |-> "aggs",   p |-> <<KW("COUNT"), ID("k")>>,                   set |-> [aggs |-> <<Agg("CountField", "k")>>]],
  [kind |-> "aggs",   p |-> <<KW("TOTAL"), ID("k")>>,                   set |-> [aggs |-> <<Agg("Total", "k")>>]],
  [kind |-> "aggs",   p |-> <<KW("AVG"), FLD("o.k")>>,                  set |-> [aggs |-> <<Agg("Avg", "o.k")>>]],
  [kind |-> "aggs",   p |-> <<KW("MIN"), ID("k")>>,                     set |-> [aggs |-> <<Agg("Min", "k")>>]],
  [kind |-> "aggs",   p |-> <<KW("MAX"), ID("k")>>,                     set |-> [aggs |-> <<Agg("Max", "k")>>]],
  [kind |-> "aggs",   p |-> <<KW("COUNT"), COMMA, KW("AVG"), ID("k"), COMMA, KW("MAX"), ID("f")>>,
                                                                        set |-> [aggs |-> <<Agg0("Count"), Agg("Avg", "k"), Agg("Max", "f")>>]],
  [kind |-> "per",    p |-> <<KW("PER"), KW("HOUR")>>,                  set |-> [time_bucket |-> "Hour"]],
  [kind |-> "per",    p |-> <<KW("PER"), KW("DAY")>>,                   set |-> [time_bucket |-> "Day"]],
  [kind |-> "per",    p |-> <<KW("PER"), KW("WEEK")>>,                  set |-> [time_bucket |-> "Week"]],
  [kind |-> "per",    p |-> <<KW("PER"), KW("MONTH")>>,                 set |-> [time_bucket |-> "Month"]],
  [kind |-> "per",    p |-> <<KW("PER"), KW("YEAR")>>,                  set |-> [time_bucket |-> "Year"]],
  [kind |-> "per",    p |-> <<KW("PER"), KW("DAY"), KW("USING"), ID("ts2")>>, set |-> [time_bucket |-> "Day", time_field |-> "ts2"]],
  [kind |-> "by",     p |-> <<KW("BY"), ID("country")>>,                set |-> [group_by |-> <<"country">>]],
  [kind |-> "by",     p |-> <<KW("BY"), ID("country"), COMMA, ID("plan")>>, set |-> [group_by |-> <<"country", "plan">>]],
  [kind |-> "by",     p |-> <<KW("BY"), ID("country"), KW("USING"), ID("ts3")>>, set |-> [group_by |-> <<"country">>, time_field |-> "ts3"]],
  [kind |-> "limit",  p |-> <<KW("LIMIT"), NUM("0")>>,                  set |-> [limit |-> "0"]],
  [kind |-> "limit",  p |-> <<KW("LIMIT"), NUM("5")>>,                  set |-> [limit |-> "5"]],
  [kind |-> "limit",  p |-> <<KW("LIMIT"), NUM("4294967295")>>,         set |-> [limit |-> "4294967295"]],
  [kind |-> "offset", p |-> <<KW("OFFSET"), NUM("3")>>,                 set |-> [offset |-> "3"]],
  [kind |-> "offset", p |-> <<KW("OFFSET"), NUM("4294967295")>>,        set |-> [offset |-> "4294967295"]],
  [kind |-> "order",  p |-> <<KW("ORDER"), KW("BY"), ID("k")>>,         set |-> [order_by |-> [field |-> "k", desc |-> FALSE]]],
  [kind |-> "order",  p |-> <<KW("ORDER"), KW("BY"), ID("k"), KW("ASC")>>, set |-> [order_by |-> [field |-> "k", desc |-> FALSE]]],
  [kind |-> "order",  p |-> <<KW("ORDER"), KW("BY"), ID("k"), KW("DESC")>>, set |-> [order_by |-> [field |-> "k", desc |-> TRUE]]],
  [kind |-> "order",  p |-> <<KW("ORDER"), KW("BY"), FLD("o.k"), KW("DESC")>>, set |-> [order_by |-> [field |-> "o.k", desc |-> TRUE]]]
>>
NQ == Len(QC)
Seqn(head, links) == [head |-> head, links |-> links]
QHeads == <<
  [p |-> <<KW("QUERY"), ID("ev")>>, set |-> [event_type |-> "ev"]],
  [p |-> <<KW("FIND"), ID("ev")>>,  set |-> [event_type |-> "ev"]],
  [p |-> <<KW("QUERY"), ID("ev"), KW("FOLLOWED"), KW("BY"), ID("b")>>,
        set |-> [event_type |-> "ev", event_sequence |-> Seqn("ev", << <<"FollowedBy", "b">> >>)]],
  [p |-> <<KW("QUERY"), ID("page_view"), KW("PRECEDED"), KW("BY"), ID("b"), KW("FOLLOWED"), KW("BY"), ID("c2")>>,
        set |-> [event_type |-> "page_view", event_sequence |-> Seqn("page_view", << <<"PrecededBy", "b">>, <<"FollowedBy", "c2">> >>)]]
>>
\* a clause sequence is well-formed for the round trip if no two clauses write the same field of the
\* command and a USING TIME clause does not directly follow a PER clause without its own USING
\* (the grammar attaches the USING to the PER clause there - that text denotes something else)
Writes(i) == DOMAIN QC[i].set
WellFormedSeq(s) ==
  /\ \A i, j \in DOMAIN s : i # j => (QC[s[i]].kind # QC[s[j]].kind /\ Writes(s[i]) \cap Writes(s[j]) = {})
  /\ \A i \in DOMAIN s : (i > 1 /\ QC[s[i]].kind = "utime") => ~(QC[s[i - 1]].kind = "per" /\ "time_field" \notin Writes(s[i - 1]))
RECURSIVE CatP(_, _), MergeSet(_, _)
CatP(s, i) == IF i > Len(s) THEN <<>> ELSE QC[s[i]].p \o CatP(s, i + 1)
MergeSet(s, i) == IF i > Len(s) THEN <<>> ELSE QC[s[i]].set @@ MergeSet(s, i + 1)
RECURSIVE SumSeq(_, _)
SumSeq(s, i) == IF i > Len(s) THEN 0 ELSE s[i] + SumSeq(s, i + 1)
QuerySeqs == {s \in UNION {[1..n -> 1..NQ] : n \in 1..QLen} :
                WellFormedSeq(s) /\ (Len(s) < 3 \/ SumSeq(s, 1) % TripleMod = 0)}
QueryCase(h, s) == [fam |-> "query", toks |-> QHeads[h].p \o CatP(s, 1),
                    exp |-> Exact([cmd |-> "Query"] @@ QHeads[h].set @@ MergeSet(s, 1))]
QueryCases == {QueryCase((SumSeq(s, 1) % Len(QHeads)) + 1, s) : s \in QuerySeqs}
\* one clause of every kind in the documented order, variant r of each kind
KindOrder == <<"for", "since", "using", "utime", "return", "link", "where", "aggs", "per", "by", "limit", "offset", "order">>
OfKind(kd) == {i \in 1..NQ : QC[i].kind = kd}
NthOfKind(kd, r) == LET S == OfKind(kd)
                        n == Cardinality(S)
                        target == (r % n) + 1
                    IN  CHOOSE i \in S : Cardinality({j \in S : j <= i}) = target
FullSeq(r) == [i \in 1..Len(KindOrder) |-> NthOfKind(KindOrder[i], r)]
\* drop clauses until the sequence is well formed (a PER/BY ... USING clause conflicts with USING)
RECURSIVE Prune(_)
Prune(s) == IF WellFormedSeq(s) \/ Len(s) = 0 THEN s
            ELSE LET bad == CHOOSE i \in DOMAIN s : \E j \in DOMAIN s : j > i /\ (Writes(s[i]) \cap Writes(s[j]) # {})
                 IN  Prune([x \in 1..(Len(s) - 1) |-> IF x < bad THEN s[x] ELSE s[x + 1]])
FullCases == {QueryCase((r % Len(QHeads)) + 1, Prune(FullSeq(r))) : r \in 0..7}

\* numerals the 32-bit positions cannot hold must be refused; beyond i64 in value position: ok or err
NumeralCases ==
  {[fam |-> "numeral", toks |-> Q("ev") \o <<KW(kw), NUM(n)>>, exp |-> [kind |-> "err"]] : kw \in {"LIMIT", "OFFSET"}, n \in OverU32}
  \cup {[fam |-> "numeral", toks |-> Q("ev") \o <<KW("WHERE"), ID("k"), OP(o), NUM(n)>>, exp |-> [kind |-> "total"]] : o \in {"=", ">"}, n \in OverI64}
  \cup {[fam |-> "numeral", toks |-> Q("ev") \o <<KW("WHERE"), ID("k"), KW("IN"), LP, NUM("1"), COMMA, NUM(n), RP>>, exp |-> [kind |-> "total"]] : n \in OverI64}
  \cup {[fam |-> "numeral", toks |-> <<KW("PLOT"), KW("COUNT"), KW("OF"), ID("ev"), KW("TOP"), NUM(n)>>, exp |-> [kind |-> "err"]] : n \in OverU32}
  \cup {[fam |-> "numeral", toks |-> <<KW("PLOT"), KW("COUNT"), KW("OF"), ID("ev"), KW("FILTER"), ID("k"), OP("="), NUM(n)>>, exp |-> [kind |-> "total"]] : n \in OverI64}
  \cup {[fam |-> "numeral", toks |-> <<KW("DEFINE"), ID("ev9"), KW("AS"), NUM(n), KW("FIELDS"), RAW("f_simple")>>, exp |-> [kind |-> "err"]] : n \in OverU32}

\* ------------------------------------------------------------------ REPLAY
RC == <<
  [p |-> <<KW("SINCE"), STR("2025-01-02T03:04:05Z")>>, set |-> [since |-> "2025-01-02T03:04:05Z"]],
  [p |-> <<KW("USING"), ID("created_at")>>,            set |-> [time_field |-> "created_at"]],
  [p |-> <<KW("RETURN"), LB, ID("k"), COMMA, STR("s t"), RB>>, set |-> [return_fields |-> <<"k", "s t">>]],
  [p |-> <<KW("RETURN"), LB, RB>>,                     set |-> [return_fields |-> <<>>]]
>>
RSeqs == {s \in UNION {[1..n -> 1..Len(RC)] : n \in 0..3} :
            \A i, j \in DOMAIN s : i # j => DOMAIN RC[s[i]].set \cap DOMAIN RC[s[j]].set = {}}
RECURSIVE RCatP(_, _), RMerge(_, _)
RCatP(s, i) == IF i > Len(s) THEN <<>> ELSE RC[s[i]].p \o RCatP(s, i + 1)
RMerge(s, i) == IF i > Len(s) THEN <<>> ELSE RC[s[i]].set @@ RMerge(s, i + 1)
RCtx == {[p |-> <<ID("ctx-1")>>, v |-> "ctx-1"], [p |-> <<STR("ctx 2")>>, v |-> "ctx 2"], [p |-> <<ID("user:42")>>, v |-> "user:42"]}
RTyp == {[p |-> <<>>, set |-> <<>>], [p |-> <<ID("ev")>>, set |-> [event_type |-> "ev"]], [p |-> <<ID("for_sale")>>, set |-> [event_type |-> "for_sale"]]}
ReplayCases == {[fam |-> "replay", toks |-> <<KW("REPLAY")>> \o ty.p \o <<KW("FOR")>> \o cx.p \o RCatP(s, 1),
                 exp |-> Exact([cmd |-> "Replay", context_id |-> cx.v] @@ ty.set @@ RMerge(s, 1))]
                : ty \in RTyp, cx \in RCtx, s \in RSeqs}

\* ------------------------------------------------------------------ STORE / DEFINE (JSON blocks are classes, concretised by the runner)
PayloadClasses == {"p_flat", "p_empty", "p_nested", "p_array", "p_types", "p_unicode", "p_escaped", "p_keywords",
                   "p_spaces", "p_bigint", "p_brace_in_string", "p_open_brace_in_string"}
StoreCases == {[fam |-> "store", toks |-> <<KW("STORE"), ID(ty), KW("FOR")>> \o cx.p \o <<KW("PAYLOAD"), RAW(pc)>>,
                exp |-> Exact([cmd |-> "Store", event_type |-> ty, context_id |-> cx.v, payload |-> [raw |-> pc]])]
               : ty \in {"ev", "Order_created2"}, cx \in {[p |-> <<ID("ctx-1")>>, v |-> "ctx-1"], [p |-> <<STR("ctx 2")>>, v |-> "ctx 2"]},
                 pc \in PayloadClasses}
FieldClasses == {"f_simple", "f_quoted_keys", "f_enum", "f_nullable", "f_many"}
DefineCases == {[fam |-> "define", toks |-> <<KW("DEFINE"), ID(ty)>> \o ver.p \o <<KW("FIELDS"), RAW(fc)>>,
                 exp |-> Exact([cmd |-> "Define", event_type |-> ty, schema |-> [raw |-> fc]] @@ ver.set)]
                : ty \in {"ev7", "Order_created2"},
                  ver \in {[p |-> <<>>, set |-> <<>>], [p |-> <<KW("AS"), NUM("1")>>, set |-> [version |-> "1"]],
                           [p |-> <<KW("AS"), NUM("4294967295")>>, set |-> [version |-> "4294967295"]]},
                  fc \in FieldClasses}

\* ------------------------------------------------------------------ REMEMBER / SHOW / PING / FLUSH
QueryBodies == {[p |-> <<>>, set |-> <<>>]}
               \cup {[p |-> <<KW("WHERE")>> \o Pr(Exprs[i]), set |-> [where_clause |-> Tree(Exprs[i])]] : i \in 1..Len(Exprs)}
               \cup {[p |-> <<KW("WHERE")>> \o Pr(E2) \o <<KW("LIMIT"), NUM("5")>>, set |-> [where_clause |-> Tree(E2), limit |-> "5"]],
                     [p |-> <<KW("COUNT"), KW("BY"), ID("country")>>, set |-> [aggs |-> <<Agg0("Count")>>, group_by |-> <<"country">>]],
                     [p |-> <<KW("WHERE"), ID("note"), OP("="), STR("x AS y")>>, set |-> [where_clause |-> Cmp("note", "Eq", Str("x AS y"))]]}
RememberCases == {[fam |-> "remember", toks |-> <<KW("REMEMBER")>> \o Q("ev") \o b.p \o <<KW("AS"), ID(nm)>>,
                   exp |-> Exact([cmd |-> "RememberQuery", name |-> nm, query |-> [cmd |-> "Query", event_type |-> "ev"] @@ b.set])]
                  : b \in QueryBodies, nm \in {"m1", "big-orders_2"}}
SimpleCases == {[fam |-> "simple", toks |-> <<KW("SHOW"), ID("m1")>>, exp |-> Exact([cmd |-> "ShowMaterialized", name |-> "m1"])],
                [fam |-> "simple", toks |-> <<KW("SHOW"), STR("big-orders_2")>>, exp |-> Exact([cmd |-> "ShowMaterialized", name |-> "big-orders_2"])],
                [fam |-> "simple", toks |-> <<KW("PING")>>, exp |-> Exact([cmd |-> "Ping"])],
                [fam |-> "simple", toks |-> <<KW("FLUSH")>>, exp |-> Exact([cmd |-> "Flush"])]}

\* ------------------------------------------------------------------ user management
Users == {[p |-> <<ID("alice")>>, v |-> "alice"], [p |-> <<STR("bob smith")>>, v |-> "bob smith"]}
RolesAlt == {[p |-> <<>>, set |-> <<>>],
             [p |-> <<KW("WITH"), KW("ROLES"), LB, STR("admin"), RB>>, set |-> [roles |-> <<"admin">>]],
             [p |-> <<KW("WITH"), KW("ROLES"), LB, STR("read-only"), COMMA, ID("editor"), RB>>, set |-> [roles |-> <<"read-only", "editor">>]],
             [p |-> <<KW("WITH"), KW("ROLES"), LB, RB>>, set |-> [roles |-> <<>>]]}
KeyAlt == {[p |-> <<>>, set |-> <<>>], [p |-> <<KW("WITH"), KW("KEY"), STR("s3cr3t key")>>, set |-> [secret_key |-> "s3cr3t key"]]}
PermAlt == {[p |-> <<KW("READ")>>, v |-> <<"read">>], [p |-> <<KW("WRITE")>>, v |-> <<"write">>],
            [p |-> <<KW("READ"), COMMA, KW("WRITE")>>, v |-> <<"read", "write">>], [p |-> <<KW("WRITE"), COMMA, KW("READ")>>, v |-> <<"write", "read">>]}
EvtAlt == {[p |-> <<ID("ev")>>, v |-> <<"ev">>], [p |-> <<ID("ev"), COMMA, STR("b")>>, v |-> <<"ev", "b">>]}
AuthCases ==
  {[fam |-> "auth", toks |-> <<KW("CREATE"), KW("USER")>> \o u.p \o k.p \o r.p,
    exp |-> Exact([cmd |-> "CreateUser", user_id |-> u.v] @@ k.set @@ r.set)] : u \in Users, k \in KeyAlt, r \in RolesAlt}
  \cup {[fam |-> "auth", toks |-> <<KW("CREATE"), KW("USER")>> \o u.p \o r.p \o k.p,
    exp |-> Exact([cmd |-> "CreateUser", user_id |-> u.v] @@ k.set @@ r.set)] : u \in Users, k \in KeyAlt, r \in RolesAlt}
  \cup {[fam |-> "auth", toks |-> <<KW("REVOKE"), KW("KEY")>> \o u.p, exp |-> Exact([cmd |-> "RevokeKey", user_id |-> u.v])] : u \in Users}
  \cup {[fam |-> "auth", toks |-> <<KW("LIST"), KW("USERS")>>, exp |-> Exact([cmd |-> "ListUsers"])]}
  \cup {[fam |-> "auth", toks |-> <<KW("SHOW"), KW("PERMISSIONS"), KW("FOR")>> \o u.p, exp |-> Exact([cmd |-> "ShowPermissions", user_id |-> u.v])] : u \in Users}
  \cup {[fam |-> "auth", toks |-> <<KW("GRANT")>> \o pm.p \o <<KW("ON")>> \o ev.p \o <<KW("TO")>> \o u.p,
    exp |-> Exact([cmd |-> "GrantPermission", permissions |-> pm.v, event_types |-> ev.v, user_id |-> u.v])] : pm \in PermAlt, ev \in EvtAlt, u \in Users}
  \cup {[fam |-> "auth", toks |-> <<KW("REVOKE")>> \o pm.p \o <<KW("ON")>> \o ev.p \o <<KW("FROM")>> \o u.p,
    exp |-> Exact([cmd |-> "RevokePermission", permissions |-> pm.v, event_types |-> ev.v, user_id |-> u.v])] : pm \in PermAlt, ev \in EvtAlt, u \in Users}

\* ------------------------------------------------------------------ PLOT: metric, event chain and FILTER must be preserved
Metrics == {[p |-> <<KW("COUNT")>>, a |-> Agg0("Count")],
            [p |-> <<KW("COUNT"), LP, ID("k"), RP>>, a |-> Agg("CountField", "k")],
            [p |-> <<KW("UNIQUE"), LP, ID("u"), RP>>, a |-> Agg("CountUnique", "u")],
            [p |-> <<KW("TOTAL"), LP, ID("k"), RP>>, a |-> Agg("Total", "k")],
            [p |-> <<KW("SUM"), LP, ID("k"), RP>>, a |-> Agg("Total", "k")],
            [p |-> <<KW("AVG"), LP, FLD("o.k"), RP>>, a |-> Agg("Avg", "o.k")],
            [p |-> <<KW("MIN"), LP, ID("k"), RP>>, a |-> Agg("Min", "k")],
            [p |-> <<KW("MAX"), LP, ID("k"), RP>>, a |-> Agg("Max", "k")]}
PlotEvents == {[p |-> <<ID("ev")>>, set |-> [event_type |-> "ev"]],
               [p |-> <<ID("ev"), PUN("->"), ID("b")>>, set |-> [event_type |-> "ev", event_sequence |-> Seqn("ev", << <<"FollowedBy", "b">> >>)]],
               [p |-> <<ID("ev"), KW("THEN"), ID("b"), KW("THEN"), ID("c2")>>,
                     set |-> [event_type |-> "ev", event_sequence |-> Seqn("ev", << <<"FollowedBy", "b">>, <<"FollowedBy", "c2">> >>)]]}
PlotFilters == {[p |-> <<>>, set |-> <<>>]} \cup {[p |-> <<KW("FILTER")>> \o Pr(PlotExprs[i]), set |-> [where_clause |-> Tree(PlotExprs[i])]] : i \in 1..Len(PlotExprs)}
                \cup {[p |-> <<KW("FILTER")>> \o PrFull(E1), set |-> [where_clause |-> Tree(E1)]]}
PlotCases == {[fam |-> "plot", toks |-> <<KW("PLOT")>> \o m.p \o <<KW("OF")>> \o ev.p \o f.p,
               exp |-> Exact([cmd |-> "Query", aggs |-> <<m.a>>] @@ ev.set @@ f.set)] : m \in Metrics, ev \in PlotEvents, f \in PlotFilters}
\* richer PlotQL (TOP / VS / BREAKDOWN / OVER): the translation to a Query / Compare is not restated here;
\* the parser must return a command of that variant and dispatch must answer it
PlotX == {<<KW("PLOT"), KW("COUNT"), KW("OF"), ID("ev"), KW("TOP"), NUM("3")>>,
          <<KW("PLOT"), KW("TOTAL"), LP, ID("k"), RP, KW("OF"), ID("ev"), KW("FILTER"), ID("k"), OP(">"), NUM("1"), KW("TOP"), NUM("2"), KW("BY"), ID("s")>>,
          <<KW("PLOT"), KW("TOTAL"), LP, ID("k"), RP, KW("OF"), ID("ev"), KW("VS"), KW("TOTAL"), LP, ID("k"), RP, KW("OF"), ID("b"),
            KW("BREAKDOWN"), KW("BY"), ID("s"), KW("OVER"), KW("DAY"), LP, ID("timestamp"), RP, KW("TOP"), NUM("3")>>,
          <<KW("PLOT"), KW("COUNT"), KW("OF"), ID("ev"), PUN("->"), ID("b"), KW("VS"), KW("COUNT"), KW("OF"), ID("b"), KW("FILTER"), ID("k"), OP("="), NUM("1"),
            KW("VS"), KW("COUNT"), KW("OF"), ID("ev"), KW("OVER"), KW("WEEK"), LP, ID("created_at"), RP>>,
          <<KW("PLOT"), KW("AVG"), LP, ID("f"), RP, KW("OF"), ID("ev"), KW("FILTER"), KW("NOT"), KW("EXISTS"), LP, ID("b"), RP, KW("BREAKDOWN"), KW("BY"), ID("s"), COMMA, ID("b")>>,
          <<KW("PLOT"), KW("UNIQUE"), LP, ID("s"), RP, KW("OF"), ID("ev"), KW("TOP"), NUM("4294967295"), KW("BY"), KW("MAX"), LP, ID("k"), RP>>}
PlotXCases == {[fam |-> "plotx", toks |-> t, exp |-> [kind |-> "ok", variants |-> {"Query", "Compare"}]] : t \in PlotX}

\* ------------------------------------------------------------------ BATCH
Inner == <<
  [p |-> <<KW("PING")>>, c |-> [cmd |-> "Ping"]],
  [p |-> <<KW("FLUSH")>>, c |-> [cmd |-> "Flush"]],
  [p |-> <<KW("STORE"), ID("ev"), KW("FOR"), ID("ctx-1"), KW("PAYLOAD"), RAW("p_flat")>>,
        c |-> [cmd |-> "Store", event_type |-> "ev", context_id |-> "ctx-1", payload |-> [raw |-> "p_flat"]]],
  [p |-> Q("ev") \o <<KW("WHERE")>> \o Pr(E7) \o <<KW("LIMIT"), NUM("5")>>, c |-> [cmd |-> "Query", event_type |-> "ev", where_clause |-> Tree(E7), limit |-> "5"]],
  [p |-> Q("ev") \o <<KW("WHERE")>> \o Pr(E6), c |-> [cmd |-> "Query", event_type |-> "ev", where_clause |-> Tree(E6)]],
  [p |-> Q("ev") \o <<KW("WHERE")>> \o Pr(E4), c |-> [cmd |-> "Query", event_type |-> "ev", where_clause |-> Tree(E4)]],
  [p |-> Q("ev") \o <<KW("RETURN"), LB, ID("k"), RB, KW("LIMIT"), NUM("5")>>, c |-> [cmd |-> "Query", event_type |-> "ev", return_fields |-> <<"k">>, limit |-> "5"]],
  [p |-> <<KW("STORE"), ID("ev"), KW("FOR"), ID("ctx-1"), KW("PAYLOAD"), RAW("p_escaped")>>,
        c |-> [cmd |-> "Store", event_type |-> "ev", context_id |-> "ctx-1", payload |-> [raw |-> "p_escaped"]]],
  [p |-> <<KW("STORE"), ID("ev"), KW("FOR"), ID("ctx-1"), KW("PAYLOAD"), RAW("p_bigint")>>,
        c |-> [cmd |-> "Store", event_type |-> "ev", context_id |-> "ctx-1", payload |-> [raw |-> "p_bigint"]]]
>>
BatchSeqs == {s \in UNION {[1..n -> 1..Len(Inner)] : n \in 1..2} : TRUE}
RECURSIVE BCat(_, _)
BCat(s, i) == IF i > Len(s) THEN <<>> ELSE Inner[s[i]].p \o <<PUN(";")>> \o BCat(s, i + 1)
BatchCases == {[fam |-> "batch", toks |-> <<KW("BATCH"), LB>> \o BCat(s, 1) \o <<RB>>,
                exp |-> Exact([cmd |-> "Batch", cmds |-> [i \in 1..Len(s) |-> Inner[s[i]].c]])] : s \in BatchSeqs}

\* ------------------------------------------------------------------ identifiers that begin with a keyword
\* An identifier is an identifier wherever the grammar expects one, whatever its first letters are.
KwIdentCases == {
  [fam |-> "kwident", toks |-> Q("ev") \o <<KW("WHERE"), ID("not_before"), OP("="), NUM("1")>>,
        exp |-> Exact([cmd |-> "Query", event_type |-> "ev", where_clause |-> Cmp("not_before", "Eq", Num("1"))])],
  [fam |-> "kwident", toks |-> Q("ev") \o <<KW("WHERE"), ID("a"), OP("="), NUM("1"), KW("AND"), ID("not-before"), OP("<"), NUM("2")>>,
        exp |-> Exact([cmd |-> "Query", event_type |-> "ev", where_clause |-> And(Cmp("a", "Eq", Num("1")), Cmp("not-before", "Lt", Num("2")))])],
  [fam |-> "kwident", toks |-> Q("ev") \o <<KW("WHERE"), ID("not2"), OP("="), NUM("1")>>,
        exp |-> Exact([cmd |-> "Query", event_type |-> "ev", where_clause |-> Cmp("not2", "Eq", Num("1"))])],
  [fam |-> "kwident", toks |-> Q("ev") \o <<KW("COUNT"), ID("by_country")>>,
        exp |-> Exact([cmd |-> "Query", event_type |-> "ev", aggs |-> <<Agg("CountField", "by_country")>>])],
  [fam |-> "kwident", toks |-> Q("ev") \o <<KW("COUNT"), KW("UNIQUE"), ID("using_x")>>,
        exp |-> Exact([cmd |-> "Query", event_type |-> "ev", aggs |-> <<Agg("CountUnique", "using_x")>>])],
  [fam |-> "kwident", toks |-> Q("ev") \o <<KW("TOTAL"), ID("per_unit")>>,
        exp |-> Exact([cmd |-> "Query", event_type |-> "ev", aggs |-> <<Agg("Total", "per_unit")>>])],
  [fam |-> "kwident", toks |-> Q("ev") \o <<KW("AVG"), ID("for_x")>>,
        exp |-> Exact([cmd |-> "Query", event_type |-> "ev", aggs |-> <<Agg("Avg", "for_x")>>])],
  [fam |-> "kwident", toks |-> Q("ev") \o <<KW("MIN"), ID("limit_x")>>,
        exp |-> Exact([cmd |-> "Query", event_type |-> "ev", aggs |-> <<Agg("Min", "limit_x")>>])],
  [fam |-> "kwident", toks |-> <<KW("REPLAY"), ID("for_sale"), KW("FOR"), ID("c1")>>,
        exp |-> Exact([cmd |-> "Replay", event_type |-> "for_sale", context_id |-> "c1"])],
  [fam |-> "kwident", toks |-> <<KW("PLOT"), KW("COUNT"), KW("OF"), ID("ev"), KW("FILTER"), ID("not_before"), OP("="), NUM("1")>>,
        exp |-> Exact([cmd |-> "Query", event_type |-> "ev", aggs |-> <<Agg0("Count")>>, where_clause |-> Cmp("not_before", "Eq", Num("1"))])],
  \* controls: same first letters, no separator / identifier position reached before any keyword test
  [fam |-> "kwident", toks |-> Q("ev") \o <<KW("WHERE"), ID("notbefore"), OP("="), NUM("1"), KW("OR"), ID("orx"), OP("="), ID("andy")>>,
        exp |-> Exact([cmd |-> "Query", event_type |-> "ev", where_clause |-> Or(Cmp("notbefore", "Eq", Num("1")), Cmp("orx", "Eq", Str("andy")))])],
  [fam |-> "kwident", toks |-> Q("for_sale") \o <<KW("FOR"), ID("for_x"), KW("RETURN"), LB, ID("limit_x"), COMMA, ID("by_y"), RB, KW("ORDER"), KW("BY"), ID("by_x")>>,
        exp |-> Exact([cmd |-> "Query", event_type |-> "for_sale", context_id |-> "for_x", return_fields |-> <<"limit_x", "by_y">>,
                       order_by |-> [field |-> "by_x", desc |-> FALSE]])],
  [fam |-> "kwident", toks |-> Q("ev") \o <<KW("BY"), ID("by_x"), KW("LINKED"), KW("BY"), ID("by_id"), KW("USING"), ID("using_f")>>,
        exp |-> Exact([cmd |-> "Query", event_type |-> "ev", group_by |-> <<"by_x">>, link_field |-> "by_id", time_field |-> "using_f"])],
  [fam |-> "kwident", toks |-> Q("ev") \o <<KW("WHERE"), ID("in_x"), KW("IN"), LP, NUM("1"), RP, KW("AND"), ID("or_y"), OP("="), ID("or_z"), KW("OR"), ID("and_w"), OP("="), NUM("3")>>,
        exp |-> Exact([cmd |-> "Query", event_type |-> "ev",
                       where_clause |-> Or(And(In("in_x", <<Num("1")>>), Cmp("or_y", "Eq", Str("or_z"))), Cmp("and_w", "Eq", Num("3")))])],
  [fam |-> "kwident", toks |-> Q("ev") \o <<KW("COUNT"), ID("order_id")>>,
        exp |-> Exact([cmd |-> "Query", event_type |-> "ev", aggs |-> <<Agg("CountField", "order_id")>>])]
}

\* ------------------------------------------------------------------ the state space: one state per case
FamCases(f) == CASE f = "expr" -> ExprCases [] f = "query" -> QueryCases \cup FullCases [] f = "numeral" -> NumeralCases
                 [] f = "replay" -> ReplayCases [] f = "store" -> StoreCases [] f = "define" -> DefineCases
                 [] f = "remember" -> RememberCases [] f = "simple" -> SimpleCases [] f = "auth" -> AuthCases
                 [] f = "plot" -> PlotCases \cup PlotXCases [] f = "batch" -> BatchCases
                 [] f = "kwident" -> KwIdentCases
GInit == c \in UNION {FamCases(f) : f \in Families}
GNext == UNCHANGED c
GSpec == GInit /\ [][GNext]_c
Emit == PrintT(<<"CASE", ToJson(c)>>)
=============================================================================
