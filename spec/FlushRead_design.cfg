SPECIFICATION Spec
CONSTANTS
  Cap = 2
  MaxEv = 5
  Fix = {"agg-dedup", "passive-content-at-begin", "skip-partial-segments"}
  ReaderAtomic = TRUE
INVARIANTS ReadExactlyOnce NoForeign
CHECK_DEADLOCK FALSE
