---------------------------- MODULE FlushReadGen ----------------------------
(* Behaviour generator over FlushRead with an atomic reader: the schedules a    *)
(* test can force by parking the flush worker at its named steps.  Carries the  *)
(* history with, at every read, what the model predicts the read returns.       *)
EXTENDS FlushRead, Json
CONSTANTS GenLen, HoldUntil
\* HoldUntil = n: the flush worker stays parked at the start of its first job until n events are
\* stored (deep queues of pending rotations: every rotated buffer is readable only through its passive copy)
VARIABLE hist

\* a complete atomic read, as one generator step
ReadNow ==
  /\ rd.pc \in {"idle", "ended"}
  /\ LET snap == {s \in DOMAIN passive : ~passive[s].cleared}
         segs == live \cup inflight
         rows == mem \o FoldSet(LAMBDA s, acc : acc \o passive[s].evs, <<>>, snap)
                     \o FoldSet(LAMBDA s, acc : acc \o (IF s \in DOMAIN dirs THEN dirs[s] ELSE <<>>), <<>>, segs)
     IN hist' = Append(hist, [a |-> "read", before |-> 1..nst, selection |-> SeqSet(rows), count |-> Len(rows),
                              stage |-> job.stage, passives |-> Cardinality(snap), partial |-> job.stage = "writing",
                              partial_evs |-> IF job.stage = "writing" THEN SeqSet(passive[job.seg].evs) ELSE {},
                              inmem |-> SeqSet(mem \o FoldSet(LAMBDA s, acc : acc \o passive[s].evs, <<>>, snap)),
                              ondisk |-> SeqSet(FoldSet(LAMBDA s, acc : acc \o (IF s \in DOMAIN dirs THEN dirs[s] ELSE <<>>), <<>>, segs))])
  /\ UNCHANGED vars

GenInit == Init /\ hist = <<>>
\* the flush worker picks a queued job up at once when it is idle (no hook can hold it before that)
MustRecv == queue # <<>> /\ job = Idle
GenNext ==
  /\ Len(hist) < GenLen
  /\ IF MustRecv THEN FlushRecv /\ hist' = Append(hist, [a |-> "recv", seg |-> Head(queue)])
     ELSE \/ Store /\ hist' = Append(hist, [a |-> "store", k |-> nst + 1])
          \/ nst >= HoldUntil /\ FlushWriteBegin /\ hist' = Append(hist, [a |-> "wbegin", seg |-> job.seg])
          \/ FlushWrite /\ hist' = Append(hist, [a |-> "write", seg |-> job.seg])
          \/ FlushPublish /\ hist' = Append(hist, [a |-> "publish", seg |-> job.seg])
          \/ FlushClear /\ hist' = Append(hist, [a |-> "clear", seg |-> job.seg])
          \/ FlushClean /\ hist' = Append(hist, [a |-> "clean", seg |-> job.seg])
          \/ FlushDone /\ hist' = Append(hist, [a |-> "done", seg |-> job.seg])
          \/ ReadNow
GenSpec == GenInit /\ [][GenNext]_<<vars, hist>>
Emit == Len(hist) = GenLen => PrintT(<<"BEH", ToJson(hist)>>)
=============================================================================
