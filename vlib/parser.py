"""Running the vparse harness binary (C17): a batch of input strings through the real
parse_command (+ optional dispatch), surviving time-outs and process aborts (stack overflow)."""
import json
import os
import shutil
import subprocess
import sys
from pathlib import Path

from vlib import core

sys.setrecursionlimit(20000)


def run_vparse(bindir, inputs, *, root, dispatch=False, setup=(), auth=False, user=None, parse_timeout_ms=20000,
               dispatch_timeout_ms=60000, stack_kb=2048, config=None, fresh=True, max_restarts=200, proc_timeout=1500):
    """inputs: list of {"id","text"[, "json","want_command","dispatch"]}. Returns (results, setup_obs, restarts):
    results[i] is the observation of inputs[i]; outcome in ok|err|panic|timeout|abort."""
    root = Path(root)
    if fresh and root.exists():
        shutil.rmtree(root, ignore_errors=True)
    root.mkdir(parents=True, exist_ok=True)
    out = root / "out.ndjson"
    if out.exists():
        out.unlink()
    cfg = {"root": str(root / "db")}
    cfg.update(config or {})
    job = {"config": cfg, "out": str(out), "parse_timeout_ms": parse_timeout_ms, "dispatch_timeout_ms": dispatch_timeout_ms,
           "stack_kb": stack_kb, "dispatch": dispatch, "auth": auth, "user": user, "setup": list(setup), "inputs": inputs}
    results = [None] * len(inputs)
    setup_obs = []
    start = 0
    restarts = 0
    seen_lines = 0
    while start < len(inputs) or (start == 0 and not inputs):
        job["start"] = start
        jp = root / "job.json"
        jp.write_text(json.dumps(job))
        try:
            p = subprocess.run([str(bindir / "vparse"), str(jp)], capture_output=True, text=True, timeout=proc_timeout)
            rc, err = p.returncode, p.stderr
        except subprocess.TimeoutExpired:
            raise core.ToolError(f"vparse did not finish within {proc_timeout}s (start={start})")
        lines = out.read_text().split("\n") if out.exists() else []   # not splitlines(): U+2028 etc. occur inside strings
        done = False
        last = start - 1
        for line in lines[seen_lines:]:
            if not line.strip():
                continue
            try:
                o = json.loads(line)
            except json.JSONDecodeError:
                raise core.ToolError(f"garbled vparse output: {line[:200]}")
            if "setup" in o:
                setup_obs.append(o)
            elif "done" in o:
                done = True
            elif "idx" in o:
                results[o["idx"]] = o
                last = max(last, o["idx"])
        seen_lines = len(lines) - 1 if lines and lines[-1] == "" else len(lines)
        if done:
            break
        if rc == 0:
            raise core.ToolError(f"vparse exited 0 without finishing (start={start}): {err[-500:]}")
        restarts += 1
        if restarts > max_restarts:
            raise core.ToolError(f"vparse restarted more than {max_restarts} times")
        if rc == 3 and last >= start and results[last] is not None and results[last].get("outcome") == "timeout":
            start = last + 1
            continue
        if start == 0 and last < 0 and dispatch and not any("idx" in json.loads(l) for l in lines if l.strip()) and rc not in (-11, -6, 134, 139):
            raise core.ToolError(f"vparse failed before the first input rc={rc}: {err[-800:]}")
        culprit = last + 1
        if culprit >= len(inputs):
            raise core.ToolError(f"vparse died after the last input rc={rc}: {err[-500:]}")
        results[culprit] = {"idx": culprit, "id": inputs[culprit].get("id"), "outcome": "abort", "rc": rc,
                            "stderr": err[-300:]}
        start = culprit + 1
    for i, r in enumerate(results):
        if r is None:
            raise core.ToolError(f"no observation for input {i}")
    return results, setup_obs, restarts


# --------------------------------------------------------------------------- concretisation of abstract tokens
# JSON blocks are named by class in the specification; text and value live here.
PAYLOADS = {
    "p_flat": '{"k":1,"s":"x","f":1.5,"b":true}',
    "p_empty": '{}',
    "p_nested": '{"a":{"b":{"c":[1,{"d":2}]}},"k":1}',
    "p_array": '{"xs":[1,2,3],"ys":[],"zs":[[1],["a","b"]]}',
    "p_types": '{"i":-7,"f":2.5,"t":true,"g":false,"n":null,"e":1e3,"z":0}',
    "p_unicode": '{"s":"héllo \U0001F680 ∑","ü":1}',
    "p_escaped": '{"s":"a\\"b","t":"tab\\there","u":"back\\\\slash"}',
    "p_keywords": '{"note":"STORE x FOR y PAYLOAD","for":1,"WHERE":"a AND (b OR c); LIMIT 5"}',
    "p_spaces": '{ "k" : 1 ,\n\t"s" : "x  y" }',
    "p_bigint": '{"k":9007199254740993,"m":-9223372036854775808}',
    "p_brace_in_string": '{"k":1,"s":"}"}',
    "p_open_brace_in_string": '{"k":1,"s":"{"}',
}
FIELDS = {
    "f_simple": ('{ k: "int", s: "string" }', {"k": "int", "s": "string"}),
    "f_quoted_keys": ('{ "k": "int", "my_field": "float" }', {"k": "int", "my_field": "float"}),
    "f_enum": ('{ plan: ["free", "pro"], k: "int" }', {"plan": ["free", "pro"], "k": "int"}),
    "f_nullable": ('{ k: "int | null", d: "datetime" }', {"k": "int | null", "d": "datetime"}),
    "f_many": ('{ a: "int", b: "string", c: "bool", d: "float", e: "u64", f:"timestamp" }',
               {"a": "int", "b": "string", "c": "bool", "d": "float", "e": "u64", "f": "timestamp"}),
}
CASES = ("upper", "lower", "mixed")
SPACINGS = ("normal", "tight", "wide")
WIDE = ("  ", "\t", "\n", " \r\n ", " ")
WORDISH = {"kw", "id", "fld", "num"}


def recase(word, case):
    if case == "upper":
        return word.upper()
    if case == "lower":
        return word.lower()
    return "".join(ch.lower() if i % 2 == 0 else ch.upper() for i, ch in enumerate(word))


def tok_text(t, case="upper"):
    k = t["k"]
    if k == "kw":
        return recase(t["w"], case)
    if k == "str":
        return '"' + t["s"] + '"'
    if k == "raw":
        return PAYLOADS[t["s"]] if t["s"] in PAYLOADS else FIELDS[t["s"]][0]
    return t["s"]


def render(toks, case="upper", spacing="normal"):
    """Concretise an abstract token sequence: letter case of keywords and white space are free."""
    parts = [tok_text(t, case) for t in toks]
    if spacing == "normal":
        return " ".join(parts)
    out = []
    for i, p in enumerate(parts):
        if i > 0:
            a, b = toks[i - 1]["k"], toks[i]["k"]
            if spacing == "wide":
                out.append(WIDE[i % len(WIDE)])
            else:  # tight: white space only where two word-like tokens would fuse
                need = (a in WORDISH or a in ("str", "raw")) and (b in WORDISH or b in ("str", "raw"))
                if need:
                    out.append(" ")
        out.append(p)
    return "".join(out)


# --------------------------------------------------------------------------- decoding serde_json(Command) into the specification's shapes
def num_text(v):
    return repr(v) if isinstance(v, float) else str(v)


def dec_value(v):
    if isinstance(v, bool):
        return {"t": "bool", "s": "true" if v else "false"}
    if isinstance(v, (int, float)):
        return {"t": "num", "s": num_text(v)}
    if isinstance(v, str):
        return {"t": "str", "s": v}
    return {"t": "other", "s": json.dumps(v)}


# self-test of the machinery (never set in a normal run): C17_INJECT=reassoc makes the decoder report
# And(x, And(y, z)) as And(And(x, y), z), i.e. what a left-associating parser would have returned;
# C17_INJECT=not-scope reports And(Not(x), y) as Not(And(x, y)).  Both stages must then raise VIOLATIONs.
_INJECT = os.environ.get("C17_INJECT", "")


def _inject(n):
    if _INJECT == "reassoc" and n["n"] == "and" and n["r"]["n"] == "and":
        return {"n": "and", "l": {"n": "and", "l": n["l"], "r": n["r"]["l"]}, "r": n["r"]["r"]}
    if _INJECT == "not-scope" and n["n"] == "and" and n["l"]["n"] == "not":
        return {"n": "not", "x": {"n": "and", "l": n["l"]["x"], "r": n["r"]}}
    return n


def dec_expr(e):
    return _inject(_dec_expr(e))


def _dec_expr(e):
    if not isinstance(e, dict) or len(e) != 1:
        return {"n": "undecodable", "raw": json.dumps(e)[:200]}
    (k, b), = e.items()
    if k == "Compare":
        return {"n": "cmp", "f": b["field"], "op": b["op"], "v": dec_value(b["value"])}
    if k == "In":
        return {"n": "in", "f": b["field"], "vs": [dec_value(x) for x in b["values"]]}
    if k == "And":
        return {"n": "and", "l": dec_expr(b[0]), "r": dec_expr(b[1])}
    if k == "Or":
        return {"n": "or", "l": dec_expr(b[0]), "r": dec_expr(b[1])}
    if k == "Not":
        return {"n": "not", "x": dec_expr(b)}
    return {"n": "undecodable", "raw": json.dumps(e)[:200]}


def dec_agg(a):
    (k, b), = a.items()
    if k == "Count":
        return {"a": "Count"} if b.get("unique_field") is None else {"a": "CountUnique", "f": b["unique_field"]}
    return {"a": k, "f": b["field"]}


def dec_target(t):
    return t["event"] if t.get("field") is None else {"event": t["event"], "field": t["field"]}


def dec_query(b):
    o = {"cmd": "Query"}
    for k, v in b.items():
        if v is None:
            continue
        if k == "where_clause":
            o[k] = dec_expr(v)
        elif k in ("limit", "offset"):
            o[k] = str(v)
        elif k == "aggs":
            o[k] = [dec_agg(a) for a in v]
        elif k == "event_sequence":
            o[k] = {"head": dec_target(v["head"]), "links": [[ln, dec_target(t)] for ln, t in v["links"]]}
        else:
            o[k] = v
    return o


def dec_cmd(c):
    if isinstance(c, str):
        return {"cmd": c}
    (k, b), = c.items()
    if k == "Query":
        return dec_query(b)
    if k == "Compare":
        return {"cmd": "Compare", "queries": [dec_query(q) for q in b["queries"]]}
    if k == "RememberQuery":
        return {"cmd": k, "name": b["spec"]["name"], "query": dec_cmd(b["spec"]["query"])}
    if k == "Batch":
        return {"cmd": k, "cmds": [dec_cmd(x) for x in b]}
    if k == "Define":
        o = {"cmd": k, "event_type": b["event_type"], "schema": b["schema"]["fields"]}
        if b.get("version") is not None:
            o["version"] = str(b["version"])
        return o
    o = {"cmd": k}
    for kk, v in b.items():
        if v is not None:
            o[kk] = v
    return o


def concretise_expected(x):
    """Replace {"raw": class} by the value the class stands for."""
    if isinstance(x, dict):
        if set(x) == {"raw"}:
            c = x["raw"]
            return json.loads(PAYLOADS[c]) if c in PAYLOADS else FIELDS[c][1]
        return {k: concretise_expected(v) for k, v in x.items()}
    if isinstance(x, list):
        return [concretise_expected(v) for v in x]
    return x


# --------------------------------------------------------------------------- Stage T: random token sequences in WHERE position
def KW(w, rnd=None):
    s = w if rnd is None else recase(w, rnd.choice(CASES))
    return {"k": "kw", "w": w, "s": s}


def T(k, s):
    return {"k": k, "s": s}


LP, RP, COMMA = T("lp", "("), T("rp", ")"), T("comma", ",")
T_FIELDS = ["a", "b", "c", "flag", "e", "f", "android", "notx", "in_stock", "order_id", "x-1", "_u", "ORacle", "k9"]
T_OPS = ["=", "!=", ">", ">=", "<", "<="]
T_NUMS = ["0", "1", "7", "-5", "42", "2.5", "-0.25", "9223372036854775807", "-9223372036854775808", "100000"]
T_STRS = ["x y", "", "a AND b", "two", "NOT (", "é", "it's", "1", "or"]
T_BARE = ["abc", "pending", "x-1", "true", "null", "k9"]
OVER_I64 = ["9223372036854775808", "-9223372036854775809", "18446744073709551616", "99999999999999999999"]
MAXNEST = 6


def t_value(rnd):
    r = rnd.random()
    if r < 0.45:
        return T("num", rnd.choice(T_NUMS))
    if r < 0.75:
        return T("str", rnd.choice(T_STRS))
    if r < 0.95:
        return T("id", rnd.choice(T_BARE))
    if r < 0.98:
        return KW(rnd.choice(["AND", "OR", "NOT", "IN"]), rnd)
    return T("num", rnd.choice(OVER_I64))


def t_field(rnd):
    if rnd.random() < 0.03:
        return KW(rnd.choice(["AND", "OR", "NOT", "IN"]), rnd)
    return T("id", rnd.choice(T_FIELDS))


def t_atom(rnd):
    r = rnd.random()
    if r < 0.6:
        return [t_field(rnd), T("op", rnd.choice(T_OPS)), t_value(rnd)]
    if r < 0.8:
        vs = []
        for i in range(rnd.randint(0, 3)):
            if i:
                vs.append(COMMA)
            vs.append(t_value(rnd))
        return [t_field(rnd), KW("IN", rnd), LP] + vs + [RP]
    return [T("id", rnd.choice(T_FIELDS))]


def t_expr(rnd, d, nest, pwrap):
    wrap = nest < MAXNEST and rnd.random() < pwrap
    n2 = nest + 1 if wrap else nest
    if d == 0 or rnd.random() < 0.25:
        t = t_atom(rnd)
    else:
        k = rnd.choice(["not", "and", "or", "and", "or"])
        if k == "not":
            t = [KW("NOT", rnd)] + t_expr(rnd, d - 1, n2, pwrap)
        else:
            t = t_expr(rnd, d - 1, n2, pwrap) + [KW(k.upper(), rnd)] + t_expr(rnd, d - 1, n2, pwrap)
    return [LP] + t + [RP] if wrap else t


def t_random_tok(rnd):
    r = rnd.random()
    if r < 0.3:
        return KW(rnd.choice(["AND", "OR", "NOT", "IN"]), rnd)
    if r < 0.5:
        return rnd.choice([LP, RP, COMMA])
    if r < 0.65:
        return T("op", rnd.choice(T_OPS))
    if r < 0.85:
        return T("id", rnd.choice(T_FIELDS))
    return t_value(rnd)


def paren_nest(toks):
    d = m = 0
    for t in toks:
        if t["k"] == "lp":
            d += 1
            m = max(m, d)
        elif t["k"] == "rp":
            d = max(0, d - 1)
    return m


def gen_tokexpr(rnd, n):
    """n records {cls, toks}: well-formed random expressions and token-level mutations of them."""
    out = []
    classes = ["wf", "wf-redundant", "tok-drop", "tok-dup", "tok-swap", "tok-insert", "tok-random"]
    i = 0
    while len(out) < n:
        cls = classes[i % len(classes)]
        i += 1
        if cls == "tok-random":
            toks = [t_random_tok(rnd) for _ in range(rnd.randint(1, 8))]
        else:
            toks = t_expr(rnd, rnd.randint(0, 5), 0, 0.6 if cls == "wf-redundant" else 0.2)
            j = rnd.randrange(len(toks))
            if cls == "tok-drop":
                toks = toks[:j] + toks[j + 1:]
            elif cls == "tok-dup":
                toks = toks[:j] + [toks[j]] + toks[j:]
            elif cls == "tok-swap" and len(toks) > 1:
                j = rnd.randrange(len(toks) - 1)
                toks = toks[:j] + [toks[j + 1], toks[j]] + toks[j + 2:]
            elif cls == "tok-insert":
                toks = toks[:j] + [t_random_tok(rnd)] + toks[j:]
        if not toks or len(toks) > 120 or paren_nest(toks) > MAXNEST:
            continue
        out.append({"cls": cls, "toks": toks})
    return out


def render_own(toks, rnd=None):
    """Render with every keyword in the letter case recorded in the token (s); random white space if rnd."""
    parts = ['"' + t["s"] + '"' if t["k"] == "str" else t["s"] for t in toks]
    if rnd is None:
        return " ".join(parts)
    out = []
    for i, p in enumerate(parts):
        if i:
            a, b = toks[i - 1]["k"], toks[i]["k"]
            need = ((a in WORDISH or a == "str") and (b in WORDISH or b == "str")) or (a == "op" and b == "op")
            out.append(rnd.choice([" ", " ", "  ", "\t", "\n"]) if need or rnd.random() < 0.6 else "")
        out.append(p)
    return "".join(out)


# --------------------------------------------------------------------------- totality exploration: mutation classes -> strings
BOUNDARY_NUMERALS = ["2147483648", "4294967295", "4294967296", "9223372036854775807", "9223372036854775808",
                     "-9223372036854775809", "18446744073709551616", "-1", "-0", "007", "1.", ".5", "1e5", "1e400",
                     "9" * 400, "9" * 400 + ".0", "0." + "0" * 400 + "1", "-" + "9" * 25, "1.5.2", "--1", "٣"]
ODD_CHARS = ["é", "\U0001F680", "\u00a0", "\u0000", "ß", "İ", "ǅ", "\u200b", "\ufeff", "\u212a", "\u0131", "\u2028", "\\", "'", "`", "\x0b", "\x7f"]
# characters whose upper- or lower-case mapping has another UTF-8 length (byte offsets found in a case-folded
# copy of a command do not fit the original): 2->3, 2->6, 2->3, 2->1, 2->1, 3->2, 2->3 (lower), 2->2, 3->2, 2->2
CASEMAP_CHARS = ["\u0149", "\u0390", "\u01f0", "\u0131", "\u017f", "\ufb01", "\u0130", "\u00df", "\u1e9e", "\u01c5"]
KEYWORDS = ["QUERY", "FIND", "WHERE", "AND", "OR", "NOT", "IN", "LIMIT", "OFFSET", "ORDER", "BY", "FOR", "SINCE", "USING", "TIME",
            "RETURN", "LINKED", "PER", "COUNT", "UNIQUE", "TOTAL", "AVG", "MIN", "MAX", "FOLLOWED", "PRECEDED", "STORE", "PAYLOAD",
            "DEFINE", "FIELDS", "AS", "REPLAY", "REMEMBER", "SHOW", "BATCH", "PLOT", "OF", "FILTER", "TOP", "VS", "BREAKDOWN", "OVER",
            "THEN", "EXISTS", "CREATE", "USER", "WITH", "KEY", "ROLES", "GRANT", "REVOKE", "READ", "WRITE", "ON", "TO", "FROM",
            "LIST", "USERS", "PERMISSIONS", "PING", "FLUSH", "DAY", "HOUR", "ASC", "DESC"]
GARBAGE_ALPHABET = list("abqQ 019-_.,;:=<>!()[]{}\"\\'\t\n*/+%$#@é") + ["\U0001F680", "AND", "OR", "NOT", "QUERY ", "WHERE ", "STORE ", " FOR ", " PAYLOAD "]
import re as _re
_NUM_RE = _re.compile(r'(?<![A-Za-z_0-9.\-"])-?\d+(?:\.\d+)?(?![A-Za-z_0-9."])')


def gen_mutations(rnd, bases, scale):
    """(cls, text, json?) triples drawn from the mutation classes named in ParserTrace.MutationClasses.
    bases: rendered well-formed commands. scale: number of base texts used per class."""
    out = []
    pick = lambda n: [bases[i] for i in sorted(rnd.sample(range(len(bases)), min(n, len(bases))))]
    for b in pick(scale):
        for n in range(len(b)):
            out.append(("truncate", b[:n], False))
    for b in pick(scale * 2):
        pos = [i for i, ch in enumerate(b) if ch in '()[]{}"']
        for i in pos:
            out.append(("unbalance", b[:i] + b[i + 1:], False))
        for i in rnd.sample(pos, min(3, len(pos))):
            out.append(("unbalance", b[:i] + b[i] + b[i:], False))
    for b in pick(scale * 4):
        ms = list(_NUM_RE.finditer(b))
        for m in ms[:3]:
            for nm in BOUNDARY_NUMERALS:
                out.append(("numeral", b[:m.start()] + nm + b[m.end():], False))
    for n in (1, 2, 3, 4, 5, 6, 7, 8):
        out.append(("nest-paren", "QUERY ev WHERE " + "(" * n + "a = 1" + ")" * n, False))
        out.append(("nest-paren", "QUERY ev WHERE " + "( " * n + "a = 1 OR b = 2" + " )" * n + " AND c = 3", False))
        out.append(("nest-paren", "PLOT COUNT OF ev FILTER " + "(" * n + "a = 1" + ")" * n, False))
        out.append(("nest-paren", "REMEMBER QUERY ev WHERE " + "(" * n + "a = 1" + ")" * n + " AS m", False))
        out.append(("nest-paren", "QUERY ev WHERE " + "(" * n + "a = 1", False))
        out.append(("nest-paren", "QUERY ev WHERE k IN " + "(" * n + "1" + ")" * n, False))
    for n in (1, 10, 100, 1000):
        out.append(("nest-not", "QUERY ev WHERE " + "NOT " * n + "a = 1", False))
        out.append(("nest-not", "QUERY ev WHERE " + "not\t" * n + "flag", False))
        out.append(("nest-not", "PLOT COUNT OF ev FILTER " + "NOT " * n + "a = 1", False))
        out.append(("nest-not", "QUERY ev WHERE " + "a = 1 AND " * n + "b = 2", False))
        out.append(("nest-not", "QUERY ev WHERE " + "a = 1 OR " * n + "b = 2", False))
    for n in (1, 10, 100, 400):
        out.append(("nest-json", "STORE ev FOR c PAYLOAD " + '{"a":' * n + "1" + "}" * n, False))
        out.append(("nest-json", "STORE ev FOR c PAYLOAD {\"a\":" + "[" * n + "]" * n + "}", False))
        out.append(("nest-json", "STORE ev FOR c PAYLOAD " + "{" * min(n, 16), False))
        out.append(("nest-json", "DEFINE ev8 FIELDS " + "{ a: " * n + '"int"' + " }" * n, False))
        out.append(("nest-json", "BATCH [ " + "BATCH [ " * n + "PING;" + " ]" * (n + 1), False))
        out.append(("nest-json", "QUERY ev RETURN [" + ",".join("f%d" % i for i in range(n * 10)) + "]", False))
        out.append(("nest-json", "QUERY ev WHERE k IN (" + ",".join(str(i) for i in range(n * 10)) + ")", False))
    for b in pick(scale * 6):
        for _ in range(6):
            i = rnd.randrange(len(b) + 1)
            ch = rnd.choice(ODD_CHARS)
            out.append(("non-ascii", b[:i] + ch + b[i:], False))
        i = rnd.randrange(len(b))
        out.append(("non-ascii", b[:i] + rnd.choice(ODD_CHARS) + b[i + 1:], False))
    # case-map: every command family (first word), a few bases each; the character goes into the first string
    # literal (or right after the first word if there is none), once and three times over, and before the last blank
    fams = {}
    for b in bases:
        fams.setdefault(b.split(" ", 1)[0].upper(), []).append(b)
    for fam in sorted(fams):
        fb = fams[fam]
        for b in [fb[i] for i in sorted(rnd.sample(range(len(fb)), min(3, len(fb))))]:
            q = b.find('"')
            at = q + 1 if q >= 0 else (b.find(" ") if " " in b else len(b))
            last = b.rfind(" ")
            for ch in CASEMAP_CHARS:
                out.append(("case-map", b[:at] + ch + b[at:], False))
                out.append(("case-map", b[:at] + ch * 3 + b[at:], False))
                if last > 0:
                    out.append(("case-map", b[:last] + ch + b[last:], False))
    for ch in CASEMAP_CHARS:
        out.append(("case-map", f'REMEMBER QUERY ev WHERE s = "{ch}" AS m2', False))
        out.append(("case-map", f'REMEMBER QUERY ev WHERE s = "{ch}{ch}" AS m3', False))
        out.append(("case-map", f'QUERY ev WHERE s = "{ch}" LIMIT 1', False))
        out.append(("case-map", f'STORE ev FOR "{ch}" PAYLOAD {{"k":1}}', False))
        out.append(("case-map", f'SHOW {ch}', False))
        out.append(("case-map", f'DEFINE t{ch} FIELDS {{ k: "int" }}', False))
    for b in pick(scale * 4):
        words = list(_re.finditer(r"[A-Za-z_][A-Za-z0-9_\-]*", b))
        for m in rnd.sample(words, min(4, len(words))):
            kw = rnd.choice(KEYWORDS)
            out.append(("keyword-ident", b[:m.start()] + rnd.choice([kw, kw.lower(), kw + "_x", kw.lower() + "1", kw + "-y"]) + b[m.end():], False))
    for b in pick(scale * 6):
        ws = b.split(" ")
        if len(ws) < 2:
            continue
        for _ in range(3):
            j = rnd.randrange(len(ws))
            out.append(("token-drop", " ".join(ws[:j] + ws[j + 1:]), False))
            out.append(("token-dup", " ".join(ws[:j] + [ws[j]] + ws[j:]), False))
            j = rnd.randrange(len(ws) - 1)
            out.append(("token-swap", " ".join(ws[:j] + [ws[j + 1], ws[j]] + ws[j + 2:]), False))
    for b in pick(scale * 6):
        for _ in range(5):
            i = rnd.randrange(len(b))
            r = rnd.random()
            if r < 0.4:
                m = b[:i] + chr(rnd.randrange(32, 127)) + b[i + 1:]
            elif r < 0.7:
                m = b[:i] + b[i + 1:]
            else:
                m = b[:i] + b[i] + b[i:]
            out.append(("char-flip", m, False))
    for _ in range(scale * 40):
        out.append(("garbage", "".join(rnd.choice(GARBAGE_ALPHABET) for _ in range(rnd.randint(0, 40))), False))
    for kw in KEYWORDS:
        out.append(("garbage", kw, False))
        out.append(("garbage", kw.lower() + " " + rnd.choice(KEYWORDS), False))
    out += [("garbage", "", False), ("garbage", "   \t\n", False), ("garbage", "a" * 100000, False),
            ("garbage", "QUERY " + "a" * 100000, False), ("garbage", "QUERY ev WHERE s = \"" + "x" * 100000 + "\"", False),
            ("garbage", '"' * 1001, False), ("garbage", "QUERY ev " + "LIMIT 1 " * 5000, False)]
    for b in pick(scale * 2):
        for ws in ("\n", "\t", " \r\n", "\x0b", "\x0c", "\u00a0", "\u2003"):
            out.append(("whitespace", ws + b + ws, False))
            out.append(("whitespace", b.replace(" ", ws), False))
    J = [
        '{"type":"Ping"}', '{"type":"Flush"}',
        '{"type":"Query","event_type":"ev"}',
        '{"type":"Query","event_type":"ev","where":{"field":"k","op":"eq","value":1},"limit":5,"offset":1}',
        '{"type":"Query","event_type":"ev","where":{"and":[{"field":"k","op":"gt","value":1},{"or":[{"field":"s","op":"=","value":"x"},{"not":{"field":"b","op":"neq","value":true}}]}]}}',
        '{"type":"Query","event_type":"ev","where":{"field":"k","in":[1,2,3]},"order_by":{"field":"k","desc":true}}',
        '{"type":"Query","event_type":"ev","where":{"and":[]}}', '{"type":"Query","event_type":"ev","where":{}}',
        '{"type":"Query","event_type":"ev","where":{"field":"k","op":"bogus","value":null}}',
        '{"type":"Query","event_type":"ev","limit":4294967296}', '{"type":"Query","event_type":"ev","limit":-1}',
        '{"type":"Query","event_type":"ev","context_id":"c1","since":"garbage","time_field":"nosuch"}',
        '{"type":"Replay","context_id":"c1"}', '{"type":"Replay","event_type":"ev","context_id":"c1","since":"2020-01-01T00:00:00Z"}',
        '{"type":"Store","event_type":"ev","context_id":"c9","payload":{"k":1,"s":"x","f":1.5,"b":true}}',
        '{"type":"Store","event_type":"ev","context_id":"c9","payload":[1,2]}', '{"type":"Store","event_type":"ev","context_id":"c9","payload":null}',
        '{"type":"Define","event_type":"jdef","version":1,"schema":{"fields":{"k":"int","e":["a","b"]}}}',
        '{"type":"Define","event_type":"","schema":{"fields":{}}}',
        '{"type":"Batch","0":[]}', '{"type":"Nope"}', '{}', '[]', 'null', '{"type":"Query"}',
        '{"type":"Query","event_type":"ev","where":' + '{"not":' * 50 + '{"field":"k","op":"eq","value":1}' + '}' * 50 + '}',
        '{"type":"Query","event_type":"ev","where":' + '{"not":' * 200 + '{"field":"k","op":"eq","value":1}' + '}' * 200 + '}',
    ]
    for j in J:
        out.append(("json-entry", j, True))
        for _ in range(3):
            i = rnd.randrange(len(j)) if j else 0
            out.append(("json-entry", j[:i] + j[i + 1:], True))
    return out


def known_probes():
    """One input per known hang / crash shape (each costs a time-out or a process restart)."""
    return [("nest-paren", "QUERY ev WHERE " + "(" * 14 + "a = 1" + ")" * 14, False),
            ("nest-not", "QUERY ev WHERE " + "NOT " * 100000 + "a = 1", False),
            ("nest-json", "STORE ev FOR c PAYLOAD " + '{"a":' * 20000 + "1" + "}" * 20000, False),
            ("nest-json", "STORE ev FOR c PAYLOAD " + "{" * 60, False)]
