"""Shared machinery of the /verif checks: harness build, TLC runs, engine lifetimes,
evidence, known findings, verdicts."""
import fcntl
import json
import os
import re
import shutil
import subprocess
import sys
import time
from pathlib import Path

VERIF = Path(__file__).resolve().parent.parent
REPO = Path(os.environ.get("VERIF_REPO", "/repo"))
SPEC = VERIF / "spec"
HARNESS = VERIF / "harness"
WORK = Path(os.environ.get("VERIF_WORK", str(VERIF / ".work")))
EVID = VERIF / "evidence"
TLA_JAR = "/opt/veriftools/tla/tla2tools.jar"
TLA_CP = f"{TLA_JAR}:/opt/veriftools/tla/CommunityModules-deps.jar"


class ToolError(Exception):
    pass


VIOLATIONS_PRINTED = 0      # VIOLATION lines printed by this process (bin/check: they outrank a later tool error)


def log(*a):
    print(*a, file=sys.stderr, flush=True)


def seed():
    try:
        return int(os.environ.get("VERIF_SEED", "1"))
    except ValueError:
        return 1


# --------------------------------------------------------------------------- harness build
def build_harness(bins=("vdrive",), profile="dev"):
    """cargo build of the harness against /repo's current working tree (hooks on).
    Serialised with a file lock (several checks may run at once)."""
    WORK.mkdir(parents=True, exist_ok=True)
    lock = open(WORK / "cargo.lock.flock", "w")
    fcntl.flock(lock, fcntl.LOCK_EX)
    try:
        # keep the lock file in step with /repo's
        src = REPO / "Cargo.lock"
        dst = HARNESS / "Cargo.lock"
        if not dst.exists():
            shutil.copy(src, dst)
        cmd = ["cargo", "build", "--offline"]
        if profile != "dev":
            cmd += ["--profile", profile]
        for b in bins:
            cmd += ["--bin", b]
        env = dict(os.environ)
        env["CARGO_NET_OFFLINE"] = "true"
        t0 = time.time()
        p = subprocess.run(cmd, cwd=HARNESS, env=env, capture_output=True, text=True)
        if p.returncode != 0:
            log(p.stdout[-4000:])
            log(p.stderr[-8000:])
            raise ToolError("harness build failed")
        log(f"[build] {' '.join(bins)} ({profile}) in {time.time()-t0:.1f}s")
    finally:
        fcntl.flock(lock, fcntl.LOCK_UN)
        lock.close()
    sub = "debug" if profile == "dev" else profile
    return HARNESS / "target" / sub


# --------------------------------------------------------------------------- TLC
class TlcResult:
    def __init__(self, out, rc, wall):
        self.out = out
        self.rc = rc
        self.wall = wall
        self.states = 0
        self.distinct = 0
        self.generated = 0
        self.violated = None
        self.error = None
        self.action_cov = {}
        m = re.search(r"(\d+) states generated, (\d+) distinct states found", out)
        if m:
            self.generated = int(m.group(1))
            self.distinct = int(m.group(2))
        else:
            # simulation mode prints progress lines only
            m2 = re.findall(r"Progress: (\d+) states checked, (\d+) traces generated", out)
            if m2:
                self.generated = int(m2[-1][0])
                self.distinct = int(m2[-1][1])
        m = re.search(r"Error: Invariant (\S+) is violated", out)
        if m:
            self.violated = m.group(1)
        m = re.search(r"Error: Action property (\S+) is violated", out)
        if m:
            self.violated = m.group(1)
        m = re.search(r"Error: Temporal properties were violated", out)
        if m and not self.violated:
            self.violated = "temporal"
        if "Error:" in out and not self.violated:
            em = re.search(r"Error: (.*)", out)
            self.error = em.group(1) if em else "unknown"
        # coverage: "<Action line ..>: distinct:total"
        for m in re.finditer(r"^<(\w+) line \d+, col \d+ to line \d+, col \d+ of module (\w+)>: (\d+):(\d+)", out, re.M):
            self.action_cov[m.group(1)] = self.action_cov.get(m.group(1), 0) + int(m.group(4))

    def printed_raw(self, tag):
        """Strings printed with PrintT(<<tag, "...">>); TLC wraps long tuples over several lines."""
        pat = re.compile(r'<<\s*"' + re.escape(tag) + r'",\s*"((?:[^"\\]|\\.)*)"\s*>>', re.S)
        return [m.group(1).replace('\\"', '"').replace("\\\\", "\\") for m in pat.finditer(self.out)]

    def printed_int(self, tag):
        """Last integer printed with PrintT(<<tag, n>>), or None."""
        m = re.findall(r'<<\s*"' + re.escape(tag) + r'",\s*(-?\d+)\s*>>', self.out)
        return int(m[-1]) if m else None

    def printed_last(self, tag):
        """Last JSON value printed with PrintT(<<tag, ToJson(x)>>), or None."""
        v = self.printed(tag)
        return v[-1] if v else None

    def printed(self, tag):
        """Values printed with PrintT(<<tag, x>>) where x is a JSON string."""
        res = []
        for body in self.printed_raw(tag):
            try:
                res.append(json.loads(body))
            except json.JSONDecodeError as e:
                raise ToolError(f"bad JSON from TLC ({tag}): {e}: {body[:200]}")
        return res


def tlc(module, cfg, *, workers=8, simulate=None, depth=None, seed_=None, env=None, extra=(),
        timeout=600, deque=False, xss=False, coverage=False, mem="4g", cwd=None, metaname=None):
    """Run TLC on spec/<module>.tla with spec/<cfg>. Returns TlcResult. Raises ToolError on tool failure."""
    cwd = cwd or SPEC
    meta = WORK / "tlc" / (metaname or f"{module}-{cfg}-{os.getpid()}-{int(time.time()*1000)%100000}")
    if meta.exists():
        shutil.rmtree(meta, ignore_errors=True)
    meta.mkdir(parents=True, exist_ok=True)
    jopts = [f"-Xmx{mem}", "-XX:+UseParallelGC"]
    if xss:
        jopts.append("-Xss1g")
    if deque:
        jopts.append("-Dtlc2.tool.queue.IStateQueue=StateDeque")
    cmd = ["java"] + jopts + ["-cp", TLA_CP, "tlc2.TLC", "-workers", str(workers), "-metadir", str(meta),
                              "-noGenerateSpecTE", "-config", str(cfg)]
    if simulate is not None:
        cmd += ["-simulate", f"num={simulate}"]
        if depth:
            cmd += ["-depth", str(depth)]
        if seed_ is not None:
            cmd += ["-seed", str(seed_)]
    if coverage:
        cmd += ["-coverage", "1"]
    cmd += list(extra)
    cmd.append(f"{module}.tla")
    e = dict(os.environ)
    e.pop("JAVA_TOOL_OPTIONS", None)
    if env:
        e.update({k: str(v) for k, v in env.items()})
    t0 = time.time()
    try:
        p = subprocess.run(cmd, cwd=cwd, env=e, capture_output=True, text=True, timeout=timeout)
    except subprocess.TimeoutExpired as ex:
        shutil.rmtree(meta, ignore_errors=True)
        out = (ex.stdout or b"")
        if isinstance(out, bytes):
            out = out.decode(errors="replace")
        r = TlcResult(out, 124, time.time() - t0)
        r.error = "timeout"
        return r
    shutil.rmtree(meta, ignore_errors=True)
    r = TlcResult(p.stdout + p.stderr, p.returncode, time.time() - t0)
    return r


def tlc_ok(r, what):
    """Raise ToolError unless TLC finished without any error (parse errors, deadlock, ...)."""
    if r.violated or r.error or r.rc not in (0,):
        log(r.out[-6000:])
        raise ToolError(f"TLC failed on {what}: violated={r.violated} error={r.error} rc={r.rc}")


# --------------------------------------------------------------------------- engine lifetimes
def run_vdrive(bindir, script, *, timeout=120, env=None, name="vdrive"):
    """Run one engine lifetime. script: dict with config/steps/out. Returns (rc, observations)."""
    out = Path(script["out"])
    if out.exists():
        out.unlink()
    sp = out.with_suffix(".script.json")
    sp.write_text(json.dumps(script))
    e = dict(os.environ)
    if env:
        e.update({k: str(v) for k, v in env.items()})
    try:
        p = subprocess.run([str(bindir / name), str(sp)], capture_output=True, text=True, timeout=timeout, env=e)
        rc = p.returncode
        err = p.stderr
    except subprocess.TimeoutExpired:
        rc = 124
        err = "timeout"
    obs = []
    if out.exists():
        for line in out.read_text().splitlines():
            if line.strip():
                try:
                    obs.append(json.loads(line))
                except json.JSONDecodeError:
                    obs.append({"op": "garbled", "raw": line})
    return rc, obs, err


# --------------------------------------------------------------------------- known findings
class Findings:
    def __init__(self, prop):
        self.prop = prop
        self.open = {}
        self.fixed = []
        p = VERIF / "known_findings.jsonl"
        if p.exists():
            for line in p.read_text().splitlines():
                line = line.strip()
                if not line or line.startswith("#"):
                    continue
                f = json.loads(line)
                if f.get("status") == "open":
                    if prop == f.get("property") or prop in f.get("manifests_in", []):
                        self.open[f["id"]] = f
                elif f.get("status") == "fixed":
                    self.fixed.append(f)
        self.hit = {}

    def known(self, fid):
        return fid in self.open

    def note(self, fid, what):
        if fid not in self.hit:
            self.hit[fid] = what

    def print_known(self):
        for fid, what in sorted(self.hit.items()):
            f = self.open[fid]
            print(f"KNOWN-FINDING: property={self.prop} {fid} {f.get('what','')} [e.g. {what}]", flush=True)


# --------------------------------------------------------------------------- verdicts and evidence
class Check:
    def __init__(self, prop, level, tier):
        self.prop = prop
        self.level = level
        self.tier = tier
        self.t0 = time.time()
        self.violations = []
        self.findings = Findings(prop)
        self.cov = {"samples": []}
        self.assumptions = []
        self.replay_dir = WORK / "replays"
        self.replay_dir.mkdir(parents=True, exist_ok=True)
        for old in self.replay_dir.glob(f"{prop}-{tier}-*.json"):
            try:
                old.unlink()
            except OSError:
                pass

    def violation(self, what, replay_obj):
        n = len(self.violations)
        path = self.replay_dir / f"{self.prop}-{self.tier}-{n}.json"
        path.write_text(json.dumps({"property": self.prop, "what": what, "replay": replay_obj}, indent=1))
        self.violations.append((what, str(path)))
        if n < 20:
            global VIOLATIONS_PRINTED
            VIOLATIONS_PRINTED += 1
            print(f"VIOLATION property={self.prop} replay={path}", flush=True)
            log(f"  -> {what}")

    def classify(self, finding_ids, what, replay_obj):
        """A discrepancy explained by finding_ids (all must be listed as open) is a known finding;
        otherwise a violation."""
        ids = list(finding_ids)
        if ids and all(self.findings.known(f) for f in ids):
            for f in ids:
                self.findings.note(f, what)
            return "known"
        self.violation(what + (f" [unlisted signature {ids}]" if ids else ""), replay_obj)
        return "violation"

    def sample(self, s, cap=5):
        if len(self.cov["samples"]) < cap:
            self.cov["samples"].append(s)

    def finish(self):
        self.findings.print_known()
        ev = {
            "property_id": self.prop,
            "tier": self.tier,
            "seed": seed(),
            "level": self.level,
            "coverage": self.cov,
            "assumptions": self.assumptions,
            "wall_s": round(time.time() - self.t0, 2),
            "violations": len(self.violations),
        }
        ev["coverage"]["known_findings_hit"] = sorted(self.findings.hit)
        EVID.mkdir(exist_ok=True)
        (EVID / f"{self.prop}.json").write_text(json.dumps(ev, indent=1, default=str))
        return 1 if self.violations else 0
