"""Concretisation layer for the Query module: abstract values -> typed literals, expression
printing, storage layouts, TLC case generation.  No query semantics here - the expected
results always come from TLA+ (spec/Query.tla)."""
import json
import random
from pathlib import Path

from . import core

NULL = -1

# order-preserving embeddings of the abstract ordered domain 0..4 into each field kind
EMBED = {
    "int": [-5, 0, 7, 1000, 2 ** 40],
    "int2": [-(2 ** 62), -1, 0, 1, 2 ** 62],
    "int3": [2 ** 60, 2 ** 60 + 1, 2 ** 60 + 2, 2 ** 60 + 3, 2 ** 60 + 4],     # neighbours far above 2^53 (not separable as doubles)
    "u64": [0, 1, 2 ** 31, 2 ** 63 + 5, 2 ** 64 - 2],
    "u64s": [0, 1, 2 ** 31, 2 ** 40, 2 ** 62],        # u64 values that also fit i64
    "float": [-2.5, 0.5, 1.25, 3.75, 1.0e10],
    "floati": [-3.0, 0.0, 1.0, 2.5, 1000.0],          # integral floats mixed in
    "string": ["", "a", "ab", "b", "ü"],
    "string2": ["A", "Z", "a", "aa", "z"],
    "enum": ["v0", "v1", "v2", "v3", "v4"],             # v4 is NOT declared in the schema (probe only)
    "bool": [False, True, None, None, None],
    "datetime": [100, 3600, 86400, 86400 * 40, 1_700_000_000],
    "numid": [0, 1, 2, 3, 4], "numid_opt": [0, 1, 2, 3, 4],       # the abstract value itself (small integers)
    # instants around one day: half an hour and an hour apart, then days apart (zones of mixed values span > 48 h,
    # zones of equal values one hour): narrow and wide zones in one segment, without the cost of decade-wide spans
    "datetime2": [1_700_000_000, 1_700_001_800, 1_700_003_600, 1_700_000_000 + 3 * 86400, 1_700_000_000 + 5 * 86400],
}
SCHEMA_TYPE = {
    "int": '"int"', "int2": '"int"', "int3": '"int"', "u64": '"u64"', "u64s": '"u64"', "float": '"float"', "floati": '"float"',
    "string": '"string"', "string2": '"string"', "enum": '["v0", "v1", "v2", "v3"]', "bool": '"bool"',
    "datetime": '"datetime"', "datetime2": '"datetime"', "numid": '"int"', "numid_opt": '"int | null"',
}
ORDERED = {"numid", "numid_opt", "int", "int2", "int3", "u64", "u64s", "float", "floati", "string", "string2", "datetime", "datetime2"}


def lit(kind, v):
    """query literal text for abstract value v of a field kind"""
    if kind.startswith("numid"):
        return str(v)
    x = EMBED[kind][v]
    if kind in ("string", "string2", "enum"):
        return json.dumps(x, ensure_ascii=False)
    if kind == "bool":
        return "true" if x else "false"
    if kind in ("float", "floati"):
        s = repr(float(x))
        if "e" in s or "E" in s:
            s = "%.1f" % x
        return s
    return str(x)


def json_val(kind, v):
    if kind.startswith("numid"):
        return None if (v == NULL and kind.endswith("_opt")) else v
    if v == NULL:
        return None
    return EMBED[kind][v]


def expr_text(x, kinds):
    t = x["tag"]
    if t == "cmp":
        return f'{x["f"]} {x["op"]} {lit(kinds[x["f"]], x["v"])}'
    if t == "in":
        vs = sorted(x["vs"])
        return f'{x["f"]} IN ({", ".join(lit(kinds[x["f"]], v) for v in vs)})'
    if t == "and":
        return f'({expr_text(x["l"], kinds)}) AND ({expr_text(x["r"], kinds)})'
    if t == "or":
        return f'({expr_text(x["l"], kinds)}) OR ({expr_text(x["r"], kinds)})'
    if t == "not":
        return f'NOT ({expr_text(x["e"], kinds)})'
    if t == "true":
        return None
    raise ValueError(t)


def query_text(q, kinds, etype="ev", ret="[k]", time_embed=None):
    s = f"QUERY {etype}"
    if q["ctx"] != "*":
        s += f" FOR {q['ctx']}"
    if q["since"] != -1:
        s += f' SINCE "{time_embed(q["since"])}"' if time_embed else f" SINCE {q['since']}"
    if ret:
        s += f" RETURN {ret}"
    w = expr_text(q["where"], kinds)
    if w:
        s += f" WHERE {w}"
    return s


def expr_features(x, out=None, depth=0):
    """Syntactic shape features of an expression (for signatures of known findings)."""
    out = out if out is not None else {"ops": set(), "tags": set(), "depth": 0, "fields": set(), "neg_ops": False}
    out["depth"] = max(out["depth"], depth)
    out["tags"].add(x["tag"])
    if x["tag"] == "cmp":
        out["ops"].add(x["op"])
        out["fields"].add(x["f"])
    elif x["tag"] == "in":
        out["fields"].add(x["f"])
    elif x["tag"] in ("and", "or"):
        expr_features(x["l"], out, depth + 1)
        expr_features(x["r"], out, depth + 1)
    elif x["tag"] == "not":
        expr_features(x["e"], out, depth + 1)
    return out


def tla_event(e, fields):
    f = ", ".join(f'{n} |-> {e["f"][n]}' for n in fields)
    return f'[k |-> {e["k"]}, c |-> "{e["c"]}", ts |-> {e["ts"]}, f |-> [{f}]]'


def write_mc(name, data, fields, probes, ctxs, times, n2, n3, ord_fields):
    """MC module fixing the abstract data set; returns (module name, cfg path)."""
    d = core.WORK / "qgen"
    d.mkdir(parents=True, exist_ok=True)
    mod = f"MCQ_{name}"
    evs = ",\n    ".join(tla_event(e, fields) for e in data)
    (d / f"{mod}.tla").write_text(f"""---- MODULE {mod} ----
EXTENDS QueryGen
DataDef == {{
    {evs} }}
====
""")
    st = lambda xs: "{" + ", ".join(f'"{x}"' for x in xs) + "}"
    nums = lambda xs: "{" + ", ".join(str(x) for x in xs) + "}"
    (d / f"{mod}.cfg").write_text(f"""SPECIFICATION Spec
CONSTANTS
  Data <- DataDef
  Fields = {st(fields)}
  Probes = {nums(probes)}
  Ctxs = {st(ctxs)}
  Times = {nums(times)}
  N2 = {n2}
  N3 = {n3}
  OrdFields = {st(ord_fields)}
INVARIANT Emit
CHECK_DEADLOCK FALSE
""")
    # TLC resolves EXTENDS relative to cwd: copy the spec modules next to the MC module
    for f in ("Query.tla", "QueryGen.tla"):
        (d / f).write_text((core.SPEC / f).read_text())
    return mod, d


def gen_cases(name, data, fields, probes, ctxs, times, n2, n3, ord_fields, seed):
    mod, d = write_mc(name, data, fields, probes, ctxs, times, n2, n3, ord_fields)
    r = core.tlc(mod, f"{mod}.cfg", workers=4, cwd=d, extra=["-seed", str(seed)], timeout=600, mem="4g")
    if r.error or r.violated:
        core.log(r.out[-3000:])
        raise core.ToolError(f"QueryGen failed: {r.error or r.violated}")
    cases = r.printed("CASE")
    return cases, r


def random_data(rnd, n, fields, ctxs, values=(1, 3), times=(10, 20, 30), null_fields=()):
    """Abstract data set: values drawn from `values` (probes also use the gaps 0,2,4)."""
    data = []
    for k in range(1, n + 1):
        f = {}
        for name in fields:
            if name in null_fields and rnd.random() < 0.25:
                f[name] = NULL
            else:
                f[name] = rnd.choice(values)
        data.append({"k": k, "c": rnd.choice(ctxs), "ts": rnd.choice(times), "f": f})
    return data


def define_cmd(kinds, etype="ev", optional=()):
    parts = ['k: "int"']
    for n, kd in kinds.items():
        ty = SCHEMA_TYPE[kd]
        if n in optional and not kd.endswith("_opt"):
            ty = f'"{ty.strip(chr(34))} | null"' if ty.startswith('"') else ty
        parts.append(f"{n}: {ty}")
    return f"DEFINE {etype} FIELDS {{ {', '.join(parts)} }}"


def store_cmd(e, kinds, etype="ev"):
    payload = {"k": e["k"]}
    for n, kd in kinds.items():
        v = json_val(kd, e["f"][n])
        if v is None and e["f"][n] == NULL:
            continue            # optional field absent
        payload[n] = v
    return f"STORE {etype} FOR {e['c']} PAYLOAD {json.dumps(payload, ensure_ascii=False)}"


LAYOUTS = ["mem", "l0", "l0x3", "l1", "mixed", "restart"]


def layout_steps(layout, data, kinds, etype="ev", time_of=lambda ts: 1_700_000_000 + ts, optional=()):
    """Lifetimes (lists of vdrive steps) that put `data` into the named storage layout.
    Returns list of lifetimes; queries are appended to the last one by the caller."""
    st = [{"op": "cmd", "text": define_cmd(kinds, etype, optional), "tag": ["define"]}]

    def store(e):
        return [{"op": "clock_secs", "t": time_of(e["ts"])},
                {"op": "cmd", "text": store_cmd(e, kinds, etype), "tag": ["store", e["k"]]}]
    n = len(data)
    flush = {"op": "cmd", "text": "FLUSH", "tag": ["flush"]}
    if layout == "mem":
        for e in data:
            st += store(e)
        return [st]
    if layout == "l0":
        for e in data:
            st += store(e)
        st.append(flush)
        return [st]
    if layout == "l0mem":
        # the first 85 % flushed, the rest left in memory (the caller decides which contexts - hence shards - get which part)
        cut = (len(data) * 85) // 100
        for i, e in enumerate(data):
            st += store(e)
            if i == cut - 1:
                st.append(flush)
        return [st]
    if layout == "l0ab":
        # a small segment, then one with many zones (the planner's ">90% of more than 10 zones" fallback applies to
        # the second only, so one read mixes pruned and fallback zone lists)
        for i, e in enumerate(data):
            st += store(e)
            if i == 1:
                st.append(flush)
        st.append(flush)
        return [st]
    if layout == "l0x3":
        for i, e in enumerate(data):
            st += store(e)
            if (i + 1) % max(1, n // 3) == 0:
                st.append(flush)
        st.append(flush)
        return [st]
    if layout == "l1":
        for i, e in enumerate(data):
            st += store(e)
            if (i + 1) % max(1, n // 4) == 0:
                st.append(flush)
        st.append(flush)
        st += [{"op": "compact", "shard": None, "tag": ["compact"]}, {"op": "compact", "shard": None, "tag": ["compact"]}]
        return [st]
    if layout in ("mixed", "restart"):
        a, b = n // 3, 2 * n // 3
        for i, e in enumerate(data[:a]):
            st += store(e)
            if i == a // 2:
                st.append(flush)
        st.append(flush)
        st.append({"op": "compact", "shard": None, "tag": ["compact"]})
        for e in data[a:b]:
            st += store(e)
        st.append(flush)
        for e in data[b:]:
            st += store(e)
        if layout == "mixed":
            return [st]
        st.append({"op": "shutdown"})
        return [st, []]
    raise ValueError(layout)


def random_expr(rnd, kinds, depth, probes=(0, 1, 2, 3, 4), allow=None):
    """Random expression tree (syntax only). allow(kind, op) filters leaf shapes."""
    fields = list(kinds)
    if depth == 0 or rnd.random() < 0.3:
        for _ in range(50):
            f = rnd.choice(fields)
            kd = kinds[f]
            if rnd.random() < 0.15:
                vs = sorted(set(rnd.choice(probes) for _ in range(rnd.choice((1, 2, 3)))))
                leaf = {"tag": "in", "f": f, "vs": vs}
                if all(EMBED[kd][v] is not None for v in vs) and (allow is None or allow(kd, "in", leaf)):
                    return leaf
                continue
            op = rnd.choice(["=", "!=", "<", "<=", ">", ">="] if kd in ORDERED else ["=", "!="])
            v = rnd.choice(probes)
            leaf = {"tag": "cmp", "f": f, "op": op, "v": v}
            if EMBED[kd][v] is None or (allow is not None and not allow(kd, op, leaf)):
                continue
            return leaf
        raise ValueError("no admissible leaf")
    r = rnd.random()
    if r < 0.25:
        return {"tag": "not", "e": random_expr(rnd, kinds, depth - 1, probes, allow)}
    tag = "and" if r < 0.65 else "or"
    return {"tag": tag, "l": random_expr(rnd, kinds, depth - 1, probes, allow), "r": random_expr(rnd, kinds, depth - 1, probes, allow)}


# ---- time embedding around calendar boundaries (UTC) and an independent bucket routine
T_DAY = 1700006400        # 2023-11-15T00:00:00Z (Wednesday)
T_WEEK = 1700438400       # 2023-11-20T00:00:00Z (Monday)
T_MONTH = 1701388800      # 2023-12-01T00:00:00Z
T_YEAR = 1704067200       # 2024-01-01T00:00:00Z
TIME_EMBED = {10: T_DAY - 1, 20: T_DAY, 30: T_DAY + 3599, 40: T_DAY + 3600, 50: T_WEEK - 1, 60: T_WEEK,
              70: T_MONTH - 1, 80: T_MONTH, 90: T_YEAR - 1, 95: T_YEAR}


def bucket_start(ts, gran, week_start="Mon"):
    import datetime as _dt
    d = _dt.datetime.fromtimestamp(ts, _dt.timezone.utc)
    if gran == "hour":
        d = d.replace(minute=0, second=0)
    elif gran == "day":
        d = d.replace(hour=0, minute=0, second=0)
    elif gran == "week":
        d = d.replace(hour=0, minute=0, second=0)
        wd = d.weekday() if week_start == "Mon" else (d.weekday() + 1) % 7
        d = d - _dt.timedelta(days=wd)
    elif gran == "month":
        d = d.replace(day=1, hour=0, minute=0, second=0)
    elif gran == "year":
        d = d.replace(month=1, day=1, hour=0, minute=0, second=0)
    return int(d.timestamp())
