"""Spec -> implementation replay for the Storage module (C01, C04, C05, C11).

TLC (StorageGen) produces behaviours: command histories with the observation the as-built
model predicts after every command.  Each behaviour is cut into engine lifetimes at its
crash / restart commands; every lifetime is one vdrive process on the same directories."""
import json
import shutil
from collections import Counter
from pathlib import Path

from . import core

STAGE_HOOK = {
    "start": "flush.start",
    "partial": "flusher.type_written",
    "written": "flush.written",
    "published": "flush.published",
    "cleared": "flush.passive_cleared",
}
COMPACT_HOOK = {"out": "compact.output_written", "idx": "compact.index_saved", "norecl": "reclaim.renaming"}


ALL_FLUSH_CRASH = ["start", "partial", "written", "published", "cleared"]
ALL_COMPACT_CRASH = ["out", "idx", "norecl"]


def _set(xs):
    return "{" + ", ".join(f'"{x}"' for x in xs) + "}"


def gen_cfg(name, *, cap, k, types, ctxs, fix, gen_len, max_crash=3, max_flush=3, max_compact=3,
            flush_crash=None, compact_crash=None, quiescent_crash=True, clean_restarts=True):
    """Write a StorageGen cfg into .work and return its path."""
    d = core.WORK / "cfg"
    d.mkdir(parents=True, exist_ok=True)
    p = d / f"{name}.cfg"
    fx = "{" + ", ".join(f'"{f}"' for f in fix) + "}"
    p.write_text(f"""SPECIFICATION GenSpec
CONSTANTS
  Cap = {cap}
  K = {k}
  Types = {{{", ".join(f'"{t}"' for t in types)}}}
  Ctxs = {{{", ".join(f'"{c}"' for c in ctxs)}}}
  MaxEv = 100
  MaxCrash = {max_crash}
  MaxFlush = {max_flush}
  MaxCompact = {max_compact}
  Fix = {fx}
  FlushCrash = {_set(ALL_FLUSH_CRASH if flush_crash is None else flush_crash)}
  CompactCrash = {_set(ALL_COMPACT_CRASH if compact_crash is None else compact_crash)}
  QuiescentCrash = {"TRUE" if quiescent_crash else "FALSE"}
  CleanRestarts = {"TRUE" if clean_restarts else "FALSE"}
  GenLen = {gen_len}
INVARIANT Emit
CHECK_DEADLOCK FALSE
""")
    return p


def behaviours(cfgpath, *, n, gen_len, seed, timeout=300):
    r = core.tlc("StorageGen", cfgpath, workers=1, simulate=n, depth=gen_len + 1, seed_=seed, timeout=timeout)
    if r.error or r.violated:
        core.log(r.out[-3000:])
        raise core.ToolError(f"StorageGen failed: {r.error or r.violated}")
    seen = set()
    out = []
    for b in r.printed("BEH"):
        key = json.dumps(b, sort_keys=True)
        if key not in seen:
            seen.add(key)
            out.append(b)
    return out, r


def features(beh):
    """Feature classes of a behaviour (for coverage-driven selection)."""
    f = set()
    stored = False
    for i, c in enumerate(beh):
        cmd = c["cmd"]
        cr = c.get("crash", "none")
        f.add(f"{cmd}:{cr}")
        if cmd == "flush" and stored:
            f.add("flush-after-store")
        if cmd == "store":
            stored = True
        for x in c["obs"]["fired"]:
            f.add("fired:" + x)
        if i > 0:
            f.add(f"{beh[i-1]['cmd']}>{cmd}")
    return f


def select(behs, limit):
    """Greedy set cover over feature classes, then fill up in order."""
    feats = [features(b) for b in behs]
    chosen = []
    covered = set()
    remaining = list(range(len(behs)))
    while remaining and len(chosen) < limit:
        best = max(remaining, key=lambda i: len(feats[i] - covered))
        if not (feats[best] - covered):
            break
        chosen.append(best)
        covered |= feats[best]
        remaining.remove(best)
    for i in remaining:
        if len(chosen) >= limit:
            break
        chosen.append(i)
    allf = set().union(*feats) if feats else set()
    return [behs[i] for i in chosen], covered, allf


def _observe_steps(types, ctxs, tag):
    st = []
    for t in types:
        st.append({"op": "cmd", "text": f"QUERY {t}", "tag": [tag, "q", t]})
        # the WHERE pins the type: COUNT without it also counts other types held in memory
        # (known finding C09-agg-ignores-scope, steered around here)
        st.append({"op": "cmd", "text": f'QUERY {t} WHERE ty = "{t}" COUNT', "tag": [tag, "count", t]})
    for c in ctxs:
        # per type: the wildcard form returns one type only once data is on disk
        # (known finding C04-wildcard-replay-on-disk); it is observed separately
        for t in types:
            st.append({"op": "cmd", "text": f"REPLAY {t} FOR {c}", "tag": [tag, "replay", f"{t}|{c}"]})
        st.append({"op": "cmd", "text": f"REPLAY FOR {c}", "tag": [tag, "replay_all", c]})
    st.append({"op": "fs", "tag": [tag, "fs"]})
    return st


def lifetimes(beh, types, ctxs):
    """Cut a behaviour into lifetimes. Each lifetime: list of (cmd index, steps)."""
    lts = []
    cur = []
    first = True
    for i, c in enumerate(beh):
        steps = []
        cmd = c["cmd"]
        cr = c.get("crash", "none")
        ends = False
        if cmd == "store":
            if cr != "none":
                steps.append({"op": "arm_crash", "at": STAGE_HOOK[cr]})
            payload = json.dumps({"k": c["k"], "ty": c["t"]})
            steps.append({"op": "cmd", "text": f"STORE {c['t']} FOR {c['c']} PAYLOAD {payload}", "tag": [i, "store"]})
            if cr != "none":
                steps.append({"op": "await_crash", "ms": 4000})
                ends = True
            else:
                steps += [{"op": "flush_wait"}, {"op": "wal_drain"}]
        elif cmd == "flush":
            if cr != "none":
                steps.append({"op": "arm_crash", "at": STAGE_HOOK[cr]})
            steps.append({"op": "cmd", "text": "FLUSH", "tag": [i, "flush"]})
            if cr != "none":
                steps.append({"op": "await_crash", "ms": 4000})
                ends = True
            else:
                steps += [{"op": "wal_drain"}]
        elif cmd == "compact":
            if cr != "none":
                steps.append({"op": "arm_crash", "at": COMPACT_HOOK[cr]})
            steps.append({"op": "compact", "shard": c.get("shard", 0), "tag": [i, "compact"], "reclaim_wait_ms": 1500})
            if cr != "none":
                steps.append({"op": "await_crash", "ms": 4000})
                ends = True
        elif cmd == "crash":
            steps.append({"op": "crash"})
            ends = True
        elif cmd == "restart":
            steps.append({"op": "shutdown"})
            ends = True
        if not ends:
            steps += _observe_steps(types, ctxs, i)
        cur.append((i, steps))
        if ends:
            lts.append(cur)
            # the observation of a life-ending command is taken at the start of the next lifetime
            cur = [(i, _observe_steps(types, ctxs, i))]
    lts.append(cur)
    return lts


def decode_rows(obs, back=None):
    """rows of a QUERY/REPLAY response -> list of (k, ctx, type, event_id); `back` maps real context names to the model's"""
    if back:
        rows = decode_rows(obs)
        return rows if rows is None else [(k, back.get(c, c), t, e) for (k, c, t, e) in rows]
    if obs.get("outcome") != "response":
        return None
    cols = obs.get("columns", [])
    try:
        ik = cols.index("k")
        ic = cols.index("context_id")
        it = cols.index("event_type")
        ie = cols.index("event_id")
    except ValueError:
        return [] if not obs.get("rows") else None
    return [(r[ik], r[ic], r[it], r[ie]) for r in obs["rows"]]


def probe_routing(bindir, shards, names=None):
    """{shard: [context names]} as the running code routes them (observed from event ids, not computed)."""
    root = core.WORK / "routing-probe" / f"s{shards}"
    if root.exists():
        shutil.rmtree(root)
    root.mkdir(parents=True)
    names = names or [f"p{i}" for i in range(16)]
    cfg = {"root": str(root / "db"), "fill_factor": 1000, "event_per_zone": 2, "shards": shards, "k": 2}
    steps = [{"op": "cmd", "text": 'DEFINE rp FIELDS { k: "int" }'}]
    for i, n in enumerate(names):
        steps.append({"op": "cmd", "text": f'STORE rp FOR {n} PAYLOAD {{"k": {i}}}'})
    steps.append({"op": "cmd", "text": "QUERY rp", "tag": ["q"]})
    rc, obs, err = core.run_vdrive(bindir, {"config": cfg, "out": str(root / "o.ndjson"), "steps": steps})
    by = {}
    for o in obs:
        if o.get("tag") == ["q"]:
            cols = o.get("columns", [])
            for r in o.get("rows", []):
                by.setdefault((r[cols.index("event_id")] >> 12) & 0x3FF, []).append(r[cols.index("context_id")])
    shutil.rmtree(root, ignore_errors=True)
    if not by:
        raise core.ToolError(f"routing probe failed: rc={rc} {err[-200:]}")
    return by


def run_behaviour(bindir, beh, *, root, cap, k, types, ctxs, fill=None, epz=None, keep=False, extra_cfg=None,
                  crash_delay_ms=40, shards=1, shard=0, ctx_names=None, prepared=False):
    """Replay one behaviour. Returns list of per-command observation dicts:
       {i, cmd, model, real: {q: {t: rows}, count: {t: n}, replay: {c: rows}, fs: {...}}, problems: [...]}"""
    root = Path(root)
    if root.exists():
        shutil.rmtree(root)
    root.mkdir(parents=True)
    if fill is None:
        # capacity = fill_factor * event_per_zone
        fill, epz = (cap, 1) if cap % 2 else (cap // 2, 2)
    cfg = {"root": str(root / "db"), "fill_factor": fill, "event_per_zone": epz, "shards": shards, "k": k}
    if extra_cfg:
        cfg.update(extra_cfg)
    lts = lifetimes(beh, types, ctxs)
    back = {v: k for k, v in (ctx_names or {}).items()}
    if shards > 1 and not prepared:
        # the model describes ONE shard: every context of the behaviour is given a name that the code routes to
        # shard `shard`; the other shards stay empty (they still take part in start-up, shutdown and fan-out)
        for lt in lts:
            for (_i, sts) in lt:
                for st in sts:
                    if st.get("op") == "compact":
                        st["shard"] = shard
                    if st.get("op") == "cmd":
                        for c in ctxs:
                            st["text"] = st["text"].replace(f" FOR {c} ", f" FOR {ctx_names[c]} ")
                            if st["text"].endswith(f" FOR {c}"):
                                st["text"] = st["text"][: -len(c)] + ctx_names[c]
    results = {}
    problems = []
    for li, lt in enumerate(lts):
        steps = []
        if li == 0:
            for t in types:
                steps.append({"op": "cmd", "text": f'DEFINE {t} FIELDS {{ k: "int", ty: "string" }}', "tag": [-1, "define"]})
        for (_i, st) in lt:
            steps += st
        script = {"config": cfg, "out": str(root / f"obs{li}.ndjson"), "steps": steps}
        rc, obs, err = core.run_vdrive(bindir, script, env={"VERIF_CRASH_DELAY_MS": crash_delay_ms}, timeout=90)
        last_ends = lt[-1][1] and lt[-1][1][-1]["op"] in ("crash", "await_crash", "shutdown")
        for o in obs:
            tag = o.get("tag")
            if o.get("op") == "await_crash":
                problems.append({"lifetime": li, "problem": "crash point not reached", "obs": o})
            if o.get("op") == "cmd" and o.get("outcome") in ("panic", "timeout"):
                problems.append({"lifetime": li, "problem": f"command {o.get('outcome')}", "obs": o})
            if o.get("op") == "cmd" and isinstance(tag, list) and tag[1] in ("store", "flush", "define"):
                if o.get("outcome") != "response" or o.get("status") != 200:
                    problems.append({"lifetime": li, "problem": "command not acknowledged", "obs": o})
            if o.get("op") == "compact":
                for r in o.get("results", []):
                    if r != "ok":
                        problems.append({"lifetime": li, "problem": "compaction failed", "obs": o})
            if not isinstance(tag, list) or len(tag) < 2 or not isinstance(tag[0], int) or tag[0] < 0:
                continue
            i = tag[0]
            rec = results.setdefault(i, {"q": {}, "count": {}, "replay": {}, "replay_all": {}, "fs": None, "raw_bad": []})
            kind = tag[1]
            if kind == "q":
                rows = decode_rows(o, back)
                if rows is None:
                    rec["raw_bad"].append(o)
                rec["q"][tag[2]] = rows
            elif kind == "count":
                if o.get("outcome") == "response" and o.get("rows"):
                    rec["count"][tag[2]] = o["rows"][0][0]
                elif o.get("outcome") == "response" and o.get("status") == 200:
                    rec["count"][tag[2]] = 0
                else:
                    rec["count"][tag[2]] = None
                    rec["raw_bad"].append(o)
            elif kind == "replay":
                rows = decode_rows(o, back)
                if rows is None:
                    rec["raw_bad"].append(o)
                rec["replay"][tag[2]] = rows
            elif kind == "replay_all":
                rec["replay_all"][tag[2]] = decode_rows(o, back)
            elif kind == "fs":
                rec["fs"] = o["shards"][shard]
                rec["fs_all"] = o["shards"]
                rec["uids"] = o.get("uids", {})
        expected_rc = {"crash": (-6, 134), "await_crash": (-6, 134), "shutdown": (0,)}
        if last_ends:
            want = expected_rc[lt[-1][1][-1]["op"]]
            if rc not in want:
                problems.append({"lifetime": li, "problem": f"unexpected exit {rc}", "stderr": err[-500:]})
        elif rc != 0:
            problems.append({"lifetime": li, "problem": f"unexpected exit {rc}", "stderr": err[-500:]})
    if not keep:
        shutil.rmtree(root, ignore_errors=True)
    out = []
    for i, c in enumerate(beh):
        out.append({"i": i, "cmd": c, "real": results.get(i)})
    return out, problems


def gen_cfg2(name, *, cap, k, types_a, types_b, ctxs, gen_len, max_crash=3, max_flush=3, max_compact=3, lock=False):
    """Write a Storage2Gen cfg (two active shards, as-built parameterisation) into .work and return its path."""
    d = core.WORK / "cfg"
    d.mkdir(parents=True, exist_ok=True)
    p = d / f"{name}.cfg"
    p.write_text(f"""SPECIFICATION {"LockSpec" if lock else "GenSpec"}
CONSTANTS
  Cap = {cap}
  K = {k}
  TypesA = {_set(types_a)}
  TypesB = {_set(types_b)}
  Ctxs = {_set(ctxs)}
  MaxEv = 100
  MaxCrash = {max_crash}
  MaxFlush = {max_flush}
  MaxCompact = {max_compact}
  Fix = {{}}
  FlushCrash = {_set([] if lock else ALL_FLUSH_CRASH)}
  CompactCrash = {_set([] if lock else ALL_COMPACT_CRASH)}
  QuiescentCrash = TRUE
  CleanRestarts = TRUE
  GenLen = {gen_len}
INVARIANT Emit
CHECK_DEADLOCK FALSE
""")
    return p


def behaviours2(cfgpath, *, n, gen_len, seed, timeout=300):
    r = core.tlc("Storage2Gen", cfgpath, workers=1, simulate=n, depth=gen_len + 1, seed_=seed, timeout=timeout)
    if r.error or r.violated:
        core.log(r.out[-3000:])
        raise core.ToolError(f"Storage2Gen failed: {r.error or r.violated}")
    seen, out = set(), []
    for b in r.printed("BEH"):
        key = json.dumps(b, sort_keys=True)
        if key not in seen:
            seen.add(key)
            out.append(b)
    return out, r


def features2(beh):
    """Feature classes of a two-shard behaviour: per-shard command x crash stage, shard alternation, fired defects."""
    f = set()
    for i, c in enumerate(beh):
        f.add(f"{c['cmd']}:{c.get('crash', 'none')}:{c['sh']}")
        for x in c["obsA"]["fired"]:
            f.add("firedA:" + x)
        for x in c["obsB"]["fired"]:
            f.add("firedB:" + x)
        if i > 0:
            f.add(f"{beh[i-1]['cmd']}@{beh[i-1]['sh']}>{c['cmd']}@{c['sh']}")
        # a crash inside one shard's pipeline while the other shard holds unflushed events
        if c.get("crash", "none") != "none":
            other = "obsB" if c["sh"] == "A" else "obsA"
            f.add(f"crash:{c['crash']}:other-mem-{'nonempty' if (i > 0 and beh[i-1][other]['memlen'] > 0) else 'empty'}")
    return f


def project2(beh, which):
    """The behaviour as shard `which` ("A"/"B") sees it: its own and the process-wide commands, the other shard's
    commands as 'other' (no effect on this shard except the restart its crashes cause, already in the prediction)."""
    out = []
    for c in beh:
        if c["sh"] in (which, "AB"):
            d = {x: c[x] for x in c if x not in ("obsA", "obsB")}
            d["obs"] = c["obs" + which]
        else:
            d = {"cmd": "other", "of": c["cmd"], "other_crash": c.get("crash", "none"), "obs": c["obs" + which]}
        out.append(d)
    return out


def run_pair(bindir, beh, *, root, cap, k, types_a, types_b, ctxs, shards, sh_a, sh_b, names_a, names_b, keep=False,
             with_replay=False):
    """Replay a Storage2Gen behaviour on two shards of one engine. Returns {"A": recs, "B": recs}, problems."""
    flat = []
    for c in beh:
        d = {x: c[x] for x in c if x not in ("obsA", "obsB")}
        d["obs"] = c["obsA"]
        if c["cmd"] == "store":
            d["c"] = (names_a if c["sh"] == "A" else names_b)[c["c"]]
        if c["cmd"] == "compact":
            d["shard"] = sh_a if c["sh"] == "A" else sh_b
        flat.append(d)
    back = {v: kk for kk, v in list(names_a.items()) + list(names_b.items())}
    recs, problems = run_behaviour(bindir, flat, root=root, cap=cap, k=k, types=list(dict.fromkeys(list(types_a) + list(types_b))),
                                   ctxs=(sorted(back) if with_replay else []),
                                   shards=shards, shard=sh_a, ctx_names=dict((v, v) for v in back), prepared=True, keep=keep)
    shared = set(types_a) & set(types_b)

    def predicted(i, other, t):
        o = beh[i]["obs" + other]["rows"].get(t)
        return 0 if o is None else len(o["seg"]) + len(o["mem"])

    out = {}
    for which, sh in (("A", sh_a), ("B", sh_b)):
        pb = project2(beh, which)
        own_names = set((names_a if which == "A" else names_b).values())
        other = "B" if which == "A" else "A"
        rs = []
        for rec in recs:
            real = rec["real"]
            if real is not None:
                real = dict(real)
                # a type that lives on both shards: the rows of the fanned-out read belong to the shard their context is
                # routed to; the COUNT of this shard's view is the total minus what the other shard's instance predicts
                real["q"] = {t: (None if rows is None else [(kk, back.get(cx, cx), ty, e) for (kk, cx, ty, e) in rows
                                                            if t not in shared or cx in own_names])
                             for t, rows in real["q"].items()}
                real["count"] = {t: (n if (n is None or t not in shared) else n - predicted(rec["i"], other, t))
                                 for t, n in real["count"].items()}
                if real.get("fs_all"):
                    real["fs"] = real["fs_all"][sh]
                if with_replay:
                    nm = names_a if which == "A" else names_b
                    tys = types_a if which == "A" else types_b
                    # this shard's view: REPLAY <its type> FOR <its context>, keyed by the model's context names
                    real["replay"] = {f"{t}|{c}": real["replay"].get(f"{t}|{nm[c]}") for t in tys for c in ctxs}
            rs.append({"i": rec["i"], "cmd": pb[rec["i"]], "real": real})
        out[which] = (pb, rs)
    return out, problems


def campaign2(chk, tag, plans, ctxs, bindir, judge, rnd, types_a=("a", "b"), types_b=("p", "q"), with_replay=False, keep_if=None):
    """Two ACTIVE shards: generate (Storage2Gen) + select + replay on two shards of a 3-shard engine + judge each shard's view
    with `judge(chk, projected_behaviour, recs, problems, cfgdesc, stats, types=...)`."""
    ta, tb = list(types_a), list(types_b)
    routes = probe_routing(bindir, 3)
    two = sorted((sh for sh in routes if len(routes[sh]) >= 2), key=lambda sh: -len(routes[sh]))[:2]
    if len(two) < 2:
        raise core.ToolError(f"routing probe: fewer than two shards with two contexts each: {routes}")
    sh_a, sh_b = sorted(two, reverse=True)
    names_a = dict(zip(ctxs, routes[sh_a][:2]))
    names_b = dict(zip(ctxs, routes[sh_b][:2]))
    stats = Counter()
    tot_feat, cov_feat = set(), set()
    for pl in plans:
        if pl.get("lock"):
            # lockstep family: the same event types on both shards, every command of A repeated on B (same labels / ids / uids)
            ta = tb = list(types_a)
        else:
            ta, tb = list(types_a), list(types_b)
        cfgp = gen_cfg2(pl["name"], cap=pl["cap"], k=pl["k"], types_a=ta, types_b=tb, ctxs=ctxs, gen_len=pl["gen_len"],
                        lock=bool(pl.get("lock")))
        behs, _r = behaviours2(cfgp, n=pl["n_sim"], gen_len=pl["gen_len"], seed=core.seed() + 31 * pl["cap"])
        rnd.shuffle(behs)
        # keep behaviours in which both shards store
        behs = [b for b in behs if {c["sh"] for c in b if c["cmd"] == "store"} >= {"A", "B"} and (keep_if is None or keep_if(b))]
        feats = [features2(b) for b in behs]
        chosen, covered = [], set()
        rest = list(range(len(behs)))
        while rest and len(chosen) < pl["n_rep"]:
            best = max(rest, key=lambda i: len(feats[i] - covered))
            chosen.append(best)
            covered |= feats[best]
            rest.remove(best)
        tot_feat |= set().union(*feats) if feats else set()
        cov_feat |= covered
        core.log(f"[{tag}] stage P {pl['name']}: {len(behs)} two-shard behaviours, {len(chosen)} replayed on shards {sh_a},{sh_b} of 3")
        for bi in chosen:
            beh = behs[bi]
            res, problems = run_pair(bindir, beh, root=core.WORK / tag.lower() / f"{pl['name']}-{bi}", cap=pl["cap"], k=pl["k"],
                                     types_a=ta, types_b=tb, ctxs=ctxs, shards=3, sh_a=sh_a, sh_b=sh_b,
                                     names_a=names_a, names_b=names_b, with_replay=with_replay)
            stats["behaviours"] += 1
            stats["lifetimes"] += 1 + sum(1 for c in beh if c["cmd"] in ("crash", "restart") or c.get("crash", "none") != "none")
            if any(c.get("crash", "none") != "none" for c in beh):
                stats["with_pipeline_crash"] += 1
            joint = [{x: c[x] for x in c if x not in ("obsA", "obsB")} for c in beh]
            for which, types in (("A", ta), ("B", tb)):
                pb, recs = res[which]
                judge(chk, pb, recs, problems, {"cap": pl["cap"], "k": pl["k"], "plan": pl["name"], "two_shards": True,
                                                "view": which, "joint": joint}, stats, types=types)
            if stats["behaviours"] <= 1:
                chk.sample({"config": pl["name"] + " (two active shards)", "commands": joint})
    chk.cov["two_shard_stage"] = {**dict(stats), "feature_classes_covered": len(cov_feat), "feature_classes_in_sim": len(tot_feat),
                                  "shards": [sh_a, sh_b], "spec": "Storage2Gen.tla"}
    return stats


def bag(rows):
    return Counter(r[0] for r in rows) if rows is not None else None


def model_bag(obs, t, which=("seg", "mem")):
    c = Counter()
    for w in which:
        for (k, _c) in obs["rows"][t][w]:
            c[k] += 1
    return c


def design_rows(beh, upto, t):
    """Design expectation after command index `upto`: every stored event of type t, in order."""
    return [(c["k"], c["c"]) for c in beh[: upto + 1] if c["cmd"] == "store" and c["t"] == t]


def level_profile(ids):
    return Counter(int(s) // 10000 for s in ids)


def types_with_files(fs, uids, label):
    """Which event types have files in segment directory `label` (by <uid>.zones)."""
    files = (fs or {}).get("data", {}).get("segs", {}).get(label, {})
    inv = {u: t for t, u in (uids or {}).items()}
    out = set()
    for fn in files:
        if fn.endswith(".zones"):
            out.add(inv.get(fn[: -len(".zones")], "?" + fn))
    return out


def campaign(chk, tag, plans, types, ctxs, bindir, judge, rnd):
    """Generate + select + replay + judge. plans: dicts with name, cap, k, gen_len, n_sim, n_rep and
    optional gen_cfg overrides (`gen`) and run_behaviour overrides (`run`)."""
    from collections import Counter as C
    stats = C()
    total_feat, cov_feat = set(), set()
    for pl in plans:
        name = pl["name"]
        cfgp = gen_cfg(name, cap=pl["cap"], k=pl["k"], types=types, ctxs=ctxs, fix=[], gen_len=pl["gen_len"],
                       **pl.get("gen", {}))
        behs, _r = behaviours(cfgp, n=pl["n_sim"], gen_len=pl["gen_len"], seed=core.seed() + pl["cap"] * 7 + pl["k"])
        rnd.shuffle(behs)
        if pl.get("filter"):
            behs = [b for b in behs if pl["filter"](b)]
        chosen, covered, allf = select(behs, pl["n_rep"])
        total_feat |= {f"{name}:{f}" for f in allf}
        cov_feat |= {f"{name}:{f}" for f in covered}
        core.log(f"[{tag}] {name}: {len(behs)} behaviours generated, {len(chosen)} replayed, features {len(covered)}/{len(allf)}")
        for bi, beh in enumerate(chosen):
            recs, problems = run_behaviour(bindir, beh, root=core.WORK / tag.lower() / f"{name}-{bi}", cap=pl["cap"],
                                           k=pl["k"], types=types, ctxs=ctxs, **pl.get("run", {}))
            stats["behaviours"] += 1
            stats["lifetimes"] += 1 + sum(1 for c in beh if c["cmd"] in ("crash", "restart") or c.get("crash", "none") != "none")
            if any(c.get("crash", "none") != "none" or c["cmd"] == "crash" for c in beh):
                stats["with_crash"] += 1
            judge(chk, beh, recs, problems, {"cap": pl["cap"], "k": pl["k"], "plan": name}, stats)
            if bi < 2:
                chk.sample({"config": name, "commands": [{x: c[x] for x in c if x != "obs"} for c in beh],
                            "fired": beh[-1]["obs"]["fired"]})
    chk.cov["traces_validated_against_impl"] = stats["behaviours"]
    chk.cov["replay_stats"] = dict(stats)
    chk.cov["feature_classes_covered"] = len(cov_feat)
    chk.cov["feature_classes_reachable_in_sim"] = len(total_feat)
    return stats


def partial_branch_mismatch(c, real):
    """For a crash at stage 'partial': did reality write the same type first as the model chose?"""
    if c.get("crash") != "partial":
        return False
    m = c["obs"]
    l0 = [s for s in m["segs"] if s < 10000]
    label = "%05d" % (max(l0) if l0 else 0)
    got = types_with_files(real.get("fs"), real.get("uids"), label)
    return got != set(c["part"])


def model_stage_m(chk, cfg, tag, timeout=1500, must_take=("Store", "ManualFlush", "Compact", "CrashRestart", "CleanRestart")):
    """Stage M: exhaustive TLC run on the design parameterisation; fills states/transitions."""
    big = cfg.endswith("_t.cfg")       # thorough configurations: ~10 M states
    r = core.tlc("Storage", cfg, workers=14 if big else 8, timeout=5400 if big else timeout, coverage=True, mem="24g" if big else "8g")
    core.tlc_ok(r, f"Storage/{cfg} (design parameterisation must satisfy all Storage properties)")
    chk.cov["states"] = r.distinct
    chk.cov["transitions"] = r.generated
    chk.cov["model_cfg"] = cfg
    chk.cov["model_wall_s"] = round(r.wall, 1)
    for act in must_take:
        if r.action_cov.get(act, 0) == 0:
            raise core.ToolError(f"vacuity: action {act} never taken in {cfg}")
    chk.cov["action_coverage"] = r.action_cov
    return r
