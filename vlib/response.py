"""Concretisation tables and plumbing for the Response module (C20).

The TLA+ module spec/Response.tla talks about abstract value ids; this file owns the table
id -> literal (and its inverse for decoded output) and nothing else about the property."""
import base64
import json
import shutil
from pathlib import Path

from . import core

WORKDIR = core.WORK / "c20"

# ---- number ids -> canonical decimal text (as harness/src/bin/vrender.rs prints decoded numbers)
NUM = {str(i): str(i) for i in range(0, 13)}
NUM.update({"n3": "-3", "imax": "9223372036854775807", "imin": "-9223372036854775808", "ts0": "1700000000000",
            "e5": "100000", "p63": "9223372036854775808", "umax": "18446744073709551615",
            "p64": "18446744073709551616", "1p5": "1.5", "e300": "1e300", "nan": "NaN", "inf": "inf", "ninf": "-inf"})
INT_IDS = [n for n in NUM if n not in ("1p5", "e300", "nan", "inf", "ninf", "p64")]
# float ids -> literal handed to the harness (parsed with str::parse::<f64>, "-0" = negative zero)
FLOAT_LIT = {"1p5": "1.5", "f5": "5", "negz": "-0", "e300": "1e300", "fp63": "9223372036854775808",
             "nan": "NaN", "inf": "inf", "ninf": "-inf"}
LIT = {"plain": "hello", "empty": "", "uni": "café 数 ✓", "esc": "a\"b\\c\nd\te", "nullw": "null",
       "qstr": "\"x\"", "sp5": " 5", "arr": "[1,2]", "obj": "{\"a\":1}", "negzero": "-0",
       "p1": "alpha", "p2": "beta gamma", "p3": "Z"}
FDISP = {"1p5": "1.5", "e300": "1" + "0" * 300, "fp63": "9223372036854776000", "nan": "NaN", "inf": "inf", "ninf": "-inf"}
BIN = {"b1": [0, 255, 16]}
COMP = {"arr": "[1,2]", "obj": "{\"a\":1}"}
NAMES = {"event_id": "event_id", "id": "id", "v": "v", "uni": "köln_数", "dotted": "left.count",
         "spaced": "a b\"c", "bucket": "bucket", "g": "country", "count": "count", "avg": "avg_x", "w": "w", "x": "x", "y": "y"}


def text(kind, x):
    if kind == "lit":
        return LIT[x]
    if kind == "dec":
        return NUM[x]
    if kind == "fdisp":
        return FDISP[x]
    if kind == "bool":
        return x
    if kind == "b64":
        return base64.b64encode(bytes(BIN[x])).decode()
    raise core.ToolError(f"unknown text kind {kind}")


def _inverse():
    inv = {}
    pairs = [("lit", x) for x in LIT] + [("dec", x) for x in INT_IDS] + [("fdisp", x) for x in FDISP] + \
            [("bool", "true"), ("bool", "false")] + [("b64", x) for x in BIN]
    for k, x in pairs:
        t = text(k, x)
        if t in inv:
            raise core.ToolError(f"concretisation not injective: {k}:{x} and {inv[t]} are both {t!r}")
        inv[t] = f"{k}:{x}"
    return inv


TEXT_INV = _inverse()
NUM_INV = {v: k for k, v in NUM.items()}
COMP_INV = {v: k for k, v in COMP.items()}
NAME_INV = {v: k for k, v in NAMES.items()}
assert len(NUM_INV) == len(NUM) and len(NAME_INV) == len(NAMES)


def concrete_cell(c):
    """abstract cell {rt,a,b} -> typed literal for vrender"""
    rt, a, b = c["rt"], c["a"], c["b"]
    if rt == "Null":
        return {"t": "null"}
    if rt == "Bool":
        return {"t": "bool", "v": a == "true"}
    if rt == "Int":
        return {"t": "int", "v": NUM[a]}
    if rt == "Ts":
        return {"t": "ts", "v": NUM[a]}
    if rt == "Float":
        return {"t": "float", "v": FLOAT_LIT[a]}
    if rt == "Utf8":
        return {"t": "str", "v": text(a, b)}
    if rt == "Bin":
        return {"t": "bin", "v": BIN[a]}
    raise core.ToolError(f"unknown cell class {rt}")


def abstract_cell(d):
    """decoded canonical cell of vrender -> [k, v] with ids (unknown literals keep their text, marked '?')"""
    k = d.get("k")
    v = d.get("v")
    if k == "null":
        return {"k": "null", "v": ""}
    if k == "bool":
        return {"k": "bool", "v": "true" if v else "false"}
    if k == "num":
        return {"k": "num", "v": NUM_INV.get(v, "?" + str(v))}
    if k == "str":
        return {"k": "str", "v": TEXT_INV.get(v, "?" + str(v))}
    if k in ("arr", "obj"):
        return {"k": "comp", "v": COMP_INV.get(v, "?" + str(v))}
    return {"k": str(k), "v": "?" + str(v)}


def raw_cell(d):
    """decoded canonical cell -> [k, v] with v a string (no table: e2e records)"""
    k = d.get("k")
    v = d.get("v")
    if k == "null":
        return {"k": "null", "v": ""}
    if k == "bool":
        return {"k": "bool", "v": "true" if v else "false"}
    return {"k": str(k), "v": str(v)}


def concrete_case(cid, cfg, stream):
    return {"id": cid, "writer": cfg["writer"], "mat_frames": cfg["mat"], "watermark": cfg["wm"],
            "columns": [{"name": NAMES[c["name"]], "type": c["lt"]} for c in cfg["cols"]],
            "batches": [[[concrete_cell(c) for c in row] for row in b] for b in stream],
            "limit": None if cfg["limit"] < 0 else cfg["limit"], "offset": None if cfg["offset"] < 0 else cfg["offset"]}


def observed_table(dec):
    """vrender's decoded response -> obs record of Response!Judge"""
    ok = dec.get("outcome") == "written" and not dec.get("problems") and dec.get("kind") == "stream"
    return {"ok": bool(ok),
            "names": [NAME_INV.get(n, "?" + n) for n in dec.get("columns", [])],
            "rows": [[abstract_cell(c) for c in r] for r in dec.get("rows", [])],
            "announced": -1 if dec.get("announced") is None else dec["announced"]}


def run_vrender(bindir, mode, records, *, name, row_frames=False, batch_size=3, extra_cfg=None, setup=None, timeout=900):
    """One vrender process. records: list of input objects. Returns list of output objects."""
    d = WORKDIR / name
    if d.exists():
        shutil.rmtree(d, ignore_errors=True)
    d.mkdir(parents=True, exist_ok=True)
    inp = d / "in.ndjson"
    out = d / "out.ndjson"
    with open(inp, "w") as f:
        for r in records:
            f.write(json.dumps(r) + "\n")
    cfg = {"root": str(d / "root"), "streaming_batch_size": batch_size, "row_frames": bool(row_frames)}
    if extra_cfg:
        cfg.update(extra_cfg)
    job = {"config": cfg, "mode": mode, "in": str(inp), "out": str(out)}
    if setup is not None:
        job["setup"] = setup
    (d / "job.json").write_text(json.dumps(job))
    import os
    import subprocess
    binname = os.environ.get("VERIF_C20_BIN", "vrender")   # selftest: a build of vrender over mutated writer sources
    try:
        p = subprocess.run([str(bindir / binname), str(d / "job.json")], capture_output=True, text=True, timeout=timeout)
    except subprocess.TimeoutExpired:
        raise core.ToolError(f"vrender timed out ({name})")
    if p.returncode != 0:
        core.log(p.stderr[-3000:])
        raise core.ToolError(f"vrender failed rc={p.returncode} ({name})")
    res = []
    for line in out.read_text().splitlines():
        if line.strip():
            res.append(json.loads(line))
    return res
